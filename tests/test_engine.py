"""Self-tests of the exploration engine: enumerator counts against closed forms, shards, BFS on a toy machine,
findings matcher.  Run: cd /verif && PYTHONPATH=/verif:/repo/src /venv/bin/python -m pytest -q tests"""
import math

from mc import bfs, findings, space


def test_deviation_counts_match_closed_form():
    axes = [space.Axis("a", (0, 1, 2)), space.Axis("b", (0, 1)), space.Axis("c", (0, 1, 2, 3)), space.Axis("d", (0, 1))]
    for k in range(5):
        got = list(space.deviations(axes, k))
        assert len(got) == space.deviations_size(axes, k)
        assert len({tuple(sorted(d.items())) for _, d in got}) == len(got)
        assert all(j <= k for j, _ in got)
    assert len(list(space.deviations(axes, len(axes)))) == space.product_size(axes) == 48


def test_graphs_sequences_selections():
    for n in range(6):
        g = list(space.graphs(n))
        assert len(g) == len(set(g)) == 2 ** (n * (n - 1) // 2)
        assert all(space.graph_from_mask(n, m) == e for m, e in enumerate(g))
    assert len(list(space.sequences("abc", 3))) == 1 + 3 + 9 + 27
    assert len(list(space.ordered_selections("abcde"))) == sum(math.perm(5, k) for k in range(6)) == 326
    assert len(list(space.multisets("abc", 3))) == 20


def test_shards_and_chunks_partition():
    items = list(range(103))
    assert sorted(sum((list(space.shard(items, i, 7)) for i in range(7)), [])) == items
    ch = space.chunk(items, 16)
    assert sum(ch, []) == items and len(ch) == 16


def test_bfs_explores_every_state_of_a_toy_counter():
    # states 0..9, ops +1 and *2 (mod 10): reachable set from 1 within depth 4 computed by hand-rolled closure
    def ops(s):
        return ["inc", "dbl"]

    def apply_op(s, op):
        return (s + 1) % 10 if op == "inc" else (s * 2) % 10
    seen_states = []
    r = bfs.bfs(("init", 1), ops, apply_op, lambda s: s, 4, on_state=lambda h, s, d: seen_states.append((s, d)))
    expect = {1: 0}
    frontier = [1]
    for d in range(1, 5):
        nxt = []
        for s in frontier:
            for t in ((s + 1) % 10, (s * 2) % 10):
                if t not in expect:
                    expect[t] = d
                    nxt.append(t)
        frontier = nxt
    assert dict(seen_states) == expect
    assert r.states == len(expect)
    assert r.transitions == 2 * sum(1 for s, d in expect.items() if d < 4)


def test_findings_matcher_fixed_matches_nothing_and_bounds():
    entries = [
        {"id": "a", "property": "P", "oracle": "o", "status": "fixed", "match": {"kind": "k"}},
        {"id": "b", "property": "P", "oracle": "o", "status": "open", "match": {"kind": ["k", "l"], "excess": {"max": 0.01}}},
    ]
    assert findings.match(entries, "P", "o", {"kind": "k", "excess": 0.005})["id"] == "b"
    assert findings.match(entries, "P", "o", {"kind": "k", "excess": 0.02}) is None
    assert findings.match(entries, "P", "o", {"kind": "m", "excess": 0.005}) is None
    assert findings.match(entries, "P", "other", {"kind": "k", "excess": 0.005}) is None
    assert findings.match(entries[:1], "P", "o", {"kind": "k"}) is None
    assert findings.match(entries, "P", "o", {"kind": "k"}) is None  # key required by the entry is absent
