"""Every replay artefact under /verif/replays is a unit test: it re-executes the recorded case without the explorer.
The test FAILS while the violation persists (that is its purpose) and passes once the code satisfies the property on
that case.  No replay files exist on a tree where all checks are silent."""
import glob
import importlib
import json
import os

import pytest

FILES = sorted(glob.glob(os.path.join(os.path.dirname(os.path.dirname(os.path.abspath(__file__))), "replays", "*.json")))


@pytest.mark.parametrize("path", FILES or [None])
def test_replay(path):
    if path is None:
        pytest.skip("no replay artefacts")
    doc = json.load(open(path))
    mod = importlib.import_module("props.%s" % doc["property"].lower())
    out = mod.replay_case(doc["case"])
    from mc import findings
    kf = findings.load()
    bad = [v for v in out.viol if findings.match(kf, doc["property"], v["oracle"], v["cls"]) is None]
    assert not bad, bad[:2]
