"""Exhaustive-exploration runner: shards blocks of a finite space over worker
processes, merges counters, applies the findings protocol, writes evidence and
replay artefacts, prints the verdict.

A property module (props/cXX.py) provides

    ID                      property id
    RULE                    how cases are enumerated / what is non-trivial
    ASSUMPTIONS             list of strings
    bounds(tier) -> dict    the alphabet and bounds actually used
    blocks(tier) -> list    JSON-serialisable block descriptors (the unit of sharding)
    run_block(block, rec)   enumerates *every* case of the block, executes it on the
                            real implementation and on the reference model, and
                            reports each through rec.add(out)
    replay_case(case) -> Out   re-executes one case without the explorer
"""
from __future__ import annotations

import hashlib
import json
import multiprocessing as mp
import os
import shutil
import subprocess
import sys
import tempfile
import time
import traceback
from array import array
from collections import Counter, defaultdict

import numpy as np

from . import findings as findings_mod

VERIF = os.path.dirname(os.path.dirname(os.path.abspath(__file__)))
_ALT = os.environ.get("VERIF_REPO") not in (None, "", "/repo")
# runs against a scratch copy of the library (mutation campaign) must not overwrite the evidence of the real tree
EVIDENCE_DIR = os.path.join(VERIF, ".scratch", "evidence") if _ALT else os.path.join(VERIF, "evidence")
REPLAY_DIR = os.path.join(VERIF, ".scratch", "replays") if _ALT else os.path.join(VERIF, "replays")
SCHEMA = "/root/.vp/EVIDENCE.schema.json"

MAX_VIOL_PER_GROUP_PER_BLOCK = 3
MAX_GROUPS_PRINTED = 25


def jdefault(o):
    """JSON fallback for descriptors (Fractions, tuples, numpy scalars, paths...)."""
    if isinstance(o, (set, frozenset)):
        return sorted(o, key=repr)
    if isinstance(o, np.generic):
        return o.item()
    if isinstance(o, np.ndarray):
        return o.tolist()
    if isinstance(o, float):
        return repr(o)
    return repr(o)


def jdump(o, **kw):
    return json.dumps(o, default=jdefault, sort_keys=True, **kw)


def h64(obj) -> int:
    if not isinstance(obj, (str, bytes)):
        obj = jdump(obj)
    if isinstance(obj, str):
        obj = obj.encode()
    return int.from_bytes(hashlib.blake2b(obj, digest_size=8).digest(), "little")


class Out:
    """Result of executing one case (one state / one transition bundle)."""

    __slots__ = ("case", "key", "nontrivial", "klass", "checks", "viol", "transitions", "validated")

    def __init__(self, case, key=None):
        self.case = case
        self.key = key  # canonical state; default: the case descriptor
        self.nontrivial = False
        self.klass = "ok"
        self.checks = {}  # oracle -> [checked, vacuous]
        self.viol = []
        self.transitions = 1
        self.validated = 1

    def ok(self, oracle, n=1):
        c = self.checks.setdefault(oracle, [0, 0])
        c[0] += n

    def vac(self, oracle, n=1):
        c = self.checks.setdefault(oracle, [0, 0])
        c[1] += n

    def fail(self, oracle, observed, expected, cls=None, detail=None):
        c = self.checks.setdefault(oracle, [0, 0])
        c[0] += 1
        self.viol.append({
            "oracle": oracle,
            "cls": cls or {},
            "observed": observed,
            "expected": expected,
            "detail": detail,
        })

    def expect(self, oracle, cond, observed=None, expected=None, cls=None, detail=None):
        if cond:
            self.ok(oracle)
        else:
            self.fail(oracle, observed, expected, cls, detail)
        return cond


class Recorder:
    def __init__(self, prop, block, seed):
        self.prop = prop
        self.block = block
        self.seed = seed
        self.evaluations = 0
        self.transitions = 0
        self.validated = 0
        self.hashes = array("Q")
        self.nt_hashes = array("Q")
        self.hist = Counter()
        self.oracles = defaultdict(lambda: [0, 0, 0])  # checked, vacuous, failed
        self.viol_groups = {}  # gkey -> {count, examples}
        self.samples = []  # (rank, case)
        self.extra = Counter()  # free counters

    def add(self, out: Out):
        self.evaluations += 1
        self.transitions += out.transitions
        self.validated += out.validated
        key = out.key if out.key is not None else out.case
        hv = h64(key)
        self.hashes.append(hv)
        if out.nontrivial:
            self.nt_hashes.append(hv)
        self.hist[out.klass] += 1
        for o, (c, v) in out.checks.items():
            r = self.oracles[o]
            r[0] += c
            r[1] += v
        for v in out.viol:
            self.oracles[v["oracle"]][2] += 1
            gkey = v["oracle"] + "|" + jdump(v["cls"])
            g = self.viol_groups.setdefault(gkey, {"oracle": v["oracle"], "cls": v["cls"], "count": 0, "examples": []})
            g["count"] += 1
            if len(g["examples"]) < MAX_VIOL_PER_GROUP_PER_BLOCK:
                g["examples"].append({"case": out.case, "observed": v["observed"], "expected": v["expected"], "detail": v["detail"],
                                      "block": self.block})
        # seed-dependent sample selection (does not influence the verdict)
        rank = hv ^ ((self.seed * 0x9E3779B97F4A7C15) & 0xFFFFFFFFFFFFFFFF)
        if len(self.samples) < 2 or rank < self.samples[-1][0]:
            self.samples.append((rank, out.case))
            self.samples.sort(key=lambda t: t[0])
            del self.samples[2:]

    def count(self, name, n=1):
        self.extra[name] += n

    def result(self):
        return {
            "block": self.block,
            "evaluations": self.evaluations,
            "transitions": self.transitions,
            "validated": self.validated,
            "hashes": self.hashes.tobytes(),
            "nt_hashes": self.nt_hashes.tobytes(),
            "hist": dict(self.hist),
            "oracles": {k: list(v) for k, v in self.oracles.items()},
            "viol_groups": self.viol_groups,
            "samples": self.samples,
            "extra": dict(self.extra),
        }


_MODULE = None
_SEED = 0
_SCRATCH_ROOT = None


def scratch_dir():
    """Per-process scratch directory under the run's scratch root (removed by the parent)."""
    d = os.path.join(_SCRATCH_ROOT or tempfile.gettempdir(), "w%d" % os.getpid())
    os.makedirs(d, exist_ok=True)
    return d


def _run_block(block):
    t0 = time.time()
    rec = Recorder(_MODULE.ID, block, _SEED)
    try:
        _MODULE.run_block(block, rec)
        res = rec.result()
        res["error"] = None
    except BaseException as e:  # an exception escaping a check is an internal error, never a verdict
        res = rec.result()
        res["error"] = "".join(traceback.format_exception(type(e), e, e.__traceback__))[-4000:]
    res["wall"] = time.time() - t0
    return res


def run(module, tier, seed, jobs=None):
    global _MODULE, _SEED, _SCRATCH_ROOT
    t0 = time.time()
    _MODULE, _SEED = module, seed
    _SCRATCH_ROOT = tempfile.mkdtemp(prefix="verif-%s-" % module.ID)
    budget = float(os.environ.get("VERIF_MAX_S", "0") or 0)
    jobs = jobs or int(os.environ.get("VERIF_JOBS", "0") or 0) or min(16, os.cpu_count() or 1)
    try:
        blocks = list(module.blocks(tier))
        nblocks = len(blocks)
        # the seed rotates the order in which blocks are walked; nothing else
        if nblocks:
            r = seed % nblocks
            order = blocks[r:] + blocks[:r]
        else:
            order = []
        results = []
        capped = False
        if jobs == 1 or nblocks <= 1:
            for b in order:
                results.append(_run_block(b))
                if budget and time.time() - t0 > budget:
                    capped = True
                    break
        else:
            ctx = mp.get_context("fork")
            with ctx.Pool(min(jobs, nblocks)) as pool:
                it = pool.imap_unordered(_run_block, order, chunksize=1)
                for res in it:
                    results.append(res)
                    if budget and time.time() - t0 > budget:
                        capped = True
                        pool.terminate()
                        break
        return _finish(module, tier, seed, blocks, results, capped, t0)
    finally:
        shutil.rmtree(_SCRATCH_ROOT, ignore_errors=True)


def _finish(module, tier, seed, blocks, results, capped, t0):
    pid = module.ID
    errors = [r for r in results if r["error"]]
    evaluations = sum(r["evaluations"] for r in results)
    transitions = sum(r["transitions"] for r in results)
    validated = sum(r["validated"] for r in results)
    hashes = np.concatenate([np.frombuffer(r["hashes"], dtype=np.uint64) for r in results]) if results else np.zeros(0, np.uint64)
    nt = np.concatenate([np.frombuffer(r["nt_hashes"], dtype=np.uint64) for r in results]) if results else np.zeros(0, np.uint64)
    states = int(np.unique(hashes).size)
    distinct_nt = int(np.unique(nt).size)
    hist = Counter()
    oracles = defaultdict(lambda: [0, 0, 0])
    extra = Counter()
    groups = {}
    samples = []
    for r in results:
        hist.update(r["hist"])
        extra.update(r["extra"])
        for k, v in r["oracles"].items():
            o = oracles[k]
            for i in range(3):
                o[i] += v[i]
        for gk, g in r["viol_groups"].items():
            G = groups.setdefault(gk, {"oracle": g["oracle"], "cls": g["cls"], "count": 0, "examples": []})
            G["count"] += g["count"]
            G["examples"].extend(g["examples"])
        samples.extend(r["samples"])
    samples.sort(key=lambda t: t[0])
    sample_cases = [c for _, c in samples[:4]]

    kf = findings_mod.load()
    known_hit = {}
    unknown = []
    for gk in sorted(groups):
        g = groups[gk]
        g["examples"].sort(key=lambda e: len(jdump(e["case"])))
        entry = findings_mod.match(kf, pid, g["oracle"], g["cls"])
        if entry is not None:
            k = entry["id"]
            h = known_hit.setdefault(k, {"entry": entry, "count": 0, "example": g["examples"][0]})
            h["count"] += g["count"]
        else:
            unknown.append(g)

    lines = []
    internal = []
    replay_paths = []
    os.makedirs(REPLAY_DIR, exist_ok=True)
    for fn in os.listdir(REPLAY_DIR):
        if fn.startswith(pid + "-"):
            os.unlink(os.path.join(REPLAY_DIR, fn))
    # fewest-deviation / shortest cases first; one replay artefact per violation group, capped
    unknown.sort(key=lambda g: (g["oracle"], len(jdump(g["examples"][0]["case"]))))
    for n, g in enumerate(unknown[:MAX_GROUPS_PRINTED]):
        ex = g["examples"][0]
        # re-execute the failing case once in this process.  A violation that does not recur on the isolated case is
        # history-dependent (state carried between calls): it is then re-checked by re-running its whole block, and is
        # reported as a VIOLATION in either case (the exploration did observe it); the replay file says how it reproduces.
        reproduced = "case"
        try:
            out2 = module.replay_case(ex["case"])
            again = [v for v in out2.viol if v["oracle"] == g["oracle"]]
        except Exception as e:  # noqa
            again = None
            internal.append("replay of %s raised %r" % (g["oracle"], e))
        if again is not None and not again:
            reproduced = "history-only (observed during the exploration; recurs neither on the isolated case nor when its block is re-run alone)"
            try:
                rec2 = Recorder(pid, ex.get("block"), seed)
                module.run_block(ex.get("block"), rec2)
                if any(gg["oracle"] == g["oracle"] for gg in rec2.viol_groups.values()):
                    reproduced = "block (history-dependent: fails when its block is re-run from the start, not on the isolated case)"
            except Exception as e:  # noqa
                internal.append("block re-run for %s raised %r" % (g["oracle"], e))
        path = os.path.join(REPLAY_DIR, "%s-%s-%d.json" % (pid, g["oracle"], n))
        with open(path, "w") as f:
            f.write(jdump({
                "property": pid, "oracle": g["oracle"], "cls": g["cls"], "count": g["count"],
                "case": ex["case"], "observed": ex["observed"], "expected": ex["expected"], "detail": ex["detail"],
                "block": ex.get("block"), "reproduced": reproduced,
                "replay_cmd": "./check %s --replay %s" % (pid, path),
            }, indent=1))
        replay_paths.append(path)
        if True:
            lines.append("VIOLATION property=%s replay=%s  # oracle=%s cls=%s count=%d observed=%s expected=%s%s" % (
                pid, path, g["oracle"], jdump(g["cls"]), g["count"], jdump(ex["observed"])[:200], jdump(ex["expected"])[:200],
                "" if reproduced == "case" else " reproduced=" + reproduced.split(" ")[0]))
    if len(unknown) > MAX_GROUPS_PRINTED:
        lines.append("# ... %d more violation groups (see evidence)" % (len(unknown) - MAX_GROUPS_PRINTED))

    for k, h in sorted(known_hit.items()):
        print("KNOWN-FINDING: property=%s %s [oracle=%s, %d cases this run, e.g. %s]" % (
            pid, h["entry"]["what"], h["entry"]["oracle"], h["count"], jdump(h["example"]["case"])[:200]))

    exhaustive = (not capped) and (not errors) and len(results) == len(blocks)
    wall = time.time() - t0
    n_viol = sum(g["count"] for g in unknown)
    cov = {
        "states": states,
        "transitions": transitions,
        "traces_validated_against_impl": validated,
        "evaluations": evaluations,
        "distinct_nontrivial": distinct_nt,
        "rule": module.RULE,
        "samples": sample_cases if sample_cases else [],
        "exhaustive": exhaustive,
        "blocks_total": len(blocks),
        "blocks_done": len(results),
        "bounds": module.bounds(tier),
        "outcome_histogram": dict(hist),
        "oracles": {k: {"checked": v[0], "vacuous": v[1], "failed": v[2]} for k, v in sorted(oracles.items())},
        "counters": dict(extra),
        "known_findings_hit": {k: h["count"] for k, h in known_hit.items()},
        "violation_groups": [{"oracle": g["oracle"], "cls": g["cls"], "count": g["count"]} for g in unknown[:int(os.environ.get("VERIF_GROUPS_MAX", "100"))]],
        "internal_errors": [e["error"][-600:] for e in errors][:5] + internal[:5],
    }
    ev = {
        "property_id": pid,
        "tier": tier,
        "seed": seed,
        "level": "model_checking",
        "coverage": cov,
        "assumptions": list(module.ASSUMPTIONS),
        "wall_s": round(wall, 3),
        "violations": n_viol,
    }
    os.makedirs(EVIDENCE_DIR, exist_ok=True)
    evpath = os.path.join(EVIDENCE_DIR, "%s.json" % pid)
    with open(evpath, "w") as f:
        f.write(jdump(ev, indent=1))
    valid = validate_evidence(evpath)

    print("%s tier=%s seed=%d blocks=%d/%d evaluations=%d states=%d transitions=%d nontrivial=%d outcomes=%d exhaustive=%s wall=%.1fs" % (
        pid, tier, seed, len(results), len(blocks), evaluations, states, transitions, distinct_nt, len(hist), exhaustive, wall))
    for k, v in sorted(oracles.items()):
        print("  oracle %-34s checked=%-9d vacuous=%-8d failed=%d" % (k, v[0], v[1], v[2]))
    for ln in lines:
        print(ln)
    if errors or internal or valid is False:
        for e in errors[:3]:
            print("INTERNAL-ERROR in block %s:\n%s" % (jdump(e["block"])[:200], e["error"]))
        for m in internal[:5]:
            print("INTERNAL-ERROR " + m)
        if valid is False:
            print("INTERNAL-ERROR evidence file does not validate")
        sys.stdout.flush()
        return 2
    if capped:
        print("NOTE: wall-clock budget hit; run is NOT exhaustive (blocks %d/%d)" % (len(results), len(blocks)))
    sys.stdout.flush()
    return 1 if unknown else 0


def validate_evidence(path):
    """Validate against EVIDENCE.schema.json using the tooling venv (jsonschema lives there)."""
    if not os.path.exists(SCHEMA) or not shutil.which("python3-vt"):
        return None
    code = (
        "import json,sys,jsonschema;"
        "jsonschema.validate(json.load(open(sys.argv[1])), json.load(open(sys.argv[2])))"
    )
    env = {k: v for k, v in os.environ.items() if k not in ("PYTHONPATH",)}
    p = subprocess.run(["python3-vt", "-c", code, path, SCHEMA], capture_output=True, text=True, env=env)
    if p.returncode != 0:
        print(p.stderr[-1500:])
        return False
    return True


def default_run_block(cases_fn, run_case_fn):
    def run_block(block, rec):
        for case in cases_fn(block):
            rec.add(run_case_fn(case))
    return run_block


def replay(module, path):
    with open(path) as f:
        doc = json.load(f)
    out = module.replay_case(doc["case"])
    pid = module.ID
    if not out.viol and doc.get("reproduced", "case") != "case" and doc.get("block") is not None:
        # history-dependent violation: re-run the whole block it was observed in (fresh process, same call sequence)
        print("replay: the isolated case holds; re-running its block %s" % jdump(doc["block"])[:200])
        rec = Recorder(pid, doc["block"], 0)
        module.run_block(doc["block"], rec)
        for g in rec.viol_groups.values():
            if g["oracle"] == doc["oracle"]:
                e = g["examples"][0]
                out.fail(g["oracle"], e["observed"], e["expected"], g["cls"], {"case": e["case"], "count_in_block": g["count"]})
    print("replay %s case=%s" % (pid, jdump(doc["case"])[:2000]))
    for o, (c, v) in sorted(out.checks.items()):
        print("  oracle %-34s checked=%d vacuous=%d" % (o, c, v))
    kf = findings_mod.load()
    bad = 0
    for v in out.viol:
        entry = findings_mod.match(kf, pid, v["oracle"], v["cls"])
        tag = "KNOWN-FINDING" if entry else "FAILS"
        print("  %s oracle=%s cls=%s\n    observed=%s\n    expected=%s\n    detail=%s" % (
            tag, v["oracle"], jdump(v["cls"]), jdump(v["observed"])[:1500], jdump(v["expected"])[:1500], jdump(v["detail"])[:1500]))
        if not entry:
            bad += 1
    if bad:
        print("VIOLATION property=%s replay=%s" % (pid, path))
        return 1
    print("replay: property holds on this case")
    return 0
