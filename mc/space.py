"""Finite space descriptions and exhaustive enumerators.

Every enumerator is a generator with a deterministic order and yields each
element of the described finite space exactly once.  ``tests/test_engine.py``
checks the counts against closed forms so that a silently truncated
enumeration cannot pass as exhaustive.
"""
from __future__ import annotations

import itertools
from dataclasses import dataclass
from typing import Any, Iterable, Iterator, Sequence


@dataclass(frozen=True)
class Axis:
    name: str
    values: tuple
    default: Any = None  # must be values[0] by convention

    def __post_init__(self):
        object.__setattr__(self, "values", tuple(self.values))
        if self.default is None:
            object.__setattr__(self, "default", self.values[0])


def product(axes: Sequence[Axis]) -> Iterator[dict]:
    """Full Cartesian product, first axis slowest."""
    names = [a.name for a in axes]
    for combo in itertools.product(*[a.values for a in axes]):
        yield dict(zip(names, combo))


def product_size(axes: Sequence[Axis]) -> int:
    n = 1
    for a in axes:
        n *= len(a.values)
    return n


def deviations(axes: Sequence[Axis], k: int) -> Iterator[tuple[int, dict]]:
    """Every assignment differing from the default in at most k axes.

    Yields (number_of_deviations, assignment), in order 0, 1, ..., k so the
    first counterexample has the fewest deviations.
    """
    base = {a.name: a.default for a in axes}
    for j in range(0, k + 1):
        for combo in itertools.combinations(range(len(axes)), j):
            alts = []
            for i in combo:
                a = axes[i]
                alts.append([v for v in a.values if v != a.default])
            for vals in itertools.product(*alts):
                d = dict(base)
                for i, v in zip(combo, vals):
                    d[axes[i].name] = v
                yield j, d


def deviations_size(axes: Sequence[Axis], k: int) -> int:
    total = 0
    for j in range(0, k + 1):
        for combo in itertools.combinations(range(len(axes)), j):
            n = 1
            for i in combo:
                n *= len(axes[i].values) - 1
            total += n
    return total


def sequences(pool: Sequence, max_len: int, min_len: int = 0) -> Iterator[tuple]:
    """All sequences over pool with min_len <= length <= max_len (with repeats)."""
    for n in range(min_len, max_len + 1):
        yield from itertools.product(pool, repeat=n)


def sequences_size(pool_size: int, max_len: int, min_len: int = 0) -> int:
    return sum(pool_size ** n for n in range(min_len, max_len + 1))


def ordered_selections(pool: Sequence, max_len: int | None = None, min_len: int = 0) -> Iterator[tuple]:
    """All ordered selections of distinct elements (partial permutations)."""
    if max_len is None:
        max_len = len(pool)
    for n in range(min_len, max_len + 1):
        yield from itertools.permutations(pool, n)


def subsets(pool: Sequence) -> Iterator[tuple]:
    for n in range(len(pool) + 1):
        yield from itertools.combinations(pool, n)


def multisets(pool: Sequence, max_size: int) -> Iterator[tuple]:
    for n in range(max_size + 1):
        yield from itertools.combinations_with_replacement(pool, n)


def graphs(n: int) -> Iterator[tuple[tuple[int, int], ...]]:
    """All labelled undirected simple graphs on n nodes as edge tuples."""
    pairs = list(itertools.combinations(range(n), 2))
    for mask in range(1 << len(pairs)):
        yield tuple(p for b, p in enumerate(pairs) if mask >> b & 1)


def graph_from_mask(n: int, mask: int) -> tuple[tuple[int, int], ...]:
    pairs = list(itertools.combinations(range(n), 2))
    return tuple(p for b, p in enumerate(pairs) if mask >> b & 1)


def graphs_size(n: int) -> int:
    return 1 << (n * (n - 1) // 2)


def intervals(points: Sequence, allow_degenerate: bool = True) -> Iterator[tuple]:
    for i, a in enumerate(points):
        for b in points[i if allow_degenerate else i + 1:]:
            yield (a, b)


def chunk(seq: Sequence, n_chunks: int) -> list[list]:
    """Split a sequence into at most n_chunks contiguous chunks of near-equal size."""
    seq = list(seq)
    if not seq:
        return []
    n_chunks = max(1, min(n_chunks, len(seq)))
    q, r = divmod(len(seq), n_chunks)
    out, pos = [], 0
    for i in range(n_chunks):
        size = q + (1 if i < r else 0)
        out.append(seq[pos:pos + size])
        pos += size
    return out


def shard(it: Iterable, index: int, count: int) -> Iterator:
    """Elements whose position in the enumeration is congruent to index mod count."""
    for i, x in enumerate(it):
        if i % count == index:
            yield x
