"""Environment axis, discovery part: which environment variables does the library's own code read, and do they change a result?

A child interpreter replaces ``os.environ`` by a recording proxy *before* the library is imported, imports ``props.<module>`` and
runs its ``env_workload()`` (a JSON-able value computed with the library).  Every key looked up from a frame whose source file lies
inside the ``soundevent`` package is reported.  For each such key the workload is then executed twice more, with the key unset and
with the key set to a perturbing value; a property that promises a *function of its arguments* must give the same value both times.
(No sampling: the set of keys is what the code actually asks for on the explored workload.)
"""
from __future__ import annotations

import json
import os
import subprocess
import sys

PERTURBED = "verif-perturbed-7"

_CHILD = r'''
import json, os, sys
reads = {}
class Proxy(type(os.environ)):
    pass
_real = os.environ
_OS_FILE = os.__file__
def _note(key):
    # the frame that asked: the first one outside this proxy and outside os.py (os.getenv, os.environ.get, ...); only look-ups made by
    # the library's own source count (what third-party packages read while being imported is theirs)
    f = sys._getframe(2)
    while f is not None and (f.f_code.co_filename == _OS_FILE or f.f_code.co_filename == "<string>"):
        f = f.f_back
    if f is not None and ("%ssoundevent%s" % (os.sep, os.sep)) in f.f_code.co_filename:
        reads.setdefault(str(key), set()).add(os.path.basename(f.f_code.co_filename))
class Recording(dict):
    pass
import collections.abc
class Env(collections.abc.MutableMapping):
    def __getitem__(self, k):
        _note(k); return _real[k]
    def __setitem__(self, k, v): _real[k] = v
    def __delitem__(self, k): del _real[k]
    def __iter__(self):
        return iter(_real)
    def __len__(self): return len(_real)
    def __contains__(self, k):
        _note(k); return k in _real
    def get(self, k, default=None):
        _note(k); return _real.get(k, default)
    def copy(self): return dict(_real)
os.environ = Env()
req = json.loads(sys.stdin.read())
import importlib
mod = importlib.import_module("props." + req["module"])
value = mod.env_workload()
sys.stdout.write(json.dumps({"reads": {k: sorted(v) for k, v in reads.items()}, "value": value}))
'''


def _run(module, extra_env, unset=()):
    from mc.child import _base_env
    env, verif = _base_env()
    for k in unset:
        env.pop(k, None)
    env.update(extra_env)
    p = subprocess.run([sys.executable, "-c", _CHILD], input=json.dumps({"module": module}).encode("ascii"), capture_output=True,
                       env=env, cwd=verif)
    if p.returncode != 0:
        raise RuntimeError("environment probe child of %s failed (%d): %s" % (module, p.returncode, p.stderr.decode("utf-8", "replace")[-1500:]))
    return json.loads(p.stdout.decode("utf-8"))


def probe(module):
    """-> (reads: {key: [files]}, [(key, value_when_unset, value_when_perturbed)])"""
    base = _run(module, {})
    diffs = []
    for key in sorted(base["reads"]):
        a = _run(module, {}, unset=[key])["value"]
        b = _run(module, {key: PERTURBED})["value"]
        diffs.append((key, a, b))
    return base["reads"], diffs
