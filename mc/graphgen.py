"""Object-graph generator for soundevent.data collections (C01, C02, C18).

``build(cfg)`` constructs one complete object universe from a configuration
(axis name -> value) and returns the eight collection objects.  The generator
owns the two sources of nondeterminism in the schemas: every identifier is a
uuid5 of its pool name and every timestamp is a fixed literal.

Axes are declared in ``AXES`` with three *pole* values each:

  minimal   every list empty, every optional field absent
  skeleton  every list with one element, every optional field absent
  maximal   every list with two elements, every optional field present,
            distinct objects at every reference site

``cases(kind, k, poles)`` enumerates every configuration within k deviations
of each pole, restricted to the axes that can influence collection ``kind``.
``audit()`` reflects over ``model_fields`` of every reachable class and lists
the declared fields that no configuration populates (uncovered fields are
reported in the evidence, never silently skipped).
"""
from __future__ import annotations

import datetime
import uuid as _uuid

from soundevent import data

from .space import Axis, deviations

NS = _uuid.UUID(int=7)
DT = datetime.datetime(2020, 1, 2, 3, 4, 5, 678)
DT2 = datetime.datetime(2021, 6, 7, 8, 9, 10)
AUDIO_DIR = "/data/audio"

KINDS = [
    "recording_set", "dataset", "annotation_set", "annotation_project",
    "evaluation_set", "prediction_set", "model_run", "evaluation",
]
ALL = set(KINDS)
ANN = {"annotation_set", "annotation_project", "evaluation_set", "evaluation"}
PRED = {"prediction_set", "model_run", "evaluation"}
CLIPPED = ANN | PRED
EVAL = {"evaluation"}
REC = {"recording_set", "dataset"}

GEOMS = {
    "TimeStamp": lambda: data.TimeStamp(coordinates=1.5),
    "TimeInterval": lambda: data.TimeInterval(coordinates=[1.0, 2.5]),
    "Point": lambda: data.Point(coordinates=[1.0, 2000.0]),
    "LineString": lambda: data.LineString(coordinates=[[1.0, 2000.0], [2.0, 3000.0], [2.5, 1000.0]]),
    # first and last vertex share their time: the time-ordering normalisation must leave it alone on every load
    "LineStringTie": lambda: data.LineString(coordinates=[[1.0, 2000.0], [2.0, 3000.0], [1.0, 1000.0]]),
    "Polygon": lambda: data.Polygon(coordinates=[[[1.0, 1000.0], [3.0, 1000.0], [3.0, 4000.0], [1.0, 4000.0]],
                                                 [[1.5, 2000.0], [2.5, 2000.0], [2.0, 3000.0]]]),
    "BoundingBox": lambda: data.BoundingBox(coordinates=[1.0, 1000.0, 2.0, 3000.0]),
    "MultiPoint": lambda: data.MultiPoint(coordinates=[[1.0, 2000.0], [2.0, 100.0]]),
    "MultiLineString": lambda: data.MultiLineString(coordinates=[[[1.0, 2000.0], [2.0, 3000.0]], [[0.5, 10.0], [0.75, 20.0]]]),
    "MultiPolygon": lambda: data.MultiPolygon(coordinates=[[[[1.0, 1000.0], [2.0, 1000.0], [1.5, 2000.0]]],
                                                           [[[3.0, 0.0], [4.0, 0.0], [4.0, 5000000.0]]]]),
}
GEOM_ORDER = list(GEOMS)

# (name, values, minimal, skeleton, maximal, applies_to)
_L = (0, 1, 2)
_B = (0, 1)
_E = (0, 1, 2)  # absent / present / present with a falsy value ("" or 0.0)
AXES_DECL = [
    # ---- users
    ("user.username", _E, 0, 0, 1, ALL), ("user.email", _B, 0, 0, 1, ALL),
    ("user.name", _B, 0, 0, 1, ALL), ("user.institution", _E, 0, 0, 1, ALL),
    # ---- notes
    ("note.created_by", _B, 0, 0, 1, ALL), ("note.is_issue", _B, 0, 0, 1, ALL),
    # ---- recordings
    ("rec.time_expansion", (1.0, 2.0, 0.5), 1.0, 1.0, 2.0, ALL), ("rec.hash", _E, 0, 0, 1, ALL),
    ("rec.path_form", (0, 1, 2), 0, 0, 0, ALL),  # 2: the audio directory's own path occurs once more inside the recording path
    ("rec.date", _B, 0, 0, 1, ALL), ("rec.time", _B, 0, 0, 1, ALL),
    ("rec.latitude", _E, 0, 0, 1, ALL), ("rec.longitude", _B, 0, 0, 1, ALL),
    ("rec.license", _B, 0, 0, 1, ALL), ("rec.rights", _E, 0, 0, 1, ALL),
    ("rec.owners", _L, 0, 0, 2, ALL), ("rec.tags", _L, 0, 0, 2, ALL),
    ("rec.features", _L, 0, 0, 2, ALL), ("rec.notes", _L, 0, 0, 2, ALL),
    # ---- clips
    ("clip.features", _L, 0, 0, 2, CLIPPED), ("clip.second_recording", _B, 0, 0, 1, CLIPPED),
    # ---- sound events
    ("se.geometry", ("rot", None) + tuple(GEOM_ORDER), "rot", "rot", "rot", CLIPPED),
    ("se.foreign_recording", _B, 0, 0, 1, CLIPPED), ("se.features", _L, 0, 0, 2, CLIPPED),
    # ---- sequences
    ("seq.sound_events", _L, 0, 1, 2, CLIPPED), ("seq.own_events", _B, 0, 0, 1, CLIPPED),
    ("seq.features", _L, 0, 0, 2, CLIPPED), ("seq.parent", (0, 1, 2, 7), 0, 0, 2, CLIPPED),  # 7: a chain of seven ancestors
    ("seq.shared_parent", _B, 0, 0, 1, CLIPPED),
    # ---- sound event annotations
    ("sea.notes", _L, 0, 0, 2, ANN), ("sea.tags", _L, 0, 0, 2, ANN), ("sea.created_by", _B, 0, 0, 1, ANN),
    # ---- sequence annotations
    ("sqa.notes", _L, 0, 0, 2, ANN), ("sqa.tags", _L, 0, 0, 2, ANN), ("sqa.created_by", _B, 0, 0, 1, ANN),
    # ---- clip annotations
    ("ca.sound_events", _L, 0, 1, 2, ANN), ("ca.sequences", _L, 0, 1, 2, ANN),
    ("ca.tags", _L, 0, 0, 2, ANN), ("ca.notes", _L, 0, 0, 2, ANN),
    # ---- predictions
    ("ptag.score", (1.0, 0.25, 0.0), 1.0, 1.0, 0.25, PRED), ("ptag.repeat", _B, 0, 0, 0, PRED),
    ("sep.score", (1.0, 0.5, 0.0), 1.0, 1.0, 0.5, PRED), ("sep.tags", _L, 0, 0, 2, PRED),
    ("sqp.score", (1.0, 0.5), 1.0, 1.0, 0.5, PRED), ("sqp.tags", _L, 0, 0, 2, PRED),
    ("cp.sound_events", _L, 0, 1, 2, PRED), ("cp.sequences", _L, 0, 1, 2, PRED),
    ("cp.tags", _L, 0, 0, 2, PRED), ("cp.features", _L, 0, 0, 2, PRED),
    # ---- evaluation internals
    ("match.affinity", (0.0, 0.5, 1.0), 0.0, 0.0, 0.5, EVAL), ("match.score", _E, 0, 0, 1, EVAL),
    ("match.metrics", _L, 0, 0, 2, EVAL), ("match.paired", _B, 1, 1, 1, EVAL),
    ("ce.metrics", _L, 0, 0, 2, EVAL), ("ce.score", _E, 0, 0, 1, EVAL),
    # ---- tasks
    ("task.badges", _L, 0, 0, 2, {"annotation_project"}), ("badge.owner", _B, 0, 0, 1, {"annotation_project"}),
    ("project.extra_task", _B, 0, 0, 1, {"annotation_project"}),
    # ---- collections
    ("col.items", _L, 0, 1, 2, ALL),
    ("col.description", _E, 0, 0, 1, {"dataset", "annotation_project", "evaluation_set", "model_run"}),
    ("col.instructions", _B, 0, 0, 1, {"annotation_project"}),
    ("col.version", _B, 0, 0, 1, {"model_run"}),
    ("col.tags", _L, 0, 0, 2, {"annotation_project", "evaluation_set"}),
    ("col.metrics", _L, 0, 0, 2, EVAL), ("col.score", _E, 0, 0, 1, EVAL),
    # ---- sharing (0 = the same object at every site, 1 = a distinct object per site)
    ("share.tags_distinct", _B, 0, 0, 1, ALL), ("share.users_distinct", _B, 0, 0, 1, ALL),
    ("share.notes_distinct", _B, 1, 1, 1, ALL),
    ("share.sound_event_distinct", _B, 0, 0, 1, EVAL), ("share.sequence_distinct", _B, 0, 0, 1, EVAL),
    ("share.second_item_same_clip", _B, 0, 0, 0, CLIPPED),
    ("eval.shared_annotations", _B, 0, 0, 0, EVAL), ("eval.shared_predictions", _B, 0, 0, 0, EVAL),
    ("sea.same_sound_event", _B, 0, 0, 0, ANN), ("seq.parent_also_annotated", _B, 0, 0, 0, ANN),
    # 1 / 2: the second tag of every site has the first tag's key in another letter case / with a blank for the underscore
    # 3: the second tag has the first tag's key and the first tag's value in the other Unicode normalisation form (NFC / NFD)
    # 4: the two tags' 'key:value' spellings coincide (key 'k', value 'x:v' / key 'k:x', value 'v')
    ("tags.key_case", (0, 1, 2, 3, 4), 0, 0, 0, ALL),
    # 1: free-text fields carry leading / trailing white space (a note ending in a newline, a value with a trailing blank), and the
    # second tag of every site is the first tag's value plus a trailing blank
    ("text.padded", _B, 0, 0, 0, ALL),
    ("ids.hash_collide", _B, 0, 0, 0, ALL),
    ("feat.zero_value", (0, 1, 2), 0, 0, 0, ALL),
    ("time.tz_aware", _B, 0, 0, 0, ALL),
    # ---- configuration
    ("audio_dir", _B, 0, 0, 1, ALL),
]
AXIS_NAMES = [a[0] for a in AXES_DECL]
POLES = {"minimal": 2, "skeleton": 3, "maximal": 4}


def pole(name):
    i = POLES[name]
    return {a[0]: a[i] for a in AXES_DECL}


def axes_for(kind, pole_name):
    i = POLES[pole_name]
    out = []
    for a in AXES_DECL:
        if kind in a[5]:
            vals = (a[i],) + tuple(v for v in a[1] if v != a[i])
            out.append(Axis(a[0], vals, a[i]))
    return out


def cases(kind, k, poles=("minimal", "skeleton", "maximal")):
    """Every configuration within k deviations of each pole (dev count, pole, cfg-delta)."""
    for p in poles:
        axes = axes_for(kind, p)
        base = pole(p)
        for j, d in deviations(axes, k):
            delta = {n: v for n, v in d.items() if v != base[n]}
            yield j, p, delta


def config(pole_name, delta):
    cfg = pole(pole_name)
    cfg.update(delta)
    return cfg


def U(name):
    return _uuid.uuid5(NS, name)


def term(label):
    # the simple-label term of a key, built here (not through data.term_from_key) so that the generator's terms are what the
    # AOEF format documents and never the product of library-side caches or normalisations
    return data.Term(label=label, name="soundevent:%s" % label, definition="Unknown")


class Universe:
    """All objects of one configuration; sub-objects are memoised by pool name so that
    'the same object from two parents' is literally the same Python object."""

    def __init__(self, cfg):
        self.c = cfg
        self.memo = {}
        self.dt = DT.replace(tzinfo=datetime.timezone(datetime.timedelta(hours=2))) if cfg["time.tz_aware"] else DT
        self.dt2 = DT2.replace(tzinfo=datetime.timezone.utc) if cfg["time.tz_aware"] else DT2

    def get(self, key, make):
        if key not in self.memo:
            self.memo[key] = make()
        return self.memo[key]

    # -- leaves
    def user(self, site, i=0):
        c = self.c
        name = "u:%s:%d" % (site if c["share.users_distinct"] else "all", i)

        def make():
            return data.User(
                uuid=U(name),
                username=[None, "user_" + name, ""][c["user.username"]],
                email=("a%d@example.org" % i) if c["user.email"] else None,
                name=(("Name " + name) if not c["text.padded"] else (" Name " + name + " ")) if c["user.name"] else None,
                institution=[None, "Inst", ""][c["user.institution"]],
            )
        return self.get(name, make)

    def uid(self, kind, i):
        """uuid of the i-th recording / clip; with ids.hash_collide the second one differs from the first by 2^61 - 1, so that the two
        DIFFERENT identifiers have the same Python hash (identifiers are compared, never their hashes)."""
        if self.c["ids.hash_collide"] and i == 1:
            import uuid as _uuid
            return _uuid.UUID(int=(U("%s:0" % kind).int + (2 ** 61 - 1)) % (1 << 128))
        return U("%s:%d" % (kind, i))

    def tag(self, site, i=0):
        name = "%s%d" % (site if self.c["share.tags_distinct"] else "all", i)
        site_name = site if self.c["share.tags_distinct"] else "all"
        # within one site: same key, different values; across sites: different keys, same values
        key = "key_" + site_name
        value = "val %d" % i
        if self.c["text.padded"] and i % 2 == 1:
            value = "val %d " % (i - 1)
        if self.c["tags.key_case"] == 4:
            key, value = ("key_" + site_name, "x:val %d" % (i // 2)) if i % 2 == 0 else ("key_" + site_name + ":x", "val %d" % (i // 2))
        elif self.c["tags.key_case"] == 3:
            value = ["caf\u00e9 %d", "cafe\u0301 %d"][i % 2] % (i // 2)
        elif self.c["tags.key_case"] and i % 2 == 1:
            key = ("Key_" if self.c["tags.key_case"] == 1 else "key ") + site_name
        if self.c.get("_term_alias") and i % 2 == 1:
            # C02 only: a second term with the first term's *name* but its own label (a tag is stored under its term's label)
            alias = data.Term(label="Label " + site_name, name="soundevent:key_" + site_name, definition="alias")
            return self.get("tag:" + name, lambda: data.Tag(term=alias, value=value))
        return self.get("tag:" + name, lambda: data.Tag(term=term(key), value=value))

    def tags(self, site, n):
        return [self.tag(site, i) for i in range(n)]

    def ptags(self, site, n):
        s = self.c["ptag.score"]
        out = [data.PredictedTag(tag=self.tag(site, i), score=s if i == 0 else 0.75) for i in range(n)]
        if self.c["ptag.repeat"] and n:
            # the first tag once more, last in the list, with another score (a list of predicted tags is a list, not a mapping)
            out.append(data.PredictedTag(tag=self.tag(site, 0), score=0.875))
        return out

    def features(self, site, n):
        if self.c["feat.zero_value"] == 1:
            return [data.Feature(term=term("feat_%d" % i), value=0.0) for i in range(n)]
        if self.c["feat.zero_value"] == 2:  # extreme finite magnitudes: subnormal, huge negative
            return [data.Feature(term=term("feat_%d" % i), value=[5e-324, -1.7976931348623157e308][i]) for i in range(n)]
        return [data.Feature(term=term("feat_%d" % i), value=[1.5, 0.1][i] + len(site)) for i in range(n)]

    def note(self, site, i=0):
        c = self.c
        name = "n:%s:%d" % (site if c["share.notes_distinct"] else "all", i)

        def make():
            return data.Note(
                uuid=U(name), message=("msg " + name) if not c["text.padded"] else ("  msg " + name + "\n"),
                created_by=self.user("note", i) if c["note.created_by"] else None,
                is_issue=bool(c["note.is_issue"]), created_on=self.dt2,
            )
        return self.get(name, make)

    def notes(self, site, n):
        return [self.note(site, i) for i in range(n)]

    # -- recordings / clips
    def recording(self, i=0):
        c = self.c

        def make():
            return data.Recording(
                uuid=self.uid("rec", i),
                # rec.path_form 1: an up-level reference inside the audio directory (the path object must come back as given)
                path=(["%s/sub %d/réc_%d.wav", "%s/tmp/../sub %d/réc_%d.wav", "%s/night" + AUDIO_DIR + "/sub %d/réc_%d.wav"][c["rec.path_form"]]
                      % (AUDIO_DIR, i, i)),
                duration=10.0 + i, channels=1 + i, samplerate=8000 * (i + 1),
                time_expansion=c["rec.time_expansion"],
                hash=[None, "hash%d" % i, ""][c["rec.hash"]],
                date=datetime.date(2020, 1, 1 + i) if c["rec.date"] else None,
                time=datetime.time(1, 2, 3 + i) if c["rec.time"] else None,
                latitude=[None, 1.5 + i, 0.0][c["rec.latitude"]],
                longitude=(-2.25 - i) if c["rec.longitude"] else None,
                license=(("CC-BY %d" % i) if not c["text.padded"] else ("CC-BY %d \n" % i)) if c["rec.license"] else None,
                rights=[None, "rights %d" % i, ""][c["rec.rights"]],
                owners=[self.user("owner", j) for j in range(c["rec.owners"])],
                # every second recording lists the shared tags in the opposite order (an order other than that of first appearance)
                tags=self.tags("rec", c["rec.tags"])[::-1] if i % 2 else self.tags("rec", c["rec.tags"]),
                features=self.features("rec", c["rec.features"]),
                notes=self.notes("rec%d" % i, c["rec.notes"]),
            )
        return self.get("rec:%d" % i, make)

    def clip(self, i=0):
        c = self.c

        def make():
            r = self.recording(i if c["clip.second_recording"] else 0)
            return data.Clip(uuid=self.uid("clip", i), recording=r, start_time=0.5 * i, end_time=5.0 + i,
                             features=self.features("clip", c["clip.features"]))
        return self.get("clip:%d" % i, make)

    # -- sound events / sequences
    def sound_event(self, name, clip_i, n):
        c = self.c

        def make():
            g = c["se.geometry"]
            if g == "rot":
                g = GEOM_ORDER[n % len(GEOM_ORDER)]
            geom = GEOMS[g]() if g is not None else None
            clip = self.clip(clip_i)
            rec = self.recording(2) if c["se.foreign_recording"] else clip.recording
            return data.SoundEvent(uuid=U("se:" + name), geometry=geom, recording=rec,
                                   features=self.features("se", c["se.features"]))
        return self.get("se:" + name, make)

    def sequence(self, name, clip_i, events, depth=None):
        c = self.c
        if depth is None:
            depth = c["seq.parent"]

        def make():
            parent = None
            if depth > 0:
                pname = ("shared:%d" % depth) if c["seq.shared_parent"] else "%s^" % name
                parent = self.sequence(pname, clip_i, events[:1], depth - 1)
            ses = list(events[:c["seq.sound_events"]])
            if c["seq.own_events"]:
                ses = [self.sound_event("%s:own%d" % (name, j), clip_i, j + 3) for j in range(c["seq.sound_events"])]
            return data.Sequence(uuid=U("seq:" + name), sound_events=ses, parent=parent,
                                 features=self.features("seq", c["seq.features"]))
        return self.get("seq:" + name, make)

    # -- annotations
    def clip_annotation(self, i=0):
        c = self.c

        def make():
            ci = 0 if (c["share.second_item_same_clip"] or c["eval.shared_annotations"] or c["eval.shared_predictions"]) else i
            seas = []
            for j in range(c["ca.sound_events"]):
                se = self.sound_event("c%d:%d" % (i, 0 if c["sea.same_sound_event"] else j), ci, i * 2 + j)
                seas.append(data.SoundEventAnnotation(
                    uuid=U("sea:%d:%d" % (i, j)), sound_event=se,
                    notes=self.notes("sea", c["sea.notes"]), tags=self.tags("sea", c["sea.tags"]),
                    created_by=self.user("sea", j) if c["sea.created_by"] else None, created_on=self.dt))
            events = [a.sound_event for a in seas] or [self.sound_event("c%d:seqonly" % i, ci, 7)]
            sqas = []
            for j in range(c["ca.sequences"]):
                seq = self.sequence("c%d:%d" % (i, j), ci, events)
                if j == 1 and c["seq.parent_also_annotated"] and sqas[0].sequence.parent is not None:
                    seq = sqas[0].sequence.parent  # the child is annotated first, then its own parent
                sqas.append(data.SequenceAnnotation(
                    uuid=U("sqa:%d:%d" % (i, j)), sequence=seq,
                    notes=self.notes("sqa", c["sqa.notes"]), tags=self.tags("sqa", c["sqa.tags"]),
                    created_by=self.user("sqa", j) if c["sqa.created_by"] else None, created_on=self.dt2))
            return data.ClipAnnotation(
                uuid=U("ca:%d" % i), clip=self.clip(ci), sound_events=seas, sequences=sqas,
                tags=self.tags("ca", c["ca.tags"]), notes=self.notes("ca", c["ca.notes"]), created_on=self.dt)
        return self.get("ca:%d" % i, make)

    def clip_prediction(self, i=0, for_eval=False):
        c = self.c

        def make():
            ci = 0 if (c["share.second_item_same_clip"] or c["eval.shared_annotations"] or c["eval.shared_predictions"]) else i
            seps = []
            for j in range(c["cp.sound_events"]):
                if for_eval and not c["share.sound_event_distinct"]:
                    se = self.sound_event("c%d:%d" % (i, j), ci, i * 2 + j)  # same object as the annotation's
                else:
                    se = self.sound_event("p%d:%d" % (i, j), ci, i * 2 + j + 1)
                seps.append(data.SoundEventPrediction(
                    uuid=U("sep:%d:%d" % (i, j)), sound_event=se, score=c["sep.score"] if j == 0 else 0.125,
                    tags=self.ptags("sep", c["sep.tags"])))
            events = [p.sound_event for p in seps] or [self.sound_event("p%d:seqonly" % i, ci, 8)]
            sqps = []
            for j in range(c["cp.sequences"]):
                if for_eval and not c["share.sequence_distinct"]:
                    ann_events = [a.sound_event for a in self.clip_annotation(i).sound_events] or \
                        [self.sound_event("c%d:seqonly" % i, ci, 7)]
                    seq = self.sequence("c%d:%d" % (i, j), ci, ann_events)
                else:
                    seq = self.sequence("p%d:%d" % (i, j), ci, events)
                sqps.append(data.SequencePrediction(
                    uuid=U("sqp:%d:%d" % (i, j)), sequence=seq, score=c["sqp.score"],
                    tags=self.ptags("sqp", c["sqp.tags"])))
            return data.ClipPrediction(
                uuid=U("cp:%d" % i), clip=self.clip(ci), sound_events=seps, sequences=sqps,
                tags=self.ptags("cp", c["cp.tags"]), features=self.features("cp", c["cp.features"]))
        return self.get("cp:%d:%s" % (i, for_eval), make)

    def clip_evaluation(self, i=0):
        c = self.c

        def make():
            # one reference scored against two models (or one model run against two references): the second clip evaluation
            # shares the first one's ClipAnnotation / ClipPrediction object
            ca = self.clip_annotation(0 if (i and c["eval.shared_annotations"]) else i)
            cp = self.clip_prediction(0 if (i and c["eval.shared_predictions"]) else i, for_eval=True)
            if ca.clip.uuid != cp.clip.uuid:
                # keep the pair on one clip (the ClipEvaluation validator requires it): fall back to the unshared pair
                ca, cp = self.clip_annotation(i), self.clip_prediction(i, for_eval=True)
            # with a shared clip for the second item the prediction clip already equals the annotation clip
            matches = []
            A, P = list(ca.sound_events), list(cp.sound_events)
            k = 0

            def mk(source, target):
                nonlocal k
                k += 1
                paired = source is not None and target is not None
                return data.Match(
                    uuid=U("match:%d:%d" % (i, k)), source=source, target=target,
                    affinity=c["match.affinity"] if paired else 0.0,
                    score=[None, 0.25, 0.0][c["match.score"]],
                    metrics=self.features("match", c["match.metrics"]))
            if c["match.paired"]:
                n = min(len(A), len(P))
                for j in range(n):
                    matches.append(mk(P[j], A[j]))
                A, P = A[n:], P[n:]
            for p in P:
                matches.append(mk(p, None))
            for a in A:
                matches.append(mk(None, a))
            return data.ClipEvaluation(
                uuid=U("ce:%d" % i), annotations=ca, predictions=cp, matches=matches,
                metrics=self.features("ce", c["ce.metrics"]), score=[None, 0.5, 0.0][c["ce.score"]])
        return self.get("ce:%d" % i, make)

    def task(self, i, clip):
        c = self.c
        states = [data.AnnotationState.completed, data.AnnotationState.rejected]
        badges = [data.StatusBadge(state=states[j], owner=self.user("badge", j) if c["badge.owner"] else None,
                                   created_on=self.dt2) for j in range(c["task.badges"])]
        return data.AnnotationTask(uuid=U("task:%d" % i), clip=clip, status_badges=badges, created_on=self.dt)

    # -- collections
    def collection(self, kind):
        c = self.c
        n = c["col.items"]
        cid = U("col:" + kind)
        desc = [None, "desc é", ""][c.get("col.description") or 0]
        if kind == "recording_set":
            return data.RecordingSet(uuid=cid, created_on=self.dt, recordings=[self.recording(i) for i in range(n)])
        if kind == "dataset":
            return data.Dataset(uuid=cid, created_on=self.dt, name="ds", description=desc,
                                recordings=[self.recording(i) for i in range(n)])
        if kind == "annotation_set":
            return data.AnnotationSet(uuid=cid, created_on=self.dt, clip_annotations=[self.clip_annotation(i) for i in range(n)])
        if kind == "annotation_project":
            cas = [self.clip_annotation(i) for i in range(n)]
            seen, tasks = set(), []
            for ca in cas:
                if ca.clip.uuid not in seen:
                    seen.add(ca.clip.uuid)
                    tasks.append(self.task(len(tasks), ca.clip))
            if c["project.extra_task"]:
                tasks.append(self.task(9, self.clip(5)))
            return data.AnnotationProject(
                uuid=cid, created_on=self.dt, name="proj", description=desc,
                instructions="do this" if c["col.instructions"] else None,
                clip_annotations=cas, tasks=tasks, annotation_tags=self.tags("project", c["col.tags"]))
        if kind == "evaluation_set":
            return data.EvaluationSet(
                uuid=cid, created_on=self.dt, name="evset", description=desc,
                clip_annotations=[self.clip_annotation(i) for i in range(n)],
                evaluation_tags=self.tags("evalset", c["col.tags"]))
        if kind == "prediction_set":
            return data.PredictionSet(uuid=cid, created_on=self.dt, clip_predictions=[self.clip_prediction(i) for i in range(n)])
        if kind == "model_run":
            return data.ModelRun(uuid=cid, created_on=self.dt, name="run", version="v1.2" if c["col.version"] else None,
                                 description=desc, clip_predictions=[self.clip_prediction(i) for i in range(n)])
        if kind == "evaluation":
            return data.Evaluation(
                uuid=cid, created_on=self.dt, evaluation_task="task_x",
                clip_evaluations=[self.clip_evaluation(i) for i in range(n)],
                metrics=self.features("col", c["col.metrics"]), score=[None, 0.75, 0.0][c["col.score"]])
        raise ValueError(kind)


def build(kind, cfg):
    return Universe(cfg).collection(kind)


# ---------------------------------------------------------------- reflection helpers
def walk(obj, path="", seen=None):
    """Yield (path, parent_class_name, field_name, value) for every declared field of every nested model."""
    if hasattr(obj, "model_fields") or hasattr(type(obj), "model_fields"):
        for f in type(obj).model_fields:
            v = getattr(obj, f)
            yield path + "." + f, type(obj).__name__, f, v
            yield from walk(v, path + "." + f)
    elif isinstance(obj, (list, tuple)):
        for i, x in enumerate(obj):
            yield from walk(x, "%s[%d]" % (path, i))


def diff(a, b, path="", limit=6, owner="<root>"):
    """Independent field walker: list of (path, 'OwnerClass.field', description) for differing leaves."""
    out = []
    if type(a) is not type(b):
        return [(path, owner, "type %s vs %s" % (type(a).__name__, type(b).__name__))]
    if hasattr(type(a), "model_fields"):
        for f in type(a).model_fields:
            out += diff(getattr(a, f), getattr(b, f), path + "." + f, limit, "%s.%s" % (type(a).__name__, f))
            if len(out) >= limit:
                break
        return out
    if isinstance(a, (list, tuple)):
        if len(a) != len(b):
            return [(path, owner, "len %d vs %d" % (len(a), len(b)))]
        for i, (x, y) in enumerate(zip(a, b)):
            out += diff(x, y, "%s[%d]" % (path, i), limit, owner)
            if len(out) >= limit:
                break
        return out
    if a != b:
        return [(path, owner, "%r vs %r" % (a, b))]
    return []


def declared_fields():
    """(class name, field) for every data class reachable from the eight collection types."""
    import typing
    roots = [data.RecordingSet, data.Dataset, data.AnnotationSet, data.AnnotationProject,
             data.EvaluationSet, data.PredictionSet, data.ModelRun, data.Evaluation]
    seen, out = set(), []

    def sub(a):
        r = []
        if hasattr(a, "model_fields"):
            r.append(a)
        for x in typing.get_args(a):
            r += sub(x)
        return r

    def visit(cls):
        if cls in seen:
            return
        seen.add(cls)
        for n, f in cls.model_fields.items():
            out.append((cls.__name__, n))
            for t in sub(f.annotation):
                visit(t)
    for r in roots:
        visit(r)
    return out


def _default_of(cls, fname):
    f = cls.model_fields[fname]
    if f.default_factory is not None:
        try:
            return f.default_factory()
        except TypeError:
            return None
    return f.default


def audit():
    """Which declared fields are populated with a non-default value by the maximal pole (per class.field)?"""
    nondefault = set()
    for kind in KINDS:
        obj = build(kind, pole("maximal"))
        for _, cname, fname, v in walk(obj):
            cls = getattr(data, cname, None)
            d = _default_of(cls, fname) if cls is not None and fname in cls.model_fields else None
            required = cls is not None and cls.model_fields[fname].is_required()
            if required or fname in ("uuid", "created_on") or v != d:
                nondefault.add((cname, fname))
    allf = declared_fields()
    skip_cls = {"Term"} | set(GEOMS)  # covered by the term pool (simple-label terms) and the geometry pool
    uncovered = [("%s.%s" % cf) for cf in allf if cf not in nondefault and cf[0] not in skip_cls]
    return {"declared": len(allf), "populated": len([cf for cf in allf if cf in nondefault]), "uncovered": sorted(uncovered)}
