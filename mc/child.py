"""Environment axis: execute cases of a property module in a child interpreter whose environment the parent specifies.

A property's verdict must not depend on how the calling process was started.  The deviations explored here are the ones a
Python process can be started with and that change what the *library's own source* means or sees:

  optimized   ``python -O`` (``assert`` statements are compiled away, ``__debug__`` is False)
  ...         anything else a caller passes as interpreter flags / environment variables

Protocol: the parent sends JSON {"module": "c03", "env": <name>, "cases": [...]} on stdin; the child imports ``props.<module>``
and calls its ``child_case(case) -> list[Out]`` for every case; the child answers with the serialised Outs (case descriptors
included, each tagged with ``env``), which the parent turns back into Out objects and records like its own.
"""
from __future__ import annotations

import importlib
import json
import os
import subprocess
import sys

from mc.runner import Out, jdump

ENVIRONMENTS = {
    # name: (interpreter flags, extra environment variables)
    "python -O": (["-O"], {}),
}


def _base_env():
    import soundevent
    verif = os.path.dirname(os.path.dirname(os.path.abspath(__file__)))
    src = os.path.dirname(os.path.dirname(os.path.abspath(soundevent.__file__)))
    env = {k: v for k, v in os.environ.items() if k in ("PATH", "HOME", "LANG", "LC_ALL", "TMPDIR", "VERIF_REPO")}
    env.setdefault("PATH", "/usr/bin:/bin")
    env.update(PYTHONPATH=verif + os.pathsep + src, PYTHONHASHSEED="0", PYTHONDONTWRITEBYTECODE="1", PYTHONWARNINGS="ignore",
               OMP_NUM_THREADS="1", OPENBLAS_NUM_THREADS="1", MKL_NUM_THREADS="1")
    return env, verif


def run_in_child(module, envname, cases):
    """Run ``cases`` of props.<module> in one child interpreter of the named environment; returns the list of Out."""
    flags, extra = ENVIRONMENTS[envname]
    env, verif = _base_env()
    env.update(extra)
    from mc.runner import scratch_dir
    sdir = os.path.join(scratch_dir(), "child")
    os.makedirs(sdir, exist_ok=True)
    payload = json.dumps({"module": module, "env": envname, "cases": cases, "scratch": sdir}).encode("ascii")
    p = subprocess.run([sys.executable] + list(flags) + ["-c", "from mc import child; child.worker()"], input=payload,
                       capture_output=True, env=env, cwd=verif)
    if p.returncode != 0:
        raise RuntimeError("child interpreter (%s) of %s failed (%d): %s"
                           % (envname, module, p.returncode, p.stderr.decode("utf-8", "replace")[-1500:]))
    doc = json.loads(p.stdout.decode("ascii"))
    if doc.get("optimize") != (1 if "-O" in flags else 0):
        raise RuntimeError("child interpreter did not run with the requested flags: %r" % (doc.get("optimize"),))
    outs = []
    for r in doc["results"]:
        o = Out(r["case"], key=r["key"])
        o.nontrivial, o.klass, o.transitions, o.validated = r["nontrivial"], r["klass"], r["transitions"], r["validated"]
        o.checks = {k: list(v) for k, v in r["checks"].items()}
        o.viol = r["viol"]
        outs.append(o)
    return outs


def worker():
    req = json.loads(sys.stdin.buffer.read().decode("ascii"))
    from mc import runner
    runner._SCRATCH_ROOT = req["scratch"]  # the child's files live under the parent's scratch directory (removed by the parent)
    mod = importlib.import_module("props." + req["module"])
    res = []
    for case in req["cases"]:
        for o in mod.child_case(case):
            c = dict(o.case) if isinstance(o.case, dict) else {"case": o.case}
            c["env"] = req["env"]
            key = o.key if o.key is not None else o.case
            res.append({"case": c, "key": [req["env"], key], "nontrivial": o.nontrivial, "klass": "%s|%s" % (req["env"], o.klass),
                        "transitions": o.transitions, "validated": o.validated, "checks": o.checks, "viol": o.viol})
    sys.stdout.buffer.write(jdump({"optimize": sys.flags.optimize, "results": res}).encode("ascii"))
    sys.stdout.buffer.flush()
