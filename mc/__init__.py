"""Bounded exhaustive exploration machinery for soundevent (see DESIGN.md)."""
