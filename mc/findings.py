"""Known-findings protocol (DESIGN.md 2.6).  The file is read, never written, at run time."""
from __future__ import annotations

import json
import os

PATH = os.path.join(os.path.dirname(os.path.dirname(os.path.abspath(__file__))), "known_findings.json")


def load(path=PATH):
    if not os.path.exists(path):
        return []
    with open(path) as f:
        doc = json.load(f)
    out = []
    for i, e in enumerate(doc.get("findings", [])):
        e = dict(e)
        e.setdefault("id", "%s/%s/%d" % (e.get("property"), e.get("oracle"), i))
        out.append(e)
    return out


def _cond(expected, actual):
    if isinstance(expected, dict):
        if "max" in expected:
            try:
                if not (float(actual) <= float(expected["max"])):
                    return False
            except (TypeError, ValueError):
                return False
        if "in" in expected:
            if actual not in expected["in"]:
                return False
        return True
    if isinstance(expected, list):
        return actual in expected
    return expected == actual


def match(entries, prop, oracle, cls):
    """Return the open entry matching this violation group, or None.

    'fixed' entries match nothing: if the behaviour returns it is a violation again.
    """
    for e in entries:
        if e.get("status") != "open":
            continue
        if e.get("property") != prop or e.get("oracle") != oracle:
            continue
        m = e.get("match", {})
        if all(k in cls and _cond(v, cls[k]) for k, v in m.items()):
            return e
    return None
