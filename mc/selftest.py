"""./check --selftest : setup command. Imports, schema files, enumerator self-tests. Nothing is fetched or built."""
from __future__ import annotations

import math
import os
import sys

from . import space


def main():
    ok = True

    def req(cond, msg):
        nonlocal ok
        print(("ok   " if cond else "FAIL ") + msg)
        ok = ok and bool(cond)

    import soundevent  # noqa
    repo = os.environ.get("VERIF_REPO", "/repo")
    req(os.path.abspath(soundevent.__file__).startswith(os.path.abspath(repo) + "/src/"), "soundevent imported from %s/src (%s)" % (repo, soundevent.__file__))
    for mod in ("numpy", "shapely", "xarray", "scipy", "sklearn", "rasterio", "crowsetta", "soundfile", "pydantic"):
        try:
            __import__(mod)
            req(True, "import " + mod)
        except Exception as e:  # noqa
            req(False, "import %s: %r" % (mod, e))
    # enumerator counts against closed forms
    axes = [space.Axis("a", (0, 1, 2)), space.Axis("b", (0, 1)), space.Axis("c", (0, 1, 2, 3)), space.Axis("d", (0, 1))]
    req(len(list(space.product(axes))) == space.product_size(axes) == 48, "product size")
    for k in range(5):
        got = list(space.deviations(axes, k))
        exp = space.deviations_size(axes, k)
        keys = {tuple(sorted(d.items())) for _, d in got}
        req(len(got) == exp == len(keys), "deviations<=%d count %d distinct" % (k, exp))
    req(len(list(space.deviations(axes, 4))) == 48, "deviations<=n equals product")
    for n in range(6):
        g = list(space.graphs(n))
        req(len(g) == len(set(g)) == space.graphs_size(n) == 2 ** (n * (n - 1) // 2), "graphs(%d)=%d" % (n, len(g)))
    req(len(list(space.sequences("abc", 3))) == space.sequences_size(3, 3) == 40, "sequences")
    req(len(list(space.ordered_selections("abcde"))) == sum(math.perm(5, k) for k in range(6)) == 326, "ordered selections of 5 = 326")
    req(len(list(space.multisets("abc", 3))) == 1 + 3 + 6 + 10, "multisets")
    req(len(list(space.subsets("abcd"))) == 16, "subsets")
    items = list(range(103))
    ch = space.chunk(items, 16)
    req(sum(ch, []) == items and len(ch) == 16, "chunk is a partition")
    sh = [list(space.shard(items, i, 7)) for i in range(7)]
    req(sorted(sum(sh, [])) == items, "shards form a partition")
    for f in ("/root/.vp/EVIDENCE.schema.json", "/root/.vp/MANIFEST.schema.json"):
        print(("ok   " if os.path.exists(f) else "note ") + "schema file %s %s" % (f, "present" if os.path.exists(f) else "absent (evidence not self-validated)"))
    print("selftest " + ("passed" if ok else "FAILED"))
    return 0 if ok else 1


if __name__ == "__main__":
    sys.exit(main())
