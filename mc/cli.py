from __future__ import annotations

import argparse
import importlib
import os
import sys


def load_module(pid):
    return importlib.import_module("props.%s" % pid.lower())


def main(argv=None):
    ap = argparse.ArgumentParser(prog="check")
    ap.add_argument("property", nargs="?")
    ap.add_argument("--tier", default=os.environ.get("VERIF_TIER") or "quick", choices=["quick", "thorough"])
    ap.add_argument("--replay")
    ap.add_argument("--selftest", action="store_true")
    ap.add_argument("--jobs", type=int, default=0)
    args = ap.parse_args(argv)
    try:
        seed = int(os.environ.get("VERIF_SEED", "0") or 0)
    except ValueError:
        seed = 0
    if args.selftest:
        from . import selftest
        return selftest.main()
    if not args.property:
        ap.error("property id required")
    import warnings
    warnings.simplefilter("ignore")
    module = load_module(args.property)
    from . import runner
    if args.replay:
        return runner.replay(module, args.replay)
    return runner.run(module, args.tier, seed, jobs=args.jobs or None)


if __name__ == "__main__":
    sys.exit(main())
