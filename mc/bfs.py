"""Explicit-state breadth-first search over operation sequences of the real implementation.

A *state* is whatever live object the property module keeps (for the functional
APIs explored here every operation returns a new object, so live states can be
kept on the frontier; modules whose objects are mutated rebuild from the
history instead).  ``canon(state)`` must return a hashable canonical form in
which two states are equal only if they have the same futures.
"""
from __future__ import annotations

from collections import deque


class Search:
    def __init__(self):
        self.states = 0
        self.transitions = 0
        self.max_depth = 0
        self.merged = 0


def bfs(init, ops, apply_op, canon, max_depth, on_transition=None, on_state=None):
    """Breadth-first exploration.

    init        : (descriptor, state)
    ops(state)  : iterable of JSON-serialisable operation descriptors enabled in state
    apply_op(state, op) -> next state, or None when the transition ends the path
                  (rejected call, terminal state); it is still reported to on_transition
    canon(state): hashable canonical form
    on_transition(history, state, op, nxt): invariant / lock-step model comparison hook
    on_state(history, state, depth): invariant on every distinct state

    Every reachable state within max_depth is expanded; returns a Search with counts.
    """
    s = Search()
    d0, st0 = init
    seen = {canon(st0)}
    frontier = deque([([d0], st0, 0)])
    s.states = 1
    if on_state:
        on_state([d0], st0, 0)
    while frontier:
        hist, st, depth = frontier.popleft()
        s.max_depth = max(s.max_depth, depth)
        if depth >= max_depth:
            continue
        for op in ops(st):
            nxt = apply_op(st, op)
            s.transitions += 1
            h2 = hist + [op]
            if on_transition:
                on_transition(h2, st, op, nxt)
            if nxt is None:
                continue
            k = canon(nxt)
            if k in seen:
                s.merged += 1
                continue
            seen.add(k)
            s.states += 1
            if on_state:
                on_state(h2, nxt, depth + 1)
            frontier.append((h2, nxt, depth + 1))
    return s
