#!/bin/bash
# usage: tools/seedrun.sh <patch.diff> <demo.py|-> <check id> [<check id>...]
# Applies a seeded change to a scratch copy of /repo (never to /repo itself), confirms that the repository's own
# test suite still passes and the demonstration fails there, then runs the given checks against the copy.
set -u
PATCH=$(readlink -f "$1"); DEMO="$2"; shift 2
W=$(mktemp -d /tmp/seedrun.XXXXXX)
trap 'rm -rf "$W"' EXIT
rsync -a --exclude .git --exclude site /repo/ "$W/"
( cd "$W" && patch -s -p1 < "$PATCH" ) || { echo "PATCH-FAILED"; exit 3; }
if [ "${SKIP_SUITE:-0}" != 1 ]; then
  ( cd "$W" && PYTHONPATH="$W/src" /venv/bin/python -m pytest -q -p no:cacheprovider -x \
      --deselect tests/test_audio/test_audio.py::test_can_load_clip_from_24_bit_depth_wav \
      --deselect tests/test_audio/test_io.py::test_audio_to_bytes \
      --deselect tests/test_audio/test_media_info.py::test_can_read_media_info > "$W/suite.log" 2>&1 )
  echo "suite_exit=$? ($(tail -1 "$W/suite.log"))"
fi
if [ "$DEMO" != "-" ]; then
  PYTHONPATH="$W/src" /venv/bin/python "$DEMO" > "$W/demo.log" 2>&1; echo "demo_with_change_exit=$?"
  PYTHONPATH=/repo/src /venv/bin/python "$DEMO" > "$W/demo0.log" 2>&1; echo "demo_without_change_exit=$?"
fi
cd ${VERIF_HOME:-/verif}
for c in "$@"; do
  VERIF_REPO="$W" ./check "$c" > "$W/$c.log" 2>&1; rc=$?
  echo "check $c exit=$rc violations=$(grep -c '^VIOLATION' "$W/$c.log") :: $(grep '^VIOLATION' "$W/$c.log" | head -2 | sed 's/.*# //' | cut -c1-220 | tr '\n' '|')"
  [ $rc -ge 2 ] && tail -5 "$W/$c.log"
done
