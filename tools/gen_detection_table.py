#!/venv/bin/python
"""Adds to the detection table of DESIGN.md section 9.4 a row for every seeded/*/meta.json that has none yet (rows are inserted
before the paragraph that starts with 'One delivered change was'; existing rows are left alone)."""
import glob, json, os
root = os.path.dirname(os.path.dirname(os.path.abspath(__file__)))
p = os.path.join(root, "DESIGN.md")
s = open(p).read()
rows = []
esc = lambda x: str(x).replace("|", "\\|").replace("\n", " ")
for m in sorted(glob.glob(os.path.join(root, "seeded", "*", "meta.json"))):
    d = json.load(open(m))
    name = os.path.basename(os.path.dirname(m))
    if "| `%s` |" % name in s:
        continue
    caught = esc(d["caught_by"]) + (" — **escaped at first**" if "(after " in d["caught_by"] else "")
    rows.append("| `%s` | %s | %s | %s |" % (name, d["property"], esc(d["needs_to_manifest"]), caught))
j = s.index("\nOne delivered change was")
s = s[:j].rstrip("\n") + "\n" + "\n".join(rows) + "\n" + s[j:]
open(p, "w").write(s)
print(len(rows), "rows added;", sum("escaped at first" in r for r in rows), "escaped at first")
