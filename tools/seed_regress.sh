#!/bin/bash
# Re-runs every kept seeded change against the quick check of its property (scratch copy, never /repo) and writes
# seeded/RESULTS.md: one line per change with the exit status and the number of VIOLATION groups.
cd "$(dirname "$0")/.."
OUT=seeded/RESULTS.md
echo "| seeded change | property | quick check exit | violation groups |" > $OUT.tmp
echo "|---|---|---|---|" >> $OUT.tmp
for d in seeded/*/; do
  n=$(basename $d); p=$(/venv/bin/python -c "import json;print(json.load(open('$d/meta.json'))['property'])")
  extra=$(/venv/bin/python -c "import json;m=json.load(open('$d/meta.json'));print(m.get('regress_with',''))")
  r=$(SKIP_SUITE=1 tools/seedrun.sh $d/patch.diff - ${extra:-$p} 2>&1 | grep "^check" | head -1)
  ex=$(echo "$r" | sed 's/.*exit=\([0-9]*\).*/\1/'); v=$(echo "$r" | sed 's/.*violations=\([0-9]*\).*/\1/')
  echo "| $n | ${extra:-$p} | $ex | $v |" >> $OUT.tmp
  echo "$n ${extra:-$p} exit=$ex violations=$v"
done
mv $OUT.tmp $OUT
