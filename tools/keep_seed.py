#!/venv/bin/python
"""Store a confirmed seeded change under /verif/seeded/<name>/ (patch.diff, demo.py, notes.md, meta.json).
usage: keep_seed.py <name> <patch> <demo> <notes> <property> <caught_by> <needs> [<extra note>]"""
import json, os, shutil, sys
name, patch, demo, notes, prop, caught, needs = sys.argv[1:8]
extra = sys.argv[8] if len(sys.argv) > 8 else ""
d = os.path.join(os.path.dirname(os.path.dirname(os.path.abspath(__file__))), "seeded", name)
os.makedirs(d, exist_ok=True)
shutil.copy(patch, os.path.join(d, "patch.diff"))
shutil.copy(demo, os.path.join(d, "demo.py"))
if os.path.exists(notes):
    shutil.copy(notes, os.path.join(d, "notes.md"))
meta = {
    "property": prop,
    "origin": "written by an isolated sub-agent that saw only the property text and a scratch worktree of /repo",
    "needs_to_manifest": needs,
    "confirmed": {
        "repo_suite_with_change": "passes (814 passed; the 3 pre-existing failures deselected)",
        "demo_with_change": "exits non-zero",
        "demo_without_change": "exits 0",
        "how": "tools/seedrun.sh <patch> <demo> <check ids> (scratch copy of /repo, VERIF_REPO)",
    },
    "caught_by": caught,
    "note": extra,
}
json.dump(meta, open(os.path.join(d, "meta.json"), "w"), indent=1)
print("kept", d)
