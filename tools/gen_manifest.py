#!/venv/bin/python
"""Regenerates /verif/MANIFEST.json from the table below (kept in one place so the
manifest is valid at every commit).  Run: /venv/bin/python tools/gen_manifest.py"""
import json
import os

HERE = os.path.dirname(os.path.dirname(os.path.abspath(__file__)))

# id -> (technique, level text, level note, design ref)
CHECKS = {
    "C03": (
        "exhaustive enumeration of coordinate structures (all flat lists up to length 5 over a 7-letter alphabet; nested shapes with deviation-bounded leaf substitutions, arity changes, wrap/unwrap, reversal) x 9 type tags x 4 entry points on the real validators against a recursive validity predicate and normal form",
        "3.49 M (quick) / 73.8 M (thorough) (structure, type tag) cases: all scalars and flat lists of length 0..5 over {0, 1, 2, 3, -1, MAX, MAX+1}, one level of wrong nesting, 50 (210) nested base shapes with every structure within the deviation bound; "
        "each through the constructor, geometry_validate dict / attributes / JSON modes: accepted iff the model says valid, the four entry points agree, rejection is a ValueError subclass, accepted geometries are in normal form, are instances of the class named by the tag, and re-validating the JSON dump gives an equal geometry; type-tag cases (missing, unknown, unhashable, mismatching).",
        "NaN/inf, numeric strings and booleans are outside the alphabet (Pydantic lax-mode conventions); tuples and numpy / int leaves occur on example structures only. Deviation bound shrinks with shape size (literal D<=2 on every shape would be ~1e9 cases).",
        "DESIGN.md 4/C03",
    ),
    "C04": (
        "exhaustive enumeration of match sequences / membership multisets / boundary values through four construction paths (constructor, model_validate, model_validate_json, edited AOEF document + io.load) against set/multiset predicates",
        "ClipEvaluation: every subset of annotations x predictions present x same/different clip x every sequence of <= 3 (quick) / <= 4 (thorough) matches over the 15 (source, target) kinds incl. foreign and duplicated ones; "
        "Match: presence forms x affinity x score over the boundary alphabet {-1e-9, -0.0, 0, 0.5, 1, 1+ulp, 2, NaN, +-inf, None}; AnnotationProject: every multiset of <= 3 tasks x <= 3 annotated clips over 3 clips; Clip: (start, end) over {0, 1, 1+ulp, 2}^2; "
        "the four score fields over the same alphabet - each through all four paths: accepted iff the reference predicate holds, the paths agree, an accepted object satisfies the predicate when read back, and an AOEF-loaded object carries what the edited document says.",
        "Numeric strings, booleans and NaN clip times are outside the alphabet (Pydantic lax-mode conventions). An AOEF case is judged only when every id the edited document mentions is defined in it.",
        "DESIGN.md 4/C04",
    ),
    "C18": (
        "exhaustive product collection type x audio directory form x recording path shapes (1-3 recordings, each reached through a different route) x load directory form, on the real io.save/io.load against lexical POSIX path arithmetic",
        "78 208 (quick) / 1 399 104 (thorough) cases: all 8 collection types x audio directory {none, /data, /data/a b, /data/u-umlaut/CJK} as str or Path, with and without trailing slash x path shapes (inside, nested, unicode, spaces, deep, the directory itself, sibling-prefix trap /data2, elsewhere, relative) x load directory {none, A, /other, rel/dir}: "
        "every stored path is the path relative to A (read from the JSON text), saving a recording outside A raises and writes nothing (fresh and pre-existing targets), every recording reachable from the loaded object (reflection walk) is B / stored path, no directory means pass-through; all of it per collection type.",
        "No '..' components, POSIX paths. A recording whose path equals A itself may be rejected or stored as '.' (not defined by the statement).",
        "DESIGN.md 4/C18",
    ),
    "C15": (
        "exhaustive enumeration of clips on a 1/16 s lattice over real PCM-16 WAV files (rates, channels, time expansions), rate pairs x lengths for resample, window/hop (whole and fractional samples) for spectrograms, against frames read back with the standard-library wave module",
        "Real WAV files with integer ramps are written per worker; for the 8/10 Hz files every (start, end) on the 1/16 s lattice from 0 to 1.5 x file length (on/off sample boundaries, zero-length, reaching and starting past EOF), boundary sets for the other rates, x channels {1,2,3} x time expansion {1,2,10,1/2}: "
        "exact frame count floor(duration x samplerate), frame values from floor(start x samplerate) zero-filled past EOF, frame times, equality with load_recording; for load_recording, load_clip, resample and compute_spectrogram: axes strictly increasing, starting at the source start, within one advertised step of first + i x step, coordinates matching the data length.",
        "floor() clauses are judged only where the double product is exact or farther than 2^-24 sample from an integer (counted vacuous otherwise). Spectrograms with default options and with boundary=None; 16-bit and one 32-bit PCM file. resample has no length oracle in the property.",
        "DESIGN.md 4/C15",
    ),
    "C10": (
        "exhaustive option-product enumeration on real crowsetta objects: import lattice (times/sample indices x samplerate x expansion x flag), full label-cascade option product (10 368 cells x entry points), export kinds x switches, round trip; against a cascade transcribed from the docstrings and Fraction arithmetic",
        "279 717 (quick) / 3 835 546 (thorough) cases: every onset/offset/frequency lattice point x unit x samplerate x time expansion x adjust flag through all five import entry points; the full product of label options "
        "(empty_labels, tag_fn, term/tag/key mappings hit/miss, key, term, fallback) x 3 labels; export label options (seq_label_fn, select_by_key, index incl. wrap, separators, label_fn, label_mapping, value_only); "
        "export of all 9 geometry kinds + none x cast x raise_on_time_geometries x ignore_errors x samplerate (floor sample index, Nyquist cap, order, error policy); export after import reproduces everything for expansion 1 / value-only labels.",
        "One cell of the cascade (term_mapping hit and tag_mapping hit) is not judged: docstring order and the property's summary disagree. select_by_key hit may return the value-only or the kwargs-governed label. crowsetta's own validators define 'unconvertible'.",
        "DESIGN.md 4/C10",
    ),
    "C19": (
        "exhaustive enumeration of every vocabulary (ordered selection) from a colliding 5/6-tag universe x every tag list / predicted-tag list up to length 3/4 on the real encoder functions; all ordered pairs of a reflective object pool for the hash/equality contract",
        "326 (quick) / 1 957 (thorough) vocabularies x all tag lists with repeats x all predicted lists over the score alphabet: encode iff equal, decode-encode identity, first hit, indicator vector, float32 score vector, out-of-vocabulary members without influence. "
        "Hash contract: per hashable class a base object, one variant per declared field (reflection reports uncovered fields: none) and four equal-but-distinct realisations; all 126 025 (quick) / 2.94 M (thorough) ordered pairs incl. cross-class: equal implies equal hash, set/dict usable, equality symmetric.",
        "Tag equality is taken from the real == (recorded as a matrix in the evidence). Vocabularies with two equal tags are outside the precondition (executed, not judged).",
        "DESIGN.md 4/C19",
    ),
    "C20": (
        "exhaustive enumeration of templates (sizes 1..4 squared, both dimension orders, 4 axis configurations) x geometry lists (boxes on every half-bin edge position, lattice triangles/rectangles, intervals, stamps, points, lines; lists up to length 2 in both orders) x options on the real rasterize against a rasterio-independent point-in-shape model on bin centres",
        "86 684 (quick) / 1 580 044 (thorough) cases, each with all_touched False and True: result indexed by the template's time/frequency coordinates for either dimension order, cells == model (cell centre inside the mapped shape; exact closed form for boxes), "
        "later geometries overwrite earlier ones, fill elsewhere, all_touched only adds cells, wrong-length value lists rejected, template untouched, dtype as requested. "
        "One open known finding: for LineStrings all_touched=True can unmark cells (GDAL line burning).",
        "Cells whose centre lies within 1e-9 of the mapped boundary, and the cells touched by shapes without interior (stamps, points, lines), are not judged by the centre rule. Multi-geometries and polygons with holes are not enumerated.",
        "DESIGN.md 4/C20",
    ),
    "C05": (
        "exhaustive enumeration of all geometries of all 9 types over a small time x frequency lattice x all position names on the real bounds/conversion/features/anchor functions against a min/max walk over raw coordinates",
        "63 134 (quick) / 1 418 725 (thorough) lattice geometries incl. unsorted and zero-extent boxes, all 3-point rings, rectangles/L-shapes in every vertex order, holes, 1-3 member multi-geometries; per geometry 25 calls: "
        "bounds exact, shapely kind and every coordinate preserved in order, features (duration, low/high frequency, bandwidth, num_segments; one per term) from the bounds model, 9 anchor formulas, centroid / point_on_surface inside the bounds, invalid names rejected.",
        "Lattice coordinates only (dyadic: comparisons exact). Self-intersecting rings excluded. Centroid/point-on-surface only required to lie inside the bounds.",
        "DESIGN.md 4/C05",
    ),
    "C11": (
        "explicit-state BFS over chains of real buffer_geometry calls from 74 pooled geometries x 25 buffer vectors (depth 2 quick / 3 thorough), pairwise monotonicity for every ordered pair of buffer vectors, closed forms for the three exact types",
        "Every pooled geometry (9 types, incl. ones touching t=0, f=0, f=MAX, holes, multi-geometries) x every buffer vector in {0, 2^-7, 1/2, 4, 1e9} x {0, 1, 125, 1e4, 1e7}; results of regular buffers are states again and are re-buffered with componentwise larger vectors. "
        "On every state: valid result (re-validated by the C03 model), containment of the original, bounds extended by at least the buffers (clipped), supersets for larger buffers (all pairs), exact closed form for TimeStamp/TimeInterval/BoundingBox, negative buffers rejected. "
        "The literal clauses fail for the shapely-backed types in eight narrow, bounded ways (F11a-c); they are listed as open known findings keyed by oracle, kind, pooled geometry ids / chain depth and a numeric bound on the excess, so anything else or anything larger is a VIOLATION.",
        "Results of zero buffers (slivers below double resolution) and of domain-filling buffers are judged as results but not fed to a further buffering. Containment tolerance 1e-9 in buffer units.",
        "DESIGN.md 4/C11",
    ),
    "C17": (
        "explicit-state BFS (depth 2 quick / 3 thorough) over sequences of real crop_dim / extend_dim / adjust_dim_width / crop_dim_width / extend_dim_width calls with canonical state hashing, lock-step integer lattice model",
        "From every initial axis (first x step incl. 0.01, 1/3, 10/3 x length x step attribute or estimated x 1-D/2-D layout) every enabled operation is applied (all crop bound pairs on/between coordinates x 4 closedness settings, "
        "extend bounds up to 2.5 steps beyond each end, all widths 0..len+3 x 3 positions, out-of-contract requests), recursively from every distinct reached state; after every transition: exact membership/size, "
        "coordinates on the lattice, surviving samples at their lattice index, per-depth fill value elsewhere, placement, rejection of out-of-contract calls.",
        "Open extend bounds exactly on a lattice point are only explored on dyadic lattices (membership of a regenerated float coordinate is undefined at the last bit otherwise). Lengths <= 5, reach <= 2.5 steps, depth <= 3.",
        "DESIGN.md 4/C17",
    ),
    "C06": (
        "exhaustive enumeration of all ordered pairs of pooled lattice geometries (all 81 type combinations) x admissible buffer pairs x time shifts on the real compute_affinity against Fraction IoU models",
        "All ordered pairs of 69 (quick) / 240 (thorough, incl. a non-dyadic offset lattice) pooled geometries x every admissible buffer pair x the default buffers x shifts {0, 1, 2.5}; "
        "range [0,1] exact, symmetry, self-affinity, zero when disjoint in time (or in frequency for planar kinds), exact box IoU, exact time-extent IoU for time-only kinds, shift invariance.",
        "General polygon pairs have no exact area model (range/symmetry/self/disjoint/shift only). Buffered extents of thin kinds are read from buffer_geometry (decided by C11). Zero buffers with thin kinds are outside the quantifier.",
        "DESIGN.md 4/C06",
    ),
    "C07": (
        "exhaustive enumeration of all pairs of geometry lists up to length 3 (quick) / 4 (thorough) over a pool, on the real match_geometries against a brute-force optimum over all partial injective pairings",
        "Every (source, target) list pair with lengths 0..3 x 0..3 over a pool of 6 geometries (134 162 cases; thorough adds lengths <= 4 over 5 and a 7-type pool), default and one non-default buffer pair: "
        "every index exactly once, pairs only with positive affinity, reported affinity == compute_affinity of the pair, total == brute-force optimum (exact Fractions).",
        "The affinity matrix itself is C06's subject. Lists longer than 4 are not covered.",
        "DESIGN.md 4/C07",
    ),
    "C09": (
        "exhaustive enumeration of small evaluation problems (4 tasks x vocabulary size 1..3 x item lists x true-tag / score-vector alphabets) on the real task functions against pure-Python metric definitions, plus all clip-order permutations and an AOEF round trip per case",
        "Each case is evaluated by the real task function; metric terms must be pairwise distinct at evaluation / clip / match level; each value must equal the independently computed metric named by its term "
        "(accuracy, balanced accuracy, top-3 accuracy, mAP, AP, Jaccard, true-class probability; exact Fractions, 1e-6); scores aggregate as means; every permutation of the prediction list and the reversed annotation list gives the same result; "
        "save/load through AOEF preserves every (label, value) at all three levels.",
        "Ties in arg-max/top-3, classes without positives (AP), empty-vs-empty Jaccard are degenerate and not judged (counted). Inputs without any evaluated item are outside the quantifier.",
        "DESIGN.md 4/C09",
    ),
    "C16": (
        "exhaustive product start x step x n x constructor form; all lookup queries per axis; BFS depth 2/3 over write sequences to every cell/slice address, on the real arrays functions against an integer lattice-index model",
        "Range constructors over starts/steps incl. 0.1, 1/3, 1/44100 and n up to 4410 (44100 thorough) through all five constructor forms: exact count for whole quotients, coordinates within 1e-9 step of start+i*step, inside [start, stop), step attribute; "
        "get_coord_index on every coordinate, midpoint, neighbouring double and edge query with both raise_error settings against the index model; set_value_at_pos write sequences of depth 2 (3 thorough) to every cell and slice address of 1-3 dimensional arrays.",
        "The number of coordinates when (stop-start)/step is not whole is not fixed by the statement and is not judged (recorded in the histogram). float32 dtype and irregular axes are not covered.",
        "DESIGN.md 4/C16",
    ),
    "C08": (
        "exhaustive small-scope enumeration of detection problems (all event lists <= 2 x 2 per clip over geometry x tag/score alphabets; all two-slot clip presence patterns x presets x orders x vocabularies) on the real sound_event_detection, with an independent re-derivation of every reported quantity",
        "Every annotated/predicted event list of length <= 2 per side over {none, A, B, C} geometries x tag sets / score vectors in one clip, and every presence pattern of two clip slots x 6 presets x 2 list orders x 3 vocabularies, "
        "is evaluated by the real function; the returned evaluation is checked for: evaluated clips == shared clips, every event in exactly one match, pairs only with positive compute_affinity, reported affinity == the pair's affinity, "
        "score == predicted probability of the first in-vocabulary annotation tag (residual if none), unpaired 0/0, clip score == mean of match scores, overall == mean of clip scores.",
        "compute_affinity (decided by C06) is used to define overlap; optimality is C07's clause; inputs with no evaluated item are not judged; lists > 2 events per side are not covered.",
        "DESIGN.md 4/C08",
    ),
    "C02": (
        "explicit-state exploration of object graphs (same generator as C01) with a document-level oracle: reference-site table + generic UUID sweep + independent reachability walk; plus all ordered pairs of save/load histories in one process",
        "Every configuration within 2 (quick) / 3 (thorough) deviations of three poles for each of the 8 collection types is saved; the JSON text is checked for unique ids per list, "
        "every reference (37 explicit sites and every UUID-shaped string) defined, parents before children, and defined sets == objects reachable from the collection "
        "(computed by reflection, independent of the adapters); a fresh load must resolve everything. The evidence counts, per reference site, the cases in which an object is referenced "
        "from that site only (35 of 37 sites occur as sole site; matches.source/target cannot by the ClipEvaluation validator). 576 ordered save/load history pairs give a differential oracle from non-initial states.",
        "Bounded as C01. Tags are identified by (label, value). Notes are inline objects by format design.",
        "DESIGN.md 4/C02",
    ),
    "C01": (
        "explicit-state exploration of object graphs (all configurations within k deviations of three poles, 8 collection types) driven through save/load cycle histories on the real io.save/io.load, invariant = structural equality + exact fixpoint",
        "For each of the 8 collection types every object-graph configuration within 2 (quick) / 3 (thorough) deviations of the minimal, skeleton and maximal poles "
        "(75 axes: every optional field, list lengths 0/1/2, all 9 geometry kinds + none, sharing of sub-objects, audio_dir) is saved and loaded with fresh calls through a real file "
        "for 2/3 consecutive cycles; loaded == original (Pydantic equality plus an independent field walker), same type, and object/document fixpoint are checked on every state. "
        "A reflective audit lists declared fields the generator cannot populate (currently none).",
        "Bounded: list lengths <= 2, <= 3 simultaneous deviations from a pole, simple-label terms, distinct feature labels per list. pydantic/json are part of the executed system.",
        "DESIGN.md 4/C01",
    ),
    "C13": (
        "exhaustive enumeration of all labelled graphs on <= 6 (quick) / <= 7 (thorough) nodes on the real group_sound_events against union-find",
        "Every labelled undirected graph on n = 0..6 nodes (33 868; thorough adds all 2 097 152 graphs on 7 nodes) is realised as sound events + a recording comparison function; "
        "partition, order, connected components (union-find), empty input, result type and the exact set of comparison calls are checked on each.",
        "Above 7 events only the listed members of the big block are run (cliques, paths, a star, and a fixed list of 80 labelled trees on 32 / 48 events); the property's 'random larger graphs' clause (sampling, another family) is not the deciding step. Duplicate objects in the input are outside the statement.",
        "DESIGN.md 4/C13",
    ),
    "C14": (
        "exhaustive product over a dyadic lattice of clip start/length/duration/hop/flag on the real segment_clip against a Fraction window model",
        "Full product clip start x length x duration x hop (incl. None) x include_incomplete on a dyadic lattice, plus all non-positive duration/hop combinations; "
        "windows must equal the Fraction model exactly (order, bounds), ids must be deterministic / distinct / parent-dependent, coverage holds when hop <= duration.",
        "Exact comparison on a dyadic lattice (float arithmetic exact) plus one block of decimal hops / durations judged to 4 ulp of the exact lattice point; zero-length parent with include_incomplete is not defined by the statement and not judged.",
        "DESIGN.md 4/C14",
    ),
    "C12": (
        "exhaustive small-scope enumeration of interval/geometry/clip placements x thresholds on the real functions against a Fraction reference model",
        "Every ordered pair of lattice intervals x every threshold setting, every ordered pair of 36 pooled geometries (9 types) x thresholds x axis, "
        "and every clip x extent x realisation x minimum_overlap is executed on the implementation and compared with exact rational arithmetic; "
        "symmetry, monotonicity and rejection are checked on every case. Exhaustive within the stated lattice; nothing is sampled.",
        "Coordinates/thresholds dyadic so float arithmetic is exact; values off the lattice are not covered. shapely bounds are part of the executed system.",
        "DESIGN.md 4/C12",
    ),
}

PENDING_REASON = "check not built yet (design in DESIGN.md section 4); not claimed until its machinery is committed"


LATER = ("The case counts quoted above are those of the first complete build; the seeding rounds 5-12 added members to the explored spaces "
         "(the same values in other representations, re-runs in other process environments, single large or coincidence-laden "
         "instances, histories across objects and files). The current bounds, the rule of enumeration and the exact counts are in "
         "the evidence file of each run (coverage.rule / coverage.bounds) and in DESIGN.md 9.5. After round 13, C03 and C05 walk every shard "
         "of their case lists in both orders within one process (about twice the quoted case counts).")


def main():
    props = [json.loads(l) for l in open(os.path.join(HERE, "properties.jsonl"))]
    checks = []
    na = []
    for p in props:
        pid = p["id"]
        if pid in CHECKS:
            tech, text, note, ref = CHECKS[pid]
            checks.append({
                "property_id": pid,
                "quick_cmd": "./check %s --tier quick" % pid,
                "thorough_cmd": "./check %s --tier thorough" % pid,
                "evidence_file": "/verif/evidence/%s.json" % pid,
                "replay_cmd_template": "./check %s --replay {path}" % pid,
                "engine": "mc",
                "level_claimed": {"category": "model_checking", "text": text, "design_ref": ref},
                "level_note": (note + " " if note else "") + LATER,
                "technique": tech,
            })
        else:
            na.append({"property_id": pid, "reason": PENDING_REASON})
    man = {
        "version": 1,
        "setup_cmd": "./check --selftest",
        "hooks": {
            "guard": "SOUNDEVENT_VERIF",
            "enable": "no source hooks are needed: every property is observable at the public API; checks import /repo/src directly (PYTHONPATH) on every run",
            "baseline_off_cmd": "cd /repo && /venv/bin/python -m pytest -ra -q -p no:cacheprovider --timeout=900 --continue-on-collection-errors",
            "source_commits": [],
            "add_only": True,
        },
        "engines": [{
            "name": "mc",
            "path": "/verif/mc",
            "serves_properties": sorted(CHECKS),
            "kind_free_text": "hand-written explicit-state / small-scope exhaustive explorer for Python: finite space enumerators (products, deviation-bounded, sequences, graphs), "
                              "BFS over operation sequences, lock-step reference models, 16-process block sharding, evidence + replay + known-findings protocol",
        }],
        "checks": checks,
        "not_applicable": na,
        "notes": "All checks run the real code imported from /repo/src (override with VERIF_REPO for scratch copies). Verdicts do not depend on VERIF_SEED (it rotates block order and picks evidence samples).",
    }
    with open(os.path.join(HERE, "MANIFEST.json"), "w") as f:
        json.dump(man, f, indent=1)
        f.write("\n")


if __name__ == "__main__":
    main()
