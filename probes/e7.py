import itertools, time, warnings
import numpy as np
from soundevent import data
from soundevent.evaluation import sound_event_detection, clip_classification, clip_multilabel_classification, sound_event_classification
from soundevent.evaluation import metrics
warnings.simplefilter("ignore")
rec = data.Recording(path="/a/b.wav", duration=100, channels=1, samplerate=8000)
T=[data.Tag(term=data.term_from_key("sp"), value=v) for v in "abc"]
clip=data.Clip(recording=rec,start_time=0,end_time=10)
def se(g): return data.SoundEvent(recording=rec, geometry=g)
bb=lambda t: data.BoundingBox(coordinates=[t,1000,t+1,2000])
def run(f,*a):
    try: return f(*a)
    except Exception as e: return f"{type(e).__name__}: {str(e)[:150]}"
# detection: far-away prediction
ann=data.ClipAnnotation(clip=clip, sound_events=[data.SoundEventAnnotation(sound_event=se(bb(1)), tags=[T[0]])])
pred=data.ClipPrediction(clip=clip, sound_events=[data.SoundEventPrediction(sound_event=se(bb(7)), tags=[data.PredictedTag(tag=T[0], score=0.5)])])
ev=run(sound_event_detection,[pred],[ann],T)
print([(m.source is not None, m.target is not None, m.affinity, m.score) for m in ev.clip_evaluations[0].matches], ev.score, [(f.term.label, f.value) for f in ev.metrics])
# partial overlap
pred=data.ClipPrediction(clip=clip, sound_events=[data.SoundEventPrediction(sound_event=se(bb(1.5)), tags=[data.PredictedTag(tag=T[0], score=0.5)])])
ev=run(sound_event_detection,[pred],[ann],T)
print([(m.source is not None, m.target is not None, m.affinity, m.score) for m in ev.clip_evaluations[0].matches], ev.score)
# geometry-less
ann2=data.ClipAnnotation(clip=clip, sound_events=[data.SoundEventAnnotation(sound_event=se(None), tags=[T[0]]), data.SoundEventAnnotation(sound_event=se(bb(1)), tags=[T[1]])])
ev=run(sound_event_detection,[pred],[ann2],T); print("geomless:", ev if isinstance(ev,str) else "ok")
# empty both
ann0=data.ClipAnnotation(clip=clip); pred0=data.ClipPrediction(clip=clip)
ev=run(sound_event_detection,[pred0],[ann0],T); print("empty clip:", ev if isinstance(ev,str) else ("ok", ev.score, [(f.term.label, f.value) for f in ev.metrics]))
ev=run(sound_event_detection,[pred0, pred],[ann0, ann],T); print("empty+1:", ev if isinstance(ev,str) else ("ok", ev.score, [c.score for c in ev.clip_evaluations]))
# sound event classification with empty clip
s1=se(bb(1))
annc=data.ClipAnnotation(clip=clip, sound_events=[data.SoundEventAnnotation(sound_event=s1, tags=[T[0]])])
predc=data.ClipPrediction(clip=clip, sound_events=[data.SoundEventPrediction(sound_event=s1, tags=[data.PredictedTag(tag=T[0], score=0.5)])])
ev=run(sound_event_classification,[predc],[annc],T); print("sec:", ev if isinstance(ev,str) else ("ok", ev.score, [(f.term.label, f.value) for f in ev.metrics]))
clip2=data.Clip(recording=rec,start_time=10,end_time=20)
ev=run(sound_event_classification,[predc, data.ClipPrediction(clip=clip2)],[annc, data.ClipAnnotation(clip=clip2)],T); print("sec empty clip:", ev if isinstance(ev,str) else ("ok", ev.score))
# clip classification
ac=data.ClipAnnotation(clip=clip, tags=[T[0]]); pc=data.ClipPrediction(clip=clip, tags=[data.PredictedTag(tag=T[0], score=0.5), data.PredictedTag(tag=T[1], score=0.25)])
ev=run(clip_classification,[pc],[ac],T); print("cc:", ev if isinstance(ev,str) else ("ok", ev.score, [(f.term.label, f.value) for f in ev.metrics], [(f.term.label,f.value) for f in ev.clip_evaluations[0].metrics]))
ev=run(clip_classification,[pc],[ac],T[:1]); print("cc vocab1:", ev if isinstance(ev,str) else ("ok", ev.score, [(f.term.label, f.value) for f in ev.metrics]))
ev=run(clip_classification,[pc],[ac],T[:2]); print("cc vocab2:", ev if isinstance(ev,str) else ("ok", ev.score, [(f.term.label, f.value) for f in ev.metrics]))
ev=run(clip_multilabel_classification,[pc],[ac],T); print("cml:", ev if isinstance(ev,str) else ("ok", ev.score, [(f.term.label, f.value) for f in ev.metrics], [(f.term.label,f.value) for f in ev.clip_evaluations[0].metrics]))
ac2=data.ClipAnnotation(clip=clip2, tags=[]); pc2=data.ClipPrediction(clip=clip2, tags=[data.PredictedTag(tag=T[2], score=0.5)])
ev=run(clip_multilabel_classification,[pc,pc2],[ac,ac2],T); print("cml2:", ev if isinstance(ev,str) else ("ok", ev.score, [(f.term.label, f.value) for f in ev.metrics], [[(f.term.label,f.value) for f in c.metrics] for c in ev.clip_evaluations],[c.score for c in ev.clip_evaluations]))
ev=run(clip_multilabel_classification,[pc],[ac],T[:1]); print("cml vocab1:", ev if isinstance(ev,str) else ("ok", ev.score, [(f.term.label, f.value) for f in ev.metrics]))
ev=run(clip_classification,[pc,pc2],[ac,ac2],T); print("cc2:", ev if isinstance(ev,str) else ("ok", ev.score, [(f.term.label, f.value) for f in ev.metrics]))
t=time.time()
for i in range(50): clip_classification([pc,pc2],[ac,ac2],T)
print("ms per cc", (time.time()-t)/50*1000)
t=time.time()
for i in range(50): sound_event_detection([pred],[ann],T)
print("ms per sed", (time.time()-t)/50*1000)
