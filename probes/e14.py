import itertools, warnings, shapely
warnings.simplefilter("ignore")
from soundevent import data
from soundevent.geometry import buffer_geometry, geometry_to_shapely
M=data.MAX_FREQUENCY
gs={"ls":data.LineString(coordinates=[[1,1000],[2,2000]]),"ls3":data.LineString(coordinates=[[1,1000],[2,2000],[3,1250]]),
 "ml":data.MultiLineString(coordinates=[[[1,1000],[2,2000]],[[1,3000],[2,2500]]]),"pt":data.Point(coordinates=[1.5,1000]),
 "pg":data.Polygon(coordinates=[[[1,1000],[2,1000],[2,2000]]]),"mp":data.MultiPoint(coordinates=[[1,1000],[2,2000]])}
B=[(0.0078125,1),(0.0078125,125),(0.5,1),(0.5,125),(4,125),(4,1e4)]
worst={}
for k,g in gs.items():
    for b1,b2 in itertools.product(B,B):
        if not (b1[0]<=b2[0] and b1[1]<=b2[1]) or b1==b2: continue
        s1=geometry_to_shapely(buffer_geometry(g,*b1)); s2=geometry_to_shapely(buffer_geometry(g,*b2))
        # scaled metric of big buffer
        f=[1/b2[0],1/b2[1]]
        t1=shapely.transform(s1,lambda x:x*f); t2=shapely.transform(s2,lambda x:x*f)
        d=t1.difference(t2)
        # hausdorff-ish: max distance of t1 outside t2
        out = 0 if d.is_empty else max(shapely.distance(shapely.Point(p), t2) for p in shapely.get_coordinates(d))
        worst[k]=max(worst.get(k,0),out)
print(worst)
