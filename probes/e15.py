import itertools, warnings
warnings.simplefilter("ignore")
import numpy as np, xarray as xr
from soundevent import arrays
from soundevent.arrays import operations as ops
def run(f,*a,**k):
    try: return f(*a,**k)
    except Exception as e: return f"{type(e).__name__}: {str(e)[:100]}"
def mk(first,step,n,attr):
    coords=first+np.arange(n)*step
    return xr.DataArray(np.arange(n)+1.0, dims=["x"], coords={"x": xr.Variable("x",coords,attrs={"step":step} if attr else {})})
def lat(arr,first,step):
    return [int(round((c-first)/step)) for c in arr.x.data], max(abs((c-first)/step-round((c-first)/step)) for c in arr.x.data) if arr.sizes["x"] else 0
fails={}
tot=0
for first in [0,0.5,10/3]:
  for step in [1,0.5,0.01,1/3]:
    for n in [1,2,3,5]:
      for attr in [True,False]:
        if not attr and n<2: continue
        a=mk(first,step,n,attr)
        # crop: bounds at lattice j or j+.5 within [0,n-1]
        pts=[(j,0) for j in range(n)]+[(j,0.5) for j in range(n-1)]
        for (j0,h0),(j1,h1) in itertools.product(pts,pts):
            if j0+h0>j1+h1: continue
            for lc,rc in itertools.product([True,False],repeat=2):
                s=first+(j0+h0)*step; e=first+(j1+h1)*step
                r=run(ops.crop_dim,a,"x",s,e,right_closed=rc,left_closed=lc); tot+=1
                lo = j0 if (h0==0 and lc) else j0+1
                hi = j1 if (h1==0.5 or rc) else j1-1
                exp=list(range(lo,hi+1))
                if isinstance(r,str): fails.setdefault(("crop",r[:40]),[]).append((first,step,n,attr,j0+h0,j1+h1,lc,rc)); continue
                got,err=lat(r,first,step)
                if got!=exp or list(r.data)!=[k+1.0 for k in exp]: fails.setdefault(("crop","mismatch"),[]).append((first,step,n,attr,j0+h0,j1+h1,lc,rc,got,exp))
        # extend: bounds containing axis by 0..3 steps, on lattice or half
        lows=[(-k,h) for k in range(0,4) for h in (0,-0.5)]
        highs=[(n-1+k,h) for k in range(0,4) for h in (0,0.5)]
        for (j0,h0),(j1,h1) in itertools.product(lows,highs):
            for lc,rc in itertools.product([True,False],repeat=2):
                s=first+(j0+h0)*step; e=first+(j1+h1)*step
                r=run(ops.extend_dim,a,"x",s,e,fill_value=-7,left_closed=lc,right_closed=rc); tot+=1
                lo = j0 if (h0==0 and lc) else (j0+1 if h0==0 else j0)   # h0=-0.5: start between j0-1 and j0 -> first inside is j0
                hi = j1 if (h1==0.5 or rc) else j1-1
                lo=min(lo,0); hi=max(hi,n-1)  # interval contains the axis; current axis always kept
                exp=list(range(lo,hi+1))
                if isinstance(r,str): fails.setdefault(("extend",r[:40]),[]).append((first,step,n,attr,j0+h0,j1+h1,lc,rc)); continue
                got,err=lat(r,first,step)
                expd=[(k+1.0 if 0<=k<n else -7) for k in exp]
                if got!=exp or list(r.data)!=expd or err>1e-6: fails.setdefault(("extend","mismatch"),[]).append((first,step,n,attr,j0+h0,j1+h1,lc,rc,got,exp))
print("total",tot)
for k,v in fails.items():
    print(k,len(v)); 
    for x in v[:6]: print("   ",x)
from collections import Counter
c=Counter()
for x in fails.get(("extend","mismatch"),[]):
    first,step,n,attr,s,e,lc,rc,got,exp=x
    kind=[]
    if got[0]!=exp[0]: kind.append("left:"+("extra" if got[0]<exp[0] else "missing")+f" s_onlat={float(s).is_integer()} lc={lc}")
    if got[-1]!=exp[-1]: kind.append("right:"+("extra" if got[-1]>exp[-1] else "missing")+f" e_onlat={float(e).is_integer()} rc={rc}")
    c[(round(step,4),tuple(kind))]+=1
for k,v in sorted(c.items(), key=str): print(k,v)
print([ (x[0],x[1],x[2],x[3],x[4],x[5],x[6],x[7]) for x in fails[("extend","mismatch")] if x[1] in (1,0.5)][:10])
print(Counter((x[0],x[1]) for x in fails[("extend","mismatch")]))
