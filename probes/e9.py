import itertools, time, warnings
import numpy as np, xarray as xr
from soundevent import arrays, data
from soundevent.arrays import operations as ops
from soundevent.geometry import rasterize
warnings.simplefilter("ignore")
def run(f,*a,**k):
    try: return f(*a,**k)
    except Exception as e: return f"{type(e).__name__}: {str(e)[:120]}"
# range dims
bad=0; tot=0; ex=[]
for start in [0, 0.5, 1/3, 10, 0.1]:
    for step in [1, 0.5, 0.1, 0.01, 1/3, 1/44100, 1/8000, 0.3]:
        for n in [1,2,3,7,10,100,1000]:
            stop=start+n*step
            v=run(arrays.create_range_dim,"x",start,stop,step)
            tot+=1
            if isinstance(v,str): bad+=1; ex.append((start,step,n,v)); continue
            c=v.data
            if len(c)!=n or not np.allclose(c, start+np.arange(n)*step, rtol=0, atol=step*1e-6) or c[-1]>=stop: bad+=1; ex.append((start,step,n,len(c)))
print("range_dim bad",bad,"of",tot,ex[:8])
# extend_dim_width
bad=0; tot=0; ex=[]
for start in [0,0.5,1/3,10]:
    for step in [1,0.5,0.1,0.01,1/3,0.3]:
        for n in [1,2,5,10]:
            coords=start+np.arange(n)*step
            for attr in [True,False]:
                if not attr and n<2: continue
                arr=xr.DataArray(np.arange(n)+1.0, dims=["x"], coords={"x": xr.Variable("x",coords,attrs={"step":step} if attr else {})})
                for w in [n+1,n+2,n+5,n+10]:
                    for pos in ["start","end","center"]:
                        r=run(ops.adjust_dim_width,arr,"x",w,position=pos); tot+=1
                        if isinstance(r,str) or r.sizes["x"]!=w: bad+=1; ex.append((start,step,n,attr,w,pos, r if isinstance(r,str) else r.sizes["x"]))
print("extend width bad",bad,"of",tot,ex[:6])
# rasterize time-first
t=arrays.create_time_range(0,4,step=1); f=arrays.create_frequency_range(0,3,step=1)
a1=xr.DataArray(np.zeros((3,4)),dims=["frequency","time"],coords={"time":t,"frequency":f})
a2=xr.DataArray(np.zeros((4,3)),dims=["time","frequency"],coords={"time":t,"frequency":f})
g=[data.BoundingBox(coordinates=[1,1,3,2])]
print(run(rasterize,g,a1).dims if not isinstance(run(rasterize,g,a1),str) else run(rasterize,g,a1))
print(run(rasterize,g,a1).transpose("frequency","time").data)
print(run(rasterize,g,a2))
tm=time.time()
for i in range(100): rasterize(g,a1)
print("ms/rasterize",(time.time()-tm)/100*1000)
# get_coord_index
arr=xr.DataArray(np.zeros(5),dims=["x"],coords={"x":[0.,1,2,3,4]})
print([run(arrays.get_coord_index,arr,"x",v) for v in [0,0.5,1,3.9,4,4.5,-1]], [run(arrays.get_coord_index,arr,"x",v,raise_error=False) for v in [4.5,-1]])
