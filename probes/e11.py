import json, tempfile, pathlib, warnings, copy
warnings.simplefilter("ignore")
exec(open("e2.py").read().split("for k,o in objs.items()")[0])
o=objs["evaluation"]; p=d/"ev.json"; io.save(o,p); doc=json.loads(p.read_text())
def tryload(doc):
    q=d/"m.json"; q.write_text(json.dumps(doc))
    try: io.load(q); return "ok"
    except Exception as e: return f"{type(e).__name__}: {str(e)[:100]!r}"
print(tryload(doc))
d1=copy.deepcopy(doc); d1["data"]["clip_evaluations"][0]["matches"].pop(); print("drop match ref:", tryload(d1))
d1=copy.deepcopy(doc); d1["data"]["clip_evaluations"][0]["matches"].append(d1["data"]["clip_evaluations"][0]["matches"][0]); print("dup match ref:", tryload(d1))
d1=copy.deepcopy(doc); d1["data"]["matches"][0]["affinity"]=1.5; print("affinity 1.5:", tryload(d1))
d1=copy.deepcopy(doc); d1["data"]["matches"][1]["source"]=None; d1["data"]["matches"][1]["target"]=None; print("null match:", tryload(d1))
d1=copy.deepcopy(doc); d1["data"]["sound_event_predictions"][0]["score"]=-0.1; print("pred score:", tryload(d1))
d1=copy.deepcopy(doc); d1["data"]["sound_event_predictions"][0]["tags"][0][1]=1.1; print("tag prob:", tryload(d1))
d1=copy.deepcopy(doc); d1["data"]["clips"][0]["start_time"]=6; print("clip order:", tryload(d1))
d1=copy.deepcopy(doc); d1["data"]["clip_evaluations"][0]["score"]=2; print("ce score:", tryload(d1))
d1=copy.deepcopy(doc); d1["data"]["matches"][0]["source"]="00000000-0000-0000-0000-000000000001"; print("dangling source:", tryload(d1))
print(json.dumps(doc["data"]["clip_evaluations"][0])[:300])
