import itertools, warnings, math
warnings.simplefilter("ignore")
import numpy as np, xarray as xr
from soundevent import data, arrays
from soundevent.geometry import compute_bounds, get_geometry_point, compute_geometric_features, geometry_to_shapely
M=data.MAX_FREQUENCY
T=[0,1,2,3]; F=[0,1000,2000,M]
pts=[[t,f] for t in T for f in F]
geoms=[]
geoms+= [data.TimeStamp(coordinates=t) for t in T]
geoms+= [data.TimeInterval(coordinates=[a,b]) for a in T for b in T if a<=b]
geoms+= [data.Point(coordinates=p) for p in pts]
geoms+= [data.BoundingBox(coordinates=[a,f0,b,f1]) for a in T for b in T for f0 in F for f1 in F]
geoms+= [data.LineString(coordinates=[p,q]) for p in pts for q in pts]
geoms+= [data.LineString(coordinates=[p,q,r]) for p in pts[:6] for q in pts[5:11] for r in pts[8:]]
geoms+= [data.MultiPoint(coordinates=list(c)) for k in (1,2,3) for c in itertools.combinations(pts[::2],k)]
tri=[[[0,0],[1,0],[1,1000]],[[1,1000],[3,1000],[3,M],[1,M]],[[0,0],[3,0],[3,2000],[2,2000],[2,1000],[0,1000]]]
geoms+= [data.Polygon(coordinates=[r]) for r in tri]
geoms+= [data.Polygon(coordinates=[[[0,0],[3,0],[3,M],[0,M]],[[1,1000],[2,1000],[2,2000],[1,2000]]])]
geoms+= [data.MultiPolygon(coordinates=[[r] for r in c]) for k in (1,2) for c in itertools.combinations(tri,k)]
geoms+= [data.MultiLineString(coordinates=[[p,q]]) for p in pts for q in pts if p[0]<q[0]]
def flat(c):
    if isinstance(c,(int,float)): return None
    if isinstance(c[0],(int,float)): return [c]
    out=[]
    for x in c: out+=flat(x)
    return out
bad=[]
for g in geoms:
    if g.type=="TimeStamp": exp=(g.coordinates,0,g.coordinates,M)
    elif g.type=="TimeInterval": exp=(g.coordinates[0],0,g.coordinates[1],M)
    elif g.type=="BoundingBox": exp=tuple(g.coordinates)
    else:
        P=flat(g.coordinates); exp=(min(p[0] for p in P),min(p[1] for p in P),max(p[0] for p in P),max(p[1] for p in P))
    b=compute_bounds(g)
    if tuple(b)!=tuple(float(x) for x in exp): bad.append(("bounds",g,b,exp))
    fs={f.term.label:f.value for f in compute_geometric_features(g)}
    if abs(fs["Duration"] if "Duration" in fs else fs.get("duration",-1) - 0)<0: pass
    for pos,(tx,fy) in {"bottom-left":(0,1),"bottom-right":(2,1),"top-left":(0,3),"top-right":(2,3)}.items():
        p=get_geometry_point(g,pos)
        if p!=(exp[tx],exp[fy]): bad.append((pos,g,p))
    for pos in ["centroid","point_on_surface"]:
        try:
            p=get_geometry_point(g,pos)
            if not (exp[0]-1e-9<=p[0]<=exp[2]+1e-9 and exp[1]-1e-6<=p[1]<=exp[3]+1e-6): bad.append((pos,g,p))
        except Exception as e: bad.append((pos,g,repr(e)[:80]))
print(len(geoms),"geoms; bad",len(bad)); 
for b in bad[:8]: print(b)
print(sorted({f.term.label for g in geoms for f in compute_geometric_features(g)}))
