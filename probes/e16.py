import itertools, warnings
warnings.simplefilter("ignore")
import numpy as np, xarray as xr
from soundevent import arrays, data
from soundevent.geometry import rasterize
def run(f,*a,**k):
    try: return f(*a,**k)
    except Exception as e: return f"{type(e).__name__}: {str(e)[:100]}"
fails={}; tot=0
for nt,nf in itertools.product([1,2,3,4],[1,2,3,4]):
  for (dt,df,t0,f0) in [(1,1000,0,0),(0.5,125,1,250)]:
    t=arrays.create_time_range(t0,t0+nt*dt,step=dt); f=arrays.create_frequency_range(f0,f0+nf*df,step=df)
    arr=xr.DataArray(np.full((nf,nt),9.0),dims=["frequency","time"],coords={"time":t,"frequency":f})
    # edges in units of bins: -0.5,0,0.5,1,... up to n+0.5
    te=[x/2 for x in range(-1,2*nt+2)]; fe=[x/2 for x in range(-1,2*nf+2)]
    def binidx(u,n):  # model of get_coord_index(raise_error=False) in bin units; coords are 0..n-1
        if u<0: return 0
        if u>n-1: return n
        return int(np.floor(u))
    for a,b in itertools.combinations(te,2):
      for c,d in itertools.combinations(fe,2):
        if f0+c*df<0 or t0+a*dt<0: continue
        g=data.BoundingBox(coordinates=[t0+a*dt,f0+c*df,t0+b*dt,f0+d*df])
        for at in [False,True]:
            r=run(rasterize,[g],arr,all_touched=at); tot+=1
            if isinstance(r,str): fails.setdefault(("exc",r[:50]),[]).append((nt,nf,dt,a,b,c,d,at)); continue
            got=r.transpose("time","frequency").data
            exp=np.zeros((nt,nf)); exp[binidx(a,nt):binidx(b,nt), binidx(c,nf):binidx(d,nf)]=1
            if not at and not (got==exp).all(): fails.setdefault(("cells",),[]).append((nt,nf,dt,a,b,c,d,got.tolist(),exp.tolist()))
            if at and (got<exp).any(): fails.setdefault(("at_subset",),[]).append((nt,nf,dt,a,b,c,d))
print("tot",tot)
for k,v in fails.items():
    print(k,len(v))
    for x in v[:5]: print("   ",x)
