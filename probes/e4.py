import itertools, time, warnings
from soundevent import data
from soundevent.evaluation import compute_affinity, match_geometries
from soundevent.geometry import buffer_geometry, compute_bounds
warnings.simplefilter("ignore")
geoms = {
 "ts": data.TimeStamp(coordinates=1.0),
 "ti": data.TimeInterval(coordinates=[1,2]),
 "pt": data.Point(coordinates=[1.5, 1000]),
 "ls": data.LineString(coordinates=[[1,1000],[2,2000]]),
 "pg": data.Polygon(coordinates=[[[1,1000],[2,1000],[2,2000],[1,2000]]]),
 "bb": data.BoundingBox(coordinates=[1,1000,2,2000]),
 "mp": data.MultiPoint(coordinates=[[1,1000],[2,2000]]),
 "ml": data.MultiLineString(coordinates=[[[1,1000],[2,2000]],[[1,3000],[2,2500]]]),
 "mg": data.MultiPolygon(coordinates=[[[[1,1000],[2,1000],[2,2000],[1,2000]]],[[[3,1000],[4,1000],[4,2000]]]]),
}
t=time.time(); n=0
bad=[]
for (a,ga),(b,gb) in itertools.product(geoms.items(), repeat=2):
    x=compute_affinity(ga,gb); y=compute_affinity(gb,ga); n+=2
    if not (0<=x<=1) or abs(x-y)>1e-12: bad.append((a,b,x,y))
print("per affinity ms", (time.time()-t)/n*1000, bad)
for k,g in geoms.items():
    print(k, compute_affinity(g,g), repr(compute_affinity(g,g,time_buffer=0.013, freq_buffer=77)))
# search for >1
import random
random.seed(0)
cnt=0; mx=0
for i in range(3000):
    t0=random.random()*10; f0=random.random()*10000
    g=data.LineString(coordinates=[[t0,f0],[t0+random.random(),f0+random.random()*1000],[t0+1+random.random(),f0+random.random()*1000]])
    a=compute_affinity(g,g, time_buffer=random.random(), freq_buffer=random.random()*100)
    if a>1: cnt+=1; mx=max(mx,a)
print("self-affinity>1:", cnt, mx)
cnt=0
for i in range(3000):
    t0=random.random()*10; f0=random.random()*10000
    g=data.BoundingBox(coordinates=[t0,f0,t0+random.random(),f0+random.random()*1000])
    a=compute_affinity(g,g)
    if a>1 or a<1: cnt+=1; mx=max(mx,a)
print("bbox self !=1:", cnt)
cnt=0
for i in range(3000):
    t0=random.random()*10; f0=random.random()*10000
    g=data.Polygon(coordinates=[[[t0,f0],[t0+random.random(),f0+random.random()*1000],[t0+random.random(),f0+1000+random.random()*1000]]])
    a=compute_affinity(g,g)
    if a>1: cnt+=1; mx=max(mx,a)
print("polygon self >1:", cnt, mx)
# grid coordinates (dyadic)
cnt=0; tot=0
vals=[0,0.5,1,1.5,2]
fv=[0,500,1000,2000]
for t0,t1,f0,f1 in itertools.product(vals,vals,fv,fv):
    if t0>=t1 or f0>=f1: continue
    g=data.BoundingBox(coordinates=[t0,f0,t1,f1])
    for t2,t3,f2,f3 in itertools.product(vals,vals,fv,fv):
        if t2>=t3 or f2>=f3: continue
        h=data.BoundingBox(coordinates=[t2,f2,t3,f3])
        a=compute_affinity(g,h); tot+=1
        from fractions import Fraction as F
        iw=max(0,min(t1,t3)-max(t0,t2)); ih=max(0,min(f1,f3)-max(f0,f2))
        inter=F(iw)*F(ih); uni=F(t1-t0)*F(f1-f0)+F(t3-t2)*F(f3-f2)-inter
        e=float(inter/uni)
        if abs(a-e)>1e-12: cnt+=1
print("bbox grid mismatches", cnt, "of", tot)
print(list(match_geometries([geoms["bb"]],[data.BoundingBox(coordinates=[5,1000,6,2000])])))
print(list(match_geometries([],[geoms["bb"]])), list(match_geometries([],[])))
