import itertools, warnings, math
warnings.simplefilter("ignore")
import numpy as np
from soundevent import data
from soundevent.evaluation import clip_classification, clip_multilabel_classification
rec = data.Recording(path="/a/b.wav", duration=100, channels=1, samplerate=8000)
def ap(y, s):
    # y: list of 0/1, s: scores -> average precision with thresholds at distinct scores
    P=sum(y)
    if P==0: return None
    thr=sorted(set(s), reverse=True); prevR=0; out=0
    for t in thr:
        tp=sum(1 for yi,si in zip(y,s) if si>=t and yi); fp=sum(1 for yi,si in zip(y,s) if si>=t and not yi)
        R=tp/P; Pr=tp/(tp+fp); out+=(R-prevR)*Pr; prevR=R
    return out
grid=[0,.25,.5,1]
def vecs(k,single):
    for v in itertools.product(grid,repeat=k):
        if single and sum(v)>1: continue
        yield v
stats={"acc":[0,0],"bacc":[0,0],"top3":[0,0],"map":[0,0],"tcp":[0,0],"jac":[0,0],"apc":[0,0],"mmap":[0,0],"exc":0}
exc={}
for K in [2,3]:
    T=[data.Tag(term=data.term_from_key("sp"), value=str(i)) for i in range(K)]
    oov=data.Tag(term=data.term_from_key("sp"), value="zz")
    truths=[[]]+[[t] for t in T]+[[oov]]
    for n in [1,2]:
        clips=[data.Clip(recording=rec,start_time=i,end_time=i+1) for i in range(n)]
        for tr in itertools.product(range(len(truths)),repeat=n):
            for sc in itertools.product(list(vecs(K,True)),repeat=n):
                anns=[data.ClipAnnotation(clip=c,tags=truths[i]) for c,i in zip(clips,tr)]
                preds=[data.ClipPrediction(clip=c,tags=[data.PredictedTag(tag=T[j],score=v[j]) for j in range(K) if v[j]>0]) for c,v in zip(clips,sc)]
                try: ev=clip_classification(preds,anns,T)
                except Exception as e:
                    stats["exc"]+=1; exc.setdefault(type(e).__name__+":"+str(e)[:60],[]).append((K,n,tr,sc)); continue
                m={f.term.label:f.value for f in ev.metrics}
                ytrue=[(i-1 if 1<=i<=K else K) for i in tr]
                full=[list(v)+[1-sum(v)] for v in sc]
                uniq=all(sorted(v)[-1]>sorted(v)[-2] for v in full)
                if uniq:
                    pred=[int(np.argmax(v)) for v in full]
                    acc=sum(p==y for p,y in zip(pred,ytrue))/n
                    stats["acc"][0]+=1; stats["acc"][1]+= abs(acc-m["Accuracy"])>1e-9
                    cls=sorted(set(ytrue)); bacc=sum(sum(p==y for p,y in zip(pred,ytrue) if y==c)/sum(1 for y in ytrue if y==c) for c in cls)/len(cls)
                    stats["bacc"][0]+=1; stats["bacc"][1]+= abs(bacc-m["Balanced Accuracy"])>1e-9
                for ce,y,v in zip(ev.clip_evaluations,ytrue,full):
                    mm={f.term.label:f.value for f in ce.metrics}
                    stats["tcp"][0]+=1; stats["tcp"][1]+= abs(mm["True Class Probability"]-np.float32(v[y]))>1e-6
if True:
    K=3
    T=[data.Tag(term=data.term_from_key("sp"), value=str(i)) for i in range(K)]
    n=2
    clips=[data.Clip(recording=rec,start_time=i,end_time=i+1) for i in range(n)]
    subsets=[[],[0],[1],[0,1],[2],[0,1,2]]
    for tr in itertools.product(subsets,repeat=n):
        for sc in itertools.product(list(vecs(K,False))[::3],repeat=n):
            anns=[data.ClipAnnotation(clip=c,tags=[T[j] for j in s]) for c,s in zip(clips,tr)]
            preds=[data.ClipPrediction(clip=c,tags=[data.PredictedTag(tag=T[j],score=v[j]) for j in range(K) if v[j]>0]) for c,v in zip(clips,sc)]
            try: ev=clip_multilabel_classification(preds,anns,T)
            except Exception as e:
                stats["exc"]+=1; exc.setdefault("ML "+type(e).__name__+":"+str(e)[:60],[]).append((tr,sc)); continue
            m={f.term.label:f.value for f in ev.metrics}
            aps=[ap([int(j in s) for s in tr],[v[j] for v in sc]) for j in range(K)]
            if all(a is not None for a in aps):
                stats["mmap"][0]+=1; stats["mmap"][1]+= abs(sum(aps)/K-m["Mean Average Precision"])>1e-6
            for ce,s,v in zip(ev.clip_evaluations,tr,sc):
                mm={f.term.label:f.value for f in ce.metrics}
                pr={j for j in range(K) if np.float32(v[j])>0.5}; S=set(s)
                if pr|S:
                    stats["jac"][0]+=1; stats["jac"][1]+= abs(len(pr&S)/len(pr|S)-mm["Jaccard Index"])>1e-9
                a=ap([int(j in S) for j in range(K)],list(v))
                if a is not None:
                    stats["apc"][0]+=1; stats["apc"][1]+= abs(a-mm["Average Precision"])>1e-6
                if not (0<=ce.score<=1): print("score range",ce.score)
print(stats)
for k,v in exc.items(): print(k,len(v),v[:2])
