import json, re, warnings, uuid as _uuid
warnings.simplefilter("ignore")
exec(open("e2.py").read().split("for k,o in objs.items()")[0])
UUID_RE=re.compile(r"^[0-9a-f]{8}-[0-9a-f]{4}-[0-9a-f]{4}-[0-9a-f]{4}-[0-9a-f]{12}$")
LISTS=["users","recordings","clips","sound_events","sequences","sound_event_annotations","sequence_annotations","clip_annotations","sound_event_predictions","sequence_predictions","clip_predictions","matches","clip_evaluations","tasks"]
def sweep(doc):
    dat=doc["data"]; defined={}
    for l in LISTS:
        for o in dat.get(l) or []:
            defined.setdefault(o["uuid"],[]).append(l)
    inline=set()  # inline definitions (notes) 
    refs=[]
    def walk(x,path,key=None):
        if isinstance(x,dict):
            for k,v in x.items(): walk(v,path+"."+k,k)
        elif isinstance(x,list):
            for i,v in enumerate(x): walk(v,path+f"[{i}]",key)
        elif isinstance(x,str) and UUID_RE.match(x):
            if key=="uuid": 
                if not any(path.startswith(".data."+l+"[") and path.count(".")==2 for l in LISTS) and path!=".data.uuid": inline.add(x)
            else: refs.append((path,x))
    walk(doc,"")
    dup={u:l for u,l in defined.items() if len(l)>1}
    dangling=[(p,u) for p,u in refs if u not in defined]
    tagids={t["id"] for t in dat.get("tags") or []}
    return dup,dangling,len(refs),len(defined),len(inline)
for k,o in objs.items():
    p=d/f"{k}.json"; io.save(o,p); doc=json.loads(p.read_text())
    print(k, sweep(doc))
