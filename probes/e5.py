import itertools, time, warnings, shapely
from soundevent import data
from soundevent.geometry import buffer_geometry, compute_bounds, geometry_to_shapely
warnings.simplefilter("ignore")
M=data.MAX_FREQUENCY
geoms = {
 "pt0": data.Point(coordinates=[0, 0]),
 "ptM": data.Point(coordinates=[1, M]),
 "pt": data.Point(coordinates=[1.5, 1000]),
 "ls": data.LineString(coordinates=[[1,1000],[2,2000]]),
 "ls0": data.LineString(coordinates=[[0,0],[2,M]]),
 "pg": data.Polygon(coordinates=[[[1,1000],[2,1000],[2,2000],[1,2000]]]),
 "pgh": data.Polygon(coordinates=[[[1,1000],[3,1000],[3,3000],[1,3000]],[[1.5,1500],[2.5,1500],[2.5,2500],[1.5,2500]]]),
 "mp": data.MultiPoint(coordinates=[[1,1000],[2,2000]]),
 "ml": data.MultiLineString(coordinates=[[[1,1000],[2,2000]],[[1,3000],[2,2500]]]),
 "mg": data.MultiPolygon(coordinates=[[[[1,1000],[2,1000],[2,2000],[1,2000]]],[[[3,1000],[4,1000],[4,2000]]]]),
}
def tryb(g,tb,fb):
    try:
        r=buffer_geometry(g,tb,fb); return r
    except Exception as e: return f"{type(e).__name__}: {str(e)[:100]}"
for k,g in geoms.items():
    for tb,fb in [(0,0),(0.5,0),(0,100),(0.5,100),(5,1e7),(1e-3,1)]:
        r=tryb(g,tb,fb)
        if isinstance(r,str): print(k,tb,fb,r); continue
        b0=compute_bounds(g); b1=compute_bounds(r)
        s0=geometry_to_shapely(g); s1=geometry_to_shapely(r)
        cont = s1.buffer(1e-9).contains(s0) if not s1.is_empty else False
        exp=(max(b0[0]-tb,0),max(b0[1]-fb,0),b0[2]+tb,min(b0[3]+fb,M))
        okb = b1[0]<=exp[0]+1e-9 and b1[1]<=exp[1]+1e-6 and b1[2]>=exp[2]-1e-9 and b1[3]>=exp[3]-1e-6
        print(k,tb,fb,r.type,"contains",s1.covers(s0),cont,"bounds_ok",okb, [round(x,4) for x in b1])
t=time.time()
for i in range(200): buffer_geometry(geoms["mg"],0.5,100)
print("ms per buffer", (time.time()-t)/200*1000)
print(tryb(data.TimeStamp(coordinates=1),-1,0))
print(tryb(data.TimeStamp(coordinates=1),2,0))
print(tryb(data.BoundingBox(coordinates=[1,10,2,M]),2,100))
