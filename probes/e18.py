import itertools, warnings
warnings.simplefilter("ignore")
from collections import Counter
from soundevent import data
from soundevent.evaluation import compute_affinity, match_geometries
from soundevent.geometry import buffer_geometry, compute_bounds
M=data.MAX_FREQUENCY
def shift(g,dt):
    c=g.coordinates
    def sh(x):
        if isinstance(x,(int,float)): return x
        if isinstance(x[0],(int,float)): return [x[0]+dt,x[1]]
        return [sh(y) for y in x]
    if g.type=="TimeStamp": return data.TimeStamp(coordinates=c+dt)
    if g.type=="TimeInterval": return data.TimeInterval(coordinates=[c[0]+dt,c[1]+dt])
    if g.type=="BoundingBox": return data.BoundingBox(coordinates=[c[0]+dt,c[1],c[2]+dt,c[3]])
    return type(g)(coordinates=sh(c))
pool=[]
for t in [1,1.5,3]:
    pool+=[data.TimeStamp(coordinates=t), data.TimeInterval(coordinates=[t,t+1]), data.Point(coordinates=[t,1000]),
      data.LineString(coordinates=[[t,1000],[t+1,2000]]), data.Polygon(coordinates=[[[t,1000],[t+1,1000],[t+1,2000]]]),
      data.BoundingBox(coordinates=[t,1000,t+1,2000]), data.MultiPoint(coordinates=[[t,1000],[t+0.5,1500]]),
      data.MultiLineString(coordinates=[[[t,1000],[t+1,2000]],[[t,3000],[t+1,2500]]]),
      data.MultiPolygon(coordinates=[[[[t,1000],[t+1,1000],[t+1,2000]]],[[[t,3000],[t+0.5,3000],[t+0.5,4000]]]])]
TIME={"TimeStamp","TimeInterval"}; BUF={"TimeStamp","Point","MultiPoint","LineString","MultiLineString"}
def ext(g,tb,fb):
    if g.type in BUF: g=buffer_geometry(g,tb,fb)
    b=compute_bounds(g); return b[0],b[2]
c=Counter(); ex={}
for (tb,fb) in [(0.01,100),(0.0078125,1),(0.5,100)]:
    for g,h in itertools.product(pool,pool):
        a=compute_affinity(g,h,tb,fb); b=compute_affinity(h,g,tb,fb)
        c["n"]+=1
        if not 0<=a<=1: c["range"]+=1
        if abs(a-b)>1e-9: c["sym"]+=1; ex.setdefault("sym",[]).append((g.type,h.type,a,b))
        e1=ext(g,tb,fb); e2=ext(h,tb,fb)
        if min(e1[1],e2[1])<max(e1[0],e2[0]) and a!=0: c["disjoint_nonzero"]+=1; ex.setdefault("dis",[]).append((g,h,a))
        if g.type in TIME or h.type in TIME:
            inter=max(0,min(e1[1],e2[1])-max(e1[0],e2[0])); uni=(e1[1]-e1[0])+(e2[1]-e2[0])-inter
            exp=inter/uni if uni else 0
            c["time_n"]+=1
            if abs(a-exp)>1e-9: c["time_bad"]+=1; ex.setdefault("time",[]).append((g.type,h.type,a,exp))
        a2=compute_affinity(shift(g,2.5),shift(h,2.5),tb,fb)
        if abs(a-a2)>1e-9: c["shift"]+=1; ex.setdefault("shift",[]).append((g.type,h.type,a,a2,tb,fb))
print(c)
for k,v in ex.items(): print(k,len(v),v[:4])
