import itertools, warnings
warnings.simplefilter("ignore")
from collections import Counter
from soundevent import data
from soundevent.evaluation import compute_affinity, match_geometries
bb=lambda a,b,c,d: data.BoundingBox(coordinates=[a,c,b,d])
pool=[bb(0,2,0,1000), bb(1,3,0,1000), bb(2,4,0,1000), bb(0,2,0,1000), data.TimeInterval(coordinates=[1,2]), bb(8,9,0,1000)]
A={(i,j):compute_affinity(pool[i],pool[j]) for i in range(6) for j in range(6)}
def best(src,tgt):
    n,m=len(src),len(tgt); bestv=0
    # all partial injective maps
    def rec(i,used,tot):
        nonlocal bestv
        if i==n: bestv=max(bestv,tot); return
        rec(i+1,used,tot)
        for j in range(m):
            if j not in used: rec(i+1,used|{j},tot+A[(src[i],tgt[j])])
    rec(0,frozenset(),0); return bestv
c=Counter()
for n,m in itertools.product(range(3),range(4)):
    for src in itertools.product(range(6),repeat=n):
        for tgt in itertools.product(range(6),repeat=m):
            r=list(match_geometries([pool[i] for i in src],[pool[j] for j in tgt])); c["n"]+=1
            s=[x[0] for x in r if x[0] is not None]; t=[x[1] for x in r if x[1] is not None]
            if sorted(s)!=list(range(n)) or sorted(t)!=list(range(m)): c["cover"]+=1
            tot=0
            for i,j,a in r:
                if i is not None and j is not None:
                    if a!=A[(src[i],tgt[j])]: c["affval"]+=1
                    if a<=0: c["zero_pair"]+=1
                    tot+=a
                elif a!=0: c["unpaired_nonzero"]+=1
            if abs(tot-best(src,tgt))>1e-12: c["subopt"]+=1
print(c)
