import itertools, warnings
warnings.simplefilter("ignore")
from fractions import Fraction as F
from collections import Counter
import numpy as np
from soundevent import data
from soundevent.geometry import intervals_overlap, is_in_clip
from soundevent.geometry.operations import have_temporal_overlap
from soundevent.evaluation import create_tag_encoder, classification_encoding, multilabel_encoding, prediction_encoding
c=Counter()
ivs=[(a,b) for a in range(5) for b in range(5) if a<=b]
def model(i1,i2,ab,rel):
    ov=F(min(i1[1],i2[1]))-F(max(i1[0],i2[0]))
    th=F(0)
    if ab is not None: th=F(ab)
    if rel is not None: th=F(rel)*min(F(i1[1]-i1[0]),F(i2[1]-i2[0]))
    return ov>=th
for i1,i2 in itertools.product(ivs,ivs):
    for ab,rel in [(None,None)]+[(x,None) for x in (0,.5,1,2,5)]+[(None,x) for x in (0,.25,.5,1)]:
        c["n"]+=1
        r=intervals_overlap(i1,i2,min_absolute_overlap=ab,min_relative_overlap=rel)
        if bool(r)!=model(i1,i2,ab,rel): c["bad"]+=1
        if bool(r)!=bool(intervals_overlap(i2,i1,min_absolute_overlap=ab,min_relative_overlap=rel)): c["asym"]+=1
    for ab,rel in [(1,.5),(None,-.125),(None,1.125)]:
        try: intervals_overlap(i1,i2,min_absolute_overlap=ab,min_relative_overlap=rel); c["noraise"]+=1
        except ValueError: pass
rec = data.Recording(path="/a/b.wav", duration=100, channels=1, samplerate=8000)
for cs,ce in [(0,2),(2,4),(0,4)]:
    clip=data.Clip(recording=rec,start_time=cs,end_time=ce)
    for a,b in ivs:
        for m in (0,.5,1,3):
            for g in ([data.TimeStamp(coordinates=a)] if a==b else [])+[data.TimeInterval(coordinates=[a,b]), data.BoundingBox(coordinates=[a,0,b,1000])]:
                c["clipn"]+=1
                if is_in_clip(g,clip,m)!=(b>cs+m and a<ce-m): c["clipbad"]+=1
    try: is_in_clip(data.TimeStamp(coordinates=1),clip,-.5); c["neg_noraise"]+=1
    except ValueError: pass
# C19
tA=data.Term(label="a",name="n:a",definition="d"); tA2=data.Term(label="a2",name="n:a",definition="d"); tA3=data.Term(label="a",name="n:b",definition="d")
U=[data.Tag(term=tA,value="x"),data.Tag(term=tA,value="y"),data.Tag(term=tA2,value="x"),data.Tag(term=tA3,value="x"),data.Tag(term=data.Term(label="a",name="n:a",definition="d"),value="x")]
for k in range(0,5):
    for vocab in itertools.permutations(range(4),k):
        V=[U[i] for i in vocab]; enc=create_tag_encoder(V)
        for t in U:
            c["encn"]+=1
            e=enc.encode(t); exp=next((i for i,v in enumerate(V) if v==t),None)
            if e!=exp: c["encbad"]+=1
        for L in range(0,4):
            for lst in itertools.product(range(5),repeat=L):
                tags=[U[i] for i in lst]
                exp=next((next(i for i,v in enumerate(V) if v==t) for t in tags if any(v==t for v in V)),None)
                if classification_encoding(tags,enc)!=exp: c["clsbad"]+=1
                ml=multilabel_encoding(tags,enc); expml=[int(any(v==t for t in tags)) for v in V]
                if list(ml)!=expml: c["mlbad"]+=1
                c["lists"]+=1
print(c)
