import itertools, time, warnings, tempfile, pathlib
import numpy as np, soundfile as sf
from soundevent import data, audio
warnings.simplefilter("ignore")
d=pathlib.Path(tempfile.mkdtemp())
def mk(sr, n, ch, te=1.0):
    p=d/f"a_{sr}_{n}_{ch}.wav"
    x=(np.arange(n*ch).reshape(n,ch)%2000-1000)/2048.0
    sf.write(p, x, sr, subtype="PCM_16")
    rec=data.Recording(path=p, duration=n/sr/te, channels=ch, samplerate=int(sr*te), time_expansion=te)
    return rec, x
def run(f,*a):
    try: return f(*a)
    except Exception as e: return f"{type(e).__name__}: {str(e)[:150]}"
for sr,n,ch,te in [(8000,8000,1,1.0),(44100,4410,2,1.0),(8000,8000,1,10.0),(22050,1000,1,1.0),(3,10,1,1.0)]:
    rec,x=mk(sr,n,ch,te)
    full=run(audio.load_recording, rec)
    print(sr,n,ch,te,"full:", full if isinstance(full,str) else (full.shape, full.time.data[:2], full.time.attrs.get("step")))
    dur=rec.duration
    for s,e in [(0,dur),(0.1*dur,0.3*dur),(0.5*dur,1.5*dur),(1.2*dur,1.5*dur),(dur/3,dur/3+dur/7),(0.00001,0.00002)]:
        clip=data.Clip(recording=rec,start_time=s,end_time=e)
        w=run(audio.load_clip, clip)
        if isinstance(w,str): print("   ",s,e,w); continue
        srr=rec.samplerate
        off=int(np.floor(s*srr)); cnt=int(np.floor((e-s)*srr))
        exp=np.zeros((cnt,ch)); avail=x[off:off+cnt]; exp[:len(avail)]=avail
        ok=w.shape==(cnt,ch) and np.allclose(w.data,exp,atol=1e-3)
        tt=w.time.data
        tok = len(tt)==cnt and (cnt==0 or np.allclose(tt, (off+np.arange(cnt))/srr, atol=1e-9))
        print("   ",round(s,5),round(e,5),"shape",w.shape,"exp",cnt,"data_ok",ok,"time_ok",tok)
