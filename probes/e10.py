import time, warnings
warnings.simplefilter("ignore")
import crowsetta
from soundevent import data
from soundevent.io import crowsetta as cr
def run(f,*a,**k):
    try: return f(*a,**k)
    except Exception as e: return f"{type(e).__name__}: {str(e)[:120]}"
T=data.Tag(term=data.term_from_key("k"), value="v")
term=data.term_from_key("explicit")
print(cr.label_to_tags("a", term=term, tag_mapping={"a":T}))
print(cr.label_to_tags("a", key="kk", key_mapping={"b":"zz"}))
print(cr.label_to_tags("a", key="kk", key_mapping={"a":"zz"}))
print(cr.label_to_tags("a", term_mapping={"a":term}, tag_mapping={"a":T}))
print(cr.label_to_tags("__empty__", tag_fn=lambda l: T))
rec=data.Recording(path="/a.wav",duration=10,channels=1,samplerate=8000,time_expansion=1)
rec10=data.Recording(path="/a.wav",duration=1,channels=1,samplerate=80000,time_expansion=10)
seg=crowsetta.Segment.from_keyword(label="a",onset_s=1.0,offset_s=2.0)
print(run(cr.segment_to_annotation, seg, rec10).sound_event.geometry)
seg=crowsetta.Segment.from_keyword(label="a",onset_sample=8000,offset_sample=16000)
print(run(cr.segment_to_annotation, seg, rec10).sound_event.geometry, run(cr.segment_to_annotation, seg, rec10, adjust_time_expansion=False).sound_event.geometry)
print(run(crowsetta.Segment.from_keyword,label="a",onset_s=1.0,offset_sample=16000))
bb=crowsetta.BBox(onset=1.0,offset=2.0,low_freq=100.,high_freq=200.,label="x")
print(run(cr.bbox_to_annotation,bb,rec10).sound_event.geometry)
a=run(cr.bbox_to_annotation,bb,rec, ) 
print(run(cr.bbox_from_annotation,a))
a2=data.SoundEventAnnotation(sound_event=data.SoundEvent(recording=rec,geometry=data.BoundingBox(coordinates=[1,5000,2,6000])),tags=[T])
print(run(cr.bbox_from_annotation,a2))
a3=data.SoundEventAnnotation(sound_event=data.SoundEvent(recording=rec,geometry=data.TimeStamp(coordinates=1.00007)),tags=[T])
print(run(cr.segment_from_annotation,a3), run(cr.bbox_from_annotation,a3), run(cr.bbox_from_annotation,a3,raise_on_time_geometries=False))
t=time.time()
for i in range(300): cr.segment_from_annotation(a3); 
print("ms seg", (time.time()-t)/300*1000)
t=time.time()
for i in range(300): cr.bbox_to_annotation(bb,rec)
print("ms bbox_to", (time.time()-t)/300*1000)
print(run(crowsetta.Sequence.from_segments, []))
