import itertools, warnings
warnings.simplefilter("ignore")
from collections import Counter
from soundevent import data
from soundevent.io.crowsetta import label_to_tags, label_from_tags, label_from_tag
tk=lambda k: data.term_from_key(k)
TAGA=data.Tag(term=tk("mapped"), value="A"); TAGB=data.Tag(term=tk("mapped2"), value="B")
FN_TAG=data.Tag(term=tk("fn"), value="F")
def model(label, o):
    empties=o["empty_labels"] if o["empty_labels"] is not None else ("__empty__",)
    if label in empties: return []
    if o["tag_fn"]=="tag": return [FN_TAG]
    if o["tag_fn"]=="list": return [FN_TAG,TAGB]
    # raises -> continue
    if o["term_mapping"]=="hit": return [data.Tag(term=tk("tm"), value=label)]
    if o["tag_mapping"]=="hit_tag": return [TAGA]
    if o["tag_mapping"]=="hit_list": return [TAGA,TAGB]
    if o["term"]: return [data.Tag(term=tk("explicit"), value=label)]   # explicit term
    if o["key_mapping"]=="hit": return [data.Tag(term=tk("km"), value=label)]
    if o["key"]: return [data.Tag(term=tk("kk"), value=label)]
    return [data.Tag(term=tk(o["fallback"] or "crowsetta"), value=label)]
def call(label,o):
    kw={}
    if o["empty_labels"] is not None: kw["empty_labels"]=o["empty_labels"]
    if o["tag_fn"]=="tag": kw["tag_fn"]=lambda l: FN_TAG
    if o["tag_fn"]=="list": kw["tag_fn"]=lambda l: [FN_TAG,TAGB]
    if o["tag_fn"]=="raise":
        def f(l): raise ValueError("no")
        kw["tag_fn"]=f
    if o["term_mapping"]: kw["term_mapping"]={label: tk("tm")} if o["term_mapping"]=="hit" else {"other": tk("tm")}
    if o["tag_mapping"]=="hit_tag": kw["tag_mapping"]={label: TAGA}
    if o["tag_mapping"]=="hit_list": kw["tag_mapping"]={label: [TAGA,TAGB]}
    if o["tag_mapping"]=="miss": kw["tag_mapping"]={"other": TAGA}
    if o["key_mapping"]: kw["key_mapping"]={label:"km"} if o["key_mapping"]=="hit" else {"other":"km"}
    if o["key"]: kw["key"]="kk"
    if o["term"]: kw["term"]=tk("explicit")
    if o["fallback"]: kw["fallback"]=o["fallback"]
    return label_to_tags(label, **kw)
axes={"empty_labels":[None,("x","a")],"tag_fn":[None,"tag","list","raise"],"term_mapping":[None,"hit","miss"],"tag_mapping":[None,"hit_tag","hit_list","miss"],
      "key_mapping":[None,"hit","miss"],"key":[False,True],"term":[False,True],"fallback":[None,"fb"]}
c=Counter(); bad=Counter()
for vals in itertools.product(*axes.values()):
    o=dict(zip(axes,vals))
    for label in ["a","__empty__","b"]:
        c["n"]+=1
        try: got=call(label,o)
        except Exception as e: bad[("exc",type(e).__name__)]+=1; continue
        exp=model(label,o)
        if got!=exp:
            key=tuple(k for k in ("term_mapping","tag_mapping","key_mapping","key","term") if o[k] and o[k]!="miss")+tuple(k+"=miss" for k in ("key_mapping",) if o[k]=="miss")
            bad[key]+=1
print(c); 
for k,v in sorted(bad.items(), key=str): print(k,v)
