import itertools, time, warnings
from soundevent import data, operations
from soundevent.geometry import group_sound_events
warnings.simplefilter("ignore")
rec = data.Recording(path="/a/b.wav", duration=100, channels=1, samplerate=8000)
try:
    print("empty:", group_sound_events([], lambda a,b: True))
except Exception as e: print("empty raises", type(e).__name__, e)
ses=[data.SoundEvent(recording=rec, geometry=data.TimeStamp(coordinates=i)) for i in range(4)]
idx={s.uuid:i for i,s in enumerate(ses)}
calls=[]
def cmp(a,b):
    calls.append((idx[a.uuid],idx[b.uuid])); return (idx[a.uuid],idx[b.uuid]) in {(0,2),(2,3)}
r=group_sound_events(ses,cmp)
print([[idx[s.uuid] for s in q.sound_events] for q in r], calls)
t=time.time()
for i in range(200): group_sound_events(ses,cmp)
print("ms per group", (time.time()-t)/200*1000)
# segment_clip
clip=data.Clip(recording=rec,start_time=0,end_time=10)
for dur,hop,inc in [(3,3,True),(3,3,False),(2,3,False),(2,3,True),(4,3,True),(3,None,True),(20,20,True),(20,20,False),(2.5,2.5,False)]:
    print(dur,hop,inc,[(c.start_time,c.end_time) for c in operations.segment_clip(clip,dur,hop,inc)])
