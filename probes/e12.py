import json, tempfile, pathlib, datetime, uuid, warnings, itertools, copy
from soundevent import data, io
warnings.simplefilter("ignore")
d = pathlib.Path(tempfile.mkdtemp())
NS=uuid.UUID(int=7)
def U(n): return uuid.uuid5(NS,n)
DT=datetime.datetime(2020,1,2,3,4,5,678)
def diff(a, b, path=""):
    out=[]
    if type(a)!=type(b): return [f"{path}: type {type(a).__name__} vs {type(b).__name__}"]
    if hasattr(a, "model_fields"):
        for f in type(a).model_fields:
            out += diff(getattr(a,f), getattr(b,f), path+"."+f)
        return out
    if isinstance(a,(list,tuple)):
        if len(a)!=len(b): return [f"{path}: len {len(a)} vs {len(b)}"]
        for i,(x,y) in enumerate(zip(a,b)): out+=diff(x,y,f"{path}[{i}]")
        return out
    if a!=b: return [f"{path}: {a!r} vs {b!r}"]
    return []
def term(l): return data.term_from_key(l)
def mk(**on):
    """minimal graph with optional switches"""
    g=lambda k: on.get(k)
    u=data.User(uuid=U("u"), name="n" if g("user.name") else None, email="a@b.co" if g("user.email") else None, username="x" if g("user.username") else None, institution="i" if g("user.institution") else None)
    tag=data.Tag(term=term("k"), value="v"); tag2=data.Tag(term=term("k2"), value="v2")
    feat=[data.Feature(term=term("f"), value=1.5)]
    note=data.Note(uuid=U("note"), message="m", created_on=DT, created_by=u if g("note.created_by") else None, is_issue=bool(g("note.is_issue")))
    rec=data.Recording(uuid=U("r"), path="/a/b.wav", duration=10, channels=1, samplerate=8000,
        time_expansion=2.0 if g("rec.te") else 1.0, hash="h" if g("rec.hash") else None, date=datetime.date(2020,1,1) if g("rec.date") else None,
        time=datetime.time(1,2,3) if g("rec.time") else None, latitude=1.5 if g("rec.lat") else None, longitude=2.5 if g("rec.lon") else None,
        rights="r" if g("rec.rights") else None, owners=[u] if g("rec.owners") else [], tags=[tag] if g("rec.tags") else [], features=feat if g("rec.features") else [], notes=[note] if g("rec.notes") else [])
    rec2=data.Recording(uuid=U("r2"), path="/a/c.wav", duration=10, channels=1, samplerate=8000)
    clip=data.Clip(uuid=U("c"), recording=rec, start_time=0, end_time=5, features=feat if g("clip.features") else [])
    geom=g("geom")
    se=data.SoundEvent(uuid=U("se"), recording=rec2 if g("se.foreign") else rec, geometry=geom, features=feat if g("se.features") else [])
    seqp=data.Sequence(uuid=U("seqp"), sound_events=[se])
    seq=data.Sequence(uuid=U("seq"), sound_events=[se] if g("seq.se") else [], parent=seqp if g("seq.parent") else None, features=feat if g("seq.features") else [])
    sea=data.SoundEventAnnotation(uuid=U("sea"), sound_event=se, created_on=DT, tags=[tag] if g("sea.tags") else [], notes=[note] if g("sea.notes") else [], created_by=u if g("sea.created_by") else None)
    sqa=data.SequenceAnnotation(uuid=U("sqa"), sequence=seq, created_on=DT, tags=[tag] if g("sqa.tags") else [], notes=[note] if g("sqa.notes") else [], created_by=u if g("sqa.created_by") else None)
    ca=data.ClipAnnotation(uuid=U("ca"), clip=clip, created_on=DT, sound_events=[sea] if g("ca.se") else [], sequences=[sqa] if g("ca.seq") else [], tags=[tag] if g("ca.tags") else [], notes=[note] if g("ca.notes") else [])
    pt=[data.PredictedTag(tag=tag2, score=.25)]
    sep=data.SoundEventPrediction(uuid=U("sep"), sound_event=se, score=.5 if g("sep.score") else 1, tags=pt if g("sep.tags") else [])
    sqp=data.SequencePrediction(uuid=U("sqp"), sequence=seq, score=.5 if g("sqp.score") else 1, tags=pt if g("sqp.tags") else [])
    cp=data.ClipPrediction(uuid=U("cp"), clip=clip, sound_events=[sep] if g("cp.se") else [], sequences=[sqp] if g("cp.seq") else [], tags=pt if g("cp.tags") else [], features=feat if g("cp.features") else [])
    ms=[]
    if g("ca.se") and g("cp.se"): ms=[data.Match(uuid=U("m"), source=sep, target=sea, affinity=.5 if g("m.aff") else 0, score=.25 if g("m.score") else None, metrics=feat if g("m.metrics") else [])]
    elif g("ca.se"): ms=[data.Match(uuid=U("m"), target=sea)]
    elif g("cp.se"): ms=[data.Match(uuid=U("m"), source=sep)]
    ce=data.ClipEvaluation(uuid=U("ce"), annotations=ca, predictions=cp, matches=ms, metrics=feat if g("ce.metrics") else [], score=.5 if g("ce.score") else None)
    task=data.AnnotationTask(uuid=U("t"), clip=clip, created_on=DT, status_badges=[data.StatusBadge(state="completed", created_on=DT, owner=u if g("badge.owner") else None)] if g("task.badges") else [])
    e=bool(g("empty"))
    return {
     "recording_set": data.RecordingSet(uuid=U("col"), created_on=DT, recordings=[] if e else [rec]),
     "dataset": data.Dataset(uuid=U("col"), created_on=DT, name="d", description="x" if g("col.desc") else None, recordings=[] if e else [rec]),
     "annotation_set": data.AnnotationSet(uuid=U("col"), created_on=DT, clip_annotations=[] if e else [ca]),
     "annotation_project": data.AnnotationProject(uuid=U("col"), created_on=DT, name="p", description="x" if g("col.desc") else None, instructions="i" if g("col.instr") else None, clip_annotations=[] if e else [ca], tasks=[] if e else [task], annotation_tags=[tag2] if g("col.tags") else []),
     "evaluation_set": data.EvaluationSet(uuid=U("col"), created_on=DT, name="p", description="x" if g("col.desc") else None, clip_annotations=[] if e else [ca], evaluation_tags=[tag2] if g("col.tags") else []),
     "prediction_set": data.PredictionSet(uuid=U("col"), created_on=DT, clip_predictions=[] if e else [cp]),
     "model_run": data.ModelRun(uuid=U("col"), created_on=DT, name="m", version="1" if g("col.ver") else None, description="x" if g("col.desc") else None, clip_predictions=[] if e else [cp]),
     "evaluation": data.Evaluation(uuid=U("col"), created_on=DT, evaluation_task="t", clip_evaluations=[] if e else [ce], metrics=feat if g("col.metrics") else [], score=.5 if g("col.score") else None),
    }
switches=["empty","user.name","user.email","user.username","user.institution","note.created_by","note.is_issue","rec.te","rec.hash","rec.date","rec.time","rec.lat","rec.lon","rec.rights","rec.owners","rec.tags","rec.features","rec.notes","clip.features","se.foreign","se.features","seq.se","seq.parent","seq.features","sea.tags","sea.notes","sea.created_by","sqa.tags","sqa.notes","sqa.created_by","ca.se","ca.seq","ca.tags","ca.notes","sep.score","sep.tags","sqp.score","sqp.tags","cp.se","cp.seq","cp.tags","cp.features","m.aff","m.score","m.metrics","ce.metrics","ce.score","task.badges","badge.owner","col.desc","col.instr","col.tags","col.ver","col.metrics","col.score"]
geoms=[None, data.TimeStamp(coordinates=1), data.TimeInterval(coordinates=[1,2]), data.Point(coordinates=[1,2]), data.LineString(coordinates=[[1,2],[2,3]]), data.Polygon(coordinates=[[[1,2],[2,3],[2,2]]]), data.BoundingBox(coordinates=[1,2,3,4]), data.MultiPoint(coordinates=[[1,2]]), data.MultiLineString(coordinates=[[[1,2],[2,3]]]), data.MultiPolygon(coordinates=[[[[1,2],[2,3],[2,2]]]])]
fails={}
n=0
def check(on, label):
    global n
    try: objs=mk(**on)
    except Exception as e:
        fails.setdefault(("BUILD",type(e).__name__,str(e)[:60]),[]).append(label); return
    for k,o in objs.items():
        n+=1
        p=d/"x.json"
        try:
            io.save(o,p); o2=io.load(p)
        except Exception as e:
            fails.setdefault((k,"EXC",type(e).__name__+":"+str(e)[:80]),[]).append(label); continue
        df=diff(o,o2)
        if df: fails.setdefault((k,)+tuple(x.split(":")[0] for x in df[:2]),[]).append(label)
import itertools
for k in range(0,3):
    for combo in itertools.combinations(switches,k):
        on={s:True for s in combo}
        check(on, combo)
for gm in geoms:
    for base in [("ca.se",),("cp.se",),("ca.se","cp.se"),("ca.seq","seq.se"),("cp.seq","seq.se","seq.parent")]:
        on={s:True for s in base}; on["geom"]=gm; check(on, base+(gm.type if gm else None,))
print("cases",n)
for k,v in sorted(fails.items(), key=lambda kv: str(kv[0])):
    print(k, len(v), v[:3])
