import time, json, tempfile, pathlib, datetime, uuid, warnings
from soundevent import data, io
warnings.simplefilter("ignore")
d = pathlib.Path(tempfile.mkdtemp())
def diff(a, b, path=""):
    out=[]
    if type(a)!=type(b): return [f"{path}: type {type(a).__name__} vs {type(b).__name__}"]
    if hasattr(a, "model_fields"):
        for f in type(a).model_fields:
            out += diff(getattr(a,f), getattr(b,f), path+"."+f)
        return out
    if isinstance(a,(list,tuple)):
        if len(a)!=len(b): return [f"{path}: len {len(a)} vs {len(b)}"]
        for i,(x,y) in enumerate(zip(a,b)): out+=diff(x,y,f"{path}[{i}]")
        return out
    if a!=b: return [f"{path}: {a!r} vs {b!r}"]
    return []
u = data.User(name="u", email="a@b.co", username="uu", institution="i")
u2 = data.User(name="u2")
rec = data.Recording(path="/a/b.wav", duration=10, channels=1, samplerate=8000, rights="r", time_expansion=2.0, hash="h",
   date=datetime.date(2020,1,2), time=datetime.time(1,2,3), latitude=1.5, longitude=-2.5, owners=[u2],
   tags=[data.Tag(term=data.term_from_key("site"), value="s")], features=[data.Feature(term=data.term_from_key("f"), value=1.5)],
   notes=[data.Note(message="n", created_by=u, is_issue=True)])
rec2 = data.Recording(path="/a/c.wav", duration=10, channels=2, samplerate=8000)
se = data.SoundEvent(recording=rec, geometry=data.TimeInterval(coordinates=[1,2]), features=[data.Feature(term=data.term_from_key("f"), value=1.5)])
se2 = data.SoundEvent(recording=rec2, geometry=None)
seqp = data.Sequence(sound_events=[se2])
seq = data.Sequence(sound_events=[se, se2], parent=seqp, features=[data.Feature(term=data.term_from_key("g"), value=2)])
t1 = data.Tag(term=data.term_from_key("a"), value="x")
t2 = data.Tag(term=data.term_from_key("b"), value="y")
clip = data.Clip(recording=rec, start_time=0, end_time=5, features=[data.Feature(term=data.term_from_key("g"), value=2)])
sea = data.SoundEventAnnotation(sound_event=se, tags=[t1], notes=[data.Note(message="m")], created_by=u)
sea2 = data.SoundEventAnnotation(sound_event=se2)
sqa = data.SequenceAnnotation(sequence=seq, tags=[t2], notes=[data.Note(message="q", created_by=u2)], created_by=u2)
ca = data.ClipAnnotation(clip=clip, sound_events=[sea, sea2], sequences=[sqa], tags=[t2], notes=[data.Note(message="z")])
sep = data.SoundEventPrediction(sound_event=se, score=.5, tags=[data.PredictedTag(tag=t1, score=.3)])
sep2 = data.SoundEventPrediction(sound_event=se2, score=.25)
sqp = data.SequencePrediction(sequence=seq, score=.4, tags=[data.PredictedTag(tag=t2, score=.3)])
cp = data.ClipPrediction(clip=clip, sound_events=[sep, sep2], sequences=[sqp], tags=[data.PredictedTag(tag=t2, score=.75)], features=[data.Feature(term=data.term_from_key("g"), value=2)])
m1 = data.Match(source=sep, target=sea, affinity=.5, score=.25, metrics=[data.Feature(term=data.term_from_key("mm"), value=2)])
m2 = data.Match(source=sep2, target=sea2, affinity=0)
ce = data.ClipEvaluation(annotations=ca, predictions=cp, matches=[m1,m2], metrics=[data.Feature(term=data.term_from_key("g"), value=2)], score=.5)
objs = {
 "recording_set": data.RecordingSet(recordings=[rec, rec2]),
 "dataset": data.Dataset(name="d", description="dd", recordings=[rec, rec2]),
 "annotation_set": data.AnnotationSet(clip_annotations=[ca]),
 "annotation_project": data.AnnotationProject(name="p", description="d", instructions="i", clip_annotations=[ca], annotation_tags=[t1], tasks=[data.AnnotationTask(clip=clip, status_badges=[data.StatusBadge(state="completed", owner=u)])]),
 "evaluation_set": data.EvaluationSet(name="e", description="d", clip_annotations=[ca], evaluation_tags=[t1]),
 "prediction_set": data.PredictionSet(clip_predictions=[cp]),
 "model_run": data.ModelRun(name="m", version="1", description="d", clip_predictions=[cp]),
 "evaluation": data.Evaluation(evaluation_task="t", clip_evaluations=[ce], metrics=[data.Feature(term=data.term_from_key("g"), value=2)], score=.5),
}
for k,o in objs.items():
    io.save(o, d/f"{k}.json"); o2 = io.load(d/f"{k}.json")
    print(k, type(o2).__name__, o==o2, diff(o,o2)[:6])
    io.save(o2, d/f"{k}2.json"); o3 = io.load(d/f"{k}2.json")
    print("   fixpoint", o2==o3, diff(o2,o3)[:4])
