"""Reference model for the crowsetta conversions (property C10).

Plain Python on abstract values; never imports soundevent or crowsetta.

Abstract values
---------------
* a *term* is ``("term", name)`` (a Term object handed in by the caller: explicit ``term`` argument or a
  ``term_mapping`` value) or ``("key", k)`` (the term "derived from the key" k);
* a *tag* is ``(term, value)``; for label export a tag is ``(key, value)`` with key = the tag's key string;
* times / frequencies are ``Fraction``.

The label cascade is transcribed step by step from the Notes section of the docstring of
``soundevent.io.crowsetta.labels.label_to_tags`` (steps 1-8) and from the numbered lists in the docstrings of
``label_from_tag`` (1-4) and ``label_from_tags`` (1-5); each step below quotes the sentence it implements.
"""
from __future__ import annotations

from fractions import Fraction as F
from math import floor

from models import geometry as gm

EMPTY_LABEL = "__empty__"
DEFAULT_FALLBACK = "crowsetta"
UNJUDGED = "unjudged"


# --------------------------------------------------------------------------- label -> tags
def _aslist(x):
    return list(x) if isinstance(x, list) else [x]


def label_to_tags(label, empty_labels=None, tag_fn=None, term_mapping=None, tag_mapping=None,
                  key_mapping=None, key=None, term=None, fallback=None):
    """Returns (tags, decisive_step).  ``tags`` is a list of abstract tags, or UNJUDGED.

    tag_fn: None | ("return", tag_or_list) | ("raise",)   -- the abstract behaviour of the user function on this label
    term_mapping / tag_mapping / key_mapping: None | dict
    key: None | str;  term: None | abstract term;  fallback: None (default "crowsetta") | str
    empty_labels: None (default ("__empty__",)) | sequence of str
    """
    if empty_labels is None:
        empty_labels = (EMPTY_LABEL,)
    if fallback is None:
        fallback = DEFAULT_FALLBACK

    # 1. "If `label` is in `empty_labels`, return an empty list."
    if label in empty_labels:
        return [], "empty"

    # 2. "If `tag_fn` is provided, use it to convert the label."
    #    (a ValueError raised by the function falls through to the next steps: DESIGN.md C10, pinned by the
    #    repository's own test test_label_to_tags_with_failing_custom_fn)
    if tag_fn is not None and tag_fn[0] == "return":
        return _aslist(tag_fn[1]), "tag_fn"

    # 3. "If `term_mapping` is provided and the label is found, use the corresponding term."
    term_source = "explicit_term" if term is not None else None
    if term_mapping is not None and label in term_mapping:
        term = term_mapping[label]
        term_source = "term_mapping"

    # 4. "If `tag_mapping` is provided and the label is found, return the corresponding tags."
    if tag_mapping is not None and label in tag_mapping:
        if term_source == "term_mapping":
            # the one cell the property does not decide (docstring step order says the tags win,
            # the property's summary order "term/tag/key mappings" says the term wins)
            return UNJUDGED, "term_mapping_and_tag_mapping"
        return _aslist(tag_mapping[label]), "tag_mapping"

    # 5. "If `key_mapping` is provided and the label is found, use the corresponding key (deprecated)."
    key_source = "explicit_key" if key is not None else None
    if key_mapping is not None and label in key_mapping:
        key = key_mapping[label]
        key_source = "key_mapping"

    # 6. "If `key` is provided, use it (deprecated). Otherwise, use `fallback` (deprecated)."
    if key is None:
        key = fallback
        key_source = "fallback"

    # 7. "If `term` is not yet set, derive it from the `key` (deprecated)."
    if term is None:
        term = ("key", key)
        decisive = key_source
    else:
        decisive = term_source

    # 8. "Return a list containing a single `Tag` with the determined `term` and the original `label` as the `value`."
    return [(term, label)], decisive


# --------------------------------------------------------------------------- tags -> label
def label_from_tag(tag, label_fn=None, label_mapping=None, value_only=False, separator=":"):
    """tag = (key, value).  label_fn: None | python function on the abstract tag.  Returns (label, step)."""
    # 1. "If a custom mapping function (`label_fn` argument) is provided, it will be used to directly convert the tag"
    if label_fn is not None:
        return label_fn(tag), "label_fn"
    # 2. "If a mapping dictionary (`label_mapping` argument) is provided, the function will attempt to look up the
    #     label for the tag in the mapping. If found, it returns the label; otherwise, it proceeds to the next option."
    if label_mapping is not None and tag in label_mapping:
        return label_mapping[tag], "label_mapping"
    # 3. "If the `value_only` argument is set to True, the function returns only the value of the tag."
    if value_only:
        return tag[1], "value_only"
    # 4. "... constructs the label by combining the tag's key and value with the specified separator."
    return "%s%s%s" % (tag[0], separator, tag[1]), "key_separator_value"


def label_from_tags(tags, seq_label_fn=None, select_by_key=None, index=None, separator=",",
                    empty_label=EMPTY_LABEL, tag_kwargs=None):
    """Returns (acceptable_labels, step).  ``tag_kwargs`` are the options forwarded to label_from_tag.

    More than one acceptable label is returned only in the select_by_key cell, where the docstring says "the label
    converted from that tag using `convert_tag_to_label`" without saying with which options (the repository's suite
    pins the value-only form): both the value-only form and the form governed by the forwarded options are accepted.
    """
    kw = dict(tag_kwargs or {})
    # 1. "If a custom sequence label function (`seq_label_fn` argument) is provided, it will be used ..."
    if seq_label_fn is not None:
        return [seq_label_fn(tags)], "seq_label_fn"
    # 2. "If the sequence of tags is empty, the function returns the specified `empty_label`."
    if len(tags) == 0:
        return [empty_label], "empty"
    # 3. "If the `select_by_key` argument is provided, the function will attempt to find the first tag in the
    #     sequence with a matching key. If found, it returns the label converted from that tag using
    #     `convert_tag_to_label`, otherwise it returns the `empty_label`."
    if select_by_key is not None:
        for t in tags:
            if t[0] == select_by_key:
                forced = dict(kw, value_only=True)
                a = label_from_tag(t, **forced)[0]
                b = label_from_tag(t, **kw)[0]
                return ([a] if a == b else [a, b]), "select_by_key_hit"
        return [empty_label], "select_by_key_miss"
    # 4. "If the `index` argument is provided, it will be used to select a tag from the sequence based on the
    #     index. If the index is out of bounds, it wraps around to the valid range."
    if index is not None:
        i = index
        n = len(tags)
        while i < 0:
            i += n
        while i >= n:
            i -= n
        return [label_from_tag(tags[i], **kw)[0]], "index"
    # 5. "... constructs a label by joining the labels of all tags in the sequence with the specified separator."
    return [separator.join(label_from_tag(t, **kw)[0] for t in tags)], "join"


# --------------------------------------------------------------------------- import arithmetic
def import_time(seconds, sample, rec_samplerate, expansion, adjust):
    """Time of an imported onset/offset.

    "onset/offset taken from sample indices over the file samplerate when seconds are absent": the file
    samplerate is recording.samplerate / time_expansion (Recording.samplerate is the real, adjusted rate);
    "times divided ... by the recording's time-expansion factor exactly once" iff adjusting.
    """
    if seconds is not None:
        t = F(seconds)
    else:
        t = F(sample) / (F(rec_samplerate) / F(expansion))
    if adjust:
        t = t / F(expansion)
    return t


def import_freq(freq, expansion, adjust):
    """"frequencies multiplied by the recording's time-expansion factor exactly once" iff adjusting."""
    f = F(freq)
    if adjust:
        f = f * F(expansion)
    return f


def representable(x):
    """Is the exact value x a float?"""
    try:
        return F(float(x)) == x
    except OverflowError:
        return False


def same_number(observed, expected, rel=F(1, 10 ** 9)):
    """Exact equality when the exact answer is a float; otherwise within the declared relative tolerance."""
    try:
        o = F(observed)
    except (TypeError, ValueError, OverflowError):
        return False
    if representable(expected):
        return o == expected
    return abs(o - expected) <= rel * abs(expected)


def _power_of_two(q):
    n, d = q.numerator, q.denominator
    return n > 0 and n & (n - 1) == 0 and d & (d - 1) == 0


def scaled(x, y, factor, rel=F(1, 10 ** 9)):
    """Is the observed x equal to the observed y times factor?  Exact when the factor is a power of two (the
    scaling then commutes with float rounding), within the declared relative tolerance otherwise."""
    try:
        fx, fy = F(x), F(y)
    except (TypeError, ValueError, OverflowError):
        return False
    want = fy * F(factor)
    if _power_of_two(F(factor)):
        return fx == want
    return abs(fx - want) <= rel * abs(want)


# --------------------------------------------------------------------------- export
def time_bounds(kind, coords):
    t0, _, t1, _ = gm.extent(kind, coords)
    return F(t0), F(t1)


def sample_index(t, samplerate):
    return floor(F(t) * F(samplerate))


def sample_index_decided(t, samplerate):
    """(judged, index) for a time that is NOT on the dyadic lattice (t is the double handed to the exporter).

    The property says floor(time x samplerate).  The real-number answer is floor(Fraction(t) * samplerate); the
    answer of correctly rounded double arithmetic is floor(t * samplerate).  Only when the two agree does the property
    decide the index; otherwise (the exact product lies just on the other side of an integer than its double
    rounding) the case is not judged.
    """
    exact = floor(F(t) * F(samplerate))
    double = floor(float(t) * float(samplerate))
    return (exact == double), exact


def export_segment(kind, coords, cast, samplerate):
    """("reject", why) | ("ok", (onset_s, offset_s, onset_sample, offset_sample))."""
    if kind is None:
        return ("reject", "no_geometry")
    if kind != "TimeInterval" and not cast:
        return ("reject", "not_interval_no_cast")
    t0, t1 = time_bounds(kind, coords)
    return ("ok", (t0, t1, sample_index(t0, samplerate), sample_index(t1, samplerate)))


def export_bbox(kind, coords, cast, raise_on_time, samplerate):
    """("reject", why) | ("ok", (onset, offset, low, high)); high capped at the Nyquist frequency.

    A box crowsetta cannot represent (onset >= offset, low >= high after the cap) is unconvertible.
    """
    if kind is None:
        return ("reject", "no_geometry")
    if kind != "BoundingBox" and not cast:
        return ("reject", "not_bbox_no_cast")
    if kind in ("TimeStamp", "TimeInterval") and raise_on_time:
        return ("reject", "time_geometry")
    t0, f0, t1, f1 = (F(x) for x in gm.extent(kind, coords))
    nyquist = F(samplerate) / 2
    if f1 > nyquist:
        f1 = nyquist
    if not t0 < t1:
        return ("reject", "crowsetta_zero_length")
    if not f0 < f1:
        return ("reject", "crowsetta_low_ge_high")
    return ("ok", (t0, t1, f0, f1))


def export_list(outcomes, ignore_errors):
    """("reject", index_of_first_unconvertible) | ("ok", [(position, value), ...]) keeping order."""
    kept = []
    for i, o in enumerate(outcomes):
        if o[0] == "reject":
            if ignore_errors:
                continue
            return ("reject", i)
        kept.append((i, o[1]))
    return ("ok", kept)
