"""Reference model of regularly spaced axes ("range dimensions"), coordinate
lookup and positional writes, written from the property text (C16; reused by
C20).  Plain Python on Fractions / ints / lists.  Never imports soundevent.

Vocabulary
----------
lattice      the real-number points start + i*step, i = 0, 1, 2, ... where start and
             step are the *exact* values of the numbers handed to the constructor
             (``Fraction(float)`` is exact) -- or 1/samplerate for the samplerate form.
tolerance    DESIGN.md section 3: on non-representable steps two positions closer than
             REL_TOL*step are the same lattice position.  Counts and indices are exact.
range        of an existing axis: the closed interval [coords[0], coords[-1]] -- the
             library's own definition (``get_dim_range``), the only one that exists for
             an arbitrary (possibly irregular, step-less) axis.
"""
from __future__ import annotations

import math
from fractions import Fraction

REL_TOL = Fraction(1, 10 ** 9)  # coordinate tolerance in units of the step (DESIGN.md section 3)
OUTSIDE = "outside"  # index_model(..., raise_error=True) for a value outside the range


def fr(x) -> Fraction:
    """Exact value of an int / float / Fraction."""
    return x if isinstance(x, Fraction) else Fraction(x)


# ------------------------------------------------------------------ lattices
def lattice_point(start, step, i) -> Fraction:
    return fr(start) + i * fr(step)


def lattice_floats(start, step, n) -> list:
    """The n lattice points, each correctly rounded to the nearest double."""
    s, t = fr(start), fr(step)
    return [float(s + i * t) for i in range(n)]


def stop_for(start, step, n, quarters=0) -> float:
    """The double nearest to the real number start + (n - quarters/4)*step."""
    return float(fr(start) + (fr(n) - Fraction(quarters, 4)) * fr(step))


def quotient(start, stop, step) -> Fraction:
    """(stop - start)/step in exact arithmetic."""
    return (fr(stop) - fr(start)) / fr(step)


def count_model(start, stop, step, rel_tol=REL_TOL):
    """Number of lattice points in [start, stop).

    A lattice point within rel_tol*step of ``stop`` *is* stop (tolerance rule) and is
    therefore excluded by the half-open interval: when the quotient is a whole number n
    up to the tolerance the count is n, otherwise it is ceil(quotient).
    Returns (count, whole: bool).  Requires stop > start, step > 0.
    """
    q = quotient(start, stop, step)
    r = round(q)
    if abs(q - r) <= rel_tol:
        return int(r), True
    return int(math.ceil(q)), False


def tolerance_is_meaningful(start, step, n, rel_tol=REL_TOL, margin=4) -> bool:
    """Can a correct double-precision implementation meet the tolerance at all?

    fl(start + fl(i*step)) is within one unit in the last place of the largest magnitude
    involved; the tolerance is only applied where it is at least ``margin`` such units.
    """
    big = abs(fr(start)) + n * fr(step)
    ulp = Fraction(math.ulp(float(big)))
    return margin * ulp <= rel_tol * fr(step)


def first_off_lattice(values, start, step, rel_tol=REL_TOL):
    """Index of the first value whose distance to start + i*step exceeds rel_tol*step
    (exact integer arithmetic on the doubles), or None.  Also returns the largest
    deviation seen, in units of the step, as a float (for reporting only)."""
    s, t = fr(start), fr(step)
    # common denominator D: lattice point i = (S + i*T)/D
    D = s.denominator * t.denominator // math.gcd(s.denominator, t.denominator)
    S = s.numerator * (D // s.denominator)
    T = t.numerator * (D // t.denominator)
    tol = rel_tol * t
    A, B = tol.numerator, tol.denominator
    first = None
    worst = Fraction(0)
    for i, v in enumerate(values):
        p, q = float(v).as_integer_ratio()
        # |p/q - L/D| <= A/B   <=>   |p*D - L*q| * B <= A * q * D
        num = abs(p * D - (S + i * T) * q)
        if num * B > A * q * D:
            if first is None:
                first = i
            dev = Fraction(num, q * D) / t
            if dev > worst:
                worst = dev
    return first, float(worst)


# ------------------------------------------------------------------ coordinate lookup
def index_model(coords, value, raise_error=False):
    """Index of ``value`` on the axis ``coords`` (strictly increasing numbers).

    In range (coords[0] <= value <= coords[-1]): the unique i with
    coords[i] <= value < coords[i+1]; at the upper edge value == coords[-1], where no
    coords[i+1] exists, the last index len-1.
    Outside the range: ``OUTSIDE`` when raise_error (the call must raise), otherwise
    clamped to 0 below and to len(coords) above -- the *exclusive* end, so that
    [index(a), index(b)) is the run of bins met by [a, b) (what rasterisation relies on).

    Decision recorded for C16/C20: a value in (coords[-1], coords[-1] + step], i.e. in
    the nominal last bin or on the nominal stop of a range dimension, is OUTSIDE.  The
    lookup is defined on arbitrary axes, which need not carry a step, and the library
    defines the range of a dimension as [min, max] of its coordinates.

    Comparisons are on the exact values of the numbers given (float comparison is exact).
    """
    n = len(coords)
    if n == 0:
        raise ValueError("empty axis")
    if value < coords[0]:
        return OUTSIDE if raise_error else 0
    if value > coords[-1]:
        return OUTSIDE if raise_error else n
    found = None
    for i in range(n):  # brute force, no bisection
        if coords[i] <= value and (i == n - 1 or value < coords[i + 1]):
            assert found is None, "axis not strictly increasing"
            found = i
    assert found is not None
    return found


# ------------------------------------------------------------------ positional writes
def flat_index(shape, idx):
    k = 0
    for n, i in zip(shape, idx):
        k = k * n + i
    return k


def all_cells(shape):
    out = [()]
    for n in shape:
        out = [c + (i,) for c in out for i in range(n)]
    return out


def write_model(flat, shape, fixed, value):
    """Copy of the row-major list ``flat`` with the addressed cell / slice replaced.

    fixed : {axis number: index} -- the addressed position on the named axes; every
            other axis is taken whole.
    value : a scalar, or a nested list shaped like the addressed slice (axes in array order).
    """
    out = list(flat)
    free = [ax for ax in range(len(shape)) if ax not in fixed]
    for cell in all_cells(shape):
        if any(cell[ax] != i for ax, i in fixed.items()):
            continue
        v = value
        if isinstance(value, list):
            for ax in free:
                v = v[cell[ax]]
        out[flat_index(shape, cell)] = v
    return out
