"""Reference model of rasterisation (C20), written from the property text.

"a cell holds a geometry's value exactly when the cell centre lies inside the geometry
mapped to bin indices; for a bounding box these are the bins from the one containing its
start (inclusive) to the one containing its end (exclusive) on each axis."

The model never imports soundevent and never calls rasterio.  Point-in-shape is done by
shapely on the *mapped* (integer) coordinates; `exact_cover` is a second, shapely-free
implementation (even-odd crossing number in Fractions) used by the self-test of the model.

Vocabulary
----------
bin units   position u on an axis with n bins: real coordinate origin + u*step
mapped      every vertex (t, f) of a geometry replaced by (index(t), index(f)) with the
            C16 index model: i with coord[i] <= v < coord[i+1], last index at v == coord[-1],
            0 below the axis, len(axis) above it (models.arrays.index_model)
cell (i,j)  the unit square [i, i+1] x [j, j+1] in mapped space, centre (i+1/2, j+1/2);
            i counts time bins, j frequency bins
shape       (dim, vertices): dim 2 = polygon ring, 1 = polyline, 0 = single point

Verdict per cell for one shape:   COVERED (1), NOT (0), UNJUDGED (-1)
* dim 2 with non-zero area: centre strictly inside -> 1, strictly outside -> 0,
  within EPS of the boundary -> -1.
* dim 2 with zero area after mapping (both ends of an edge pair in the same bin): the shape has
  no interior, so no centre lies inside: 0, except centres within EPS of the collapsed ring -> -1.
  (For boxes this is the property's own closed form: start and end in the same bin = no bin.)
* dim 1 / dim 0 (time stamps, points, line strings): "centre inside" is not defined for a shape
  without interior; the property does not say which cells a line or a point marks.  Cells whose
  closed square touches the shape (for a polyline: touches the bounding box of the mapped polyline)
  are UNJUDGED, all other cells are NOT covered.
"touched": the closed unit square of the cell is within EPS of the shape (what all_touched may add
at most; a cell that is not touched is "untouched" under either setting).
"""
from __future__ import annotations

from fractions import Fraction
from functools import lru_cache

import numpy as np
from shapely.geometry import LineString, MultiPolygon, Point, Polygon, box

from models.arrays import index_model

EPS = 1e-9
COVERED, NOT, UNJUDGED = 1, 0, -1


# ------------------------------------------------------------------ mapping
def map_vertex(tcoords, fcoords, t, f):
    return (index_model(tcoords, t), index_model(fcoords, f))


def mapped_shape(kind, coords, tcoords, fcoords, fmax):
    """(dim, vertices) of a geometry in mapped space.

    kind / coords (real units):
      box [t0, f0, t1, f1]; interval [t0, t1] (whole frequency range 0..fmax);
      stamp t (vertical line over the whole frequency range); point [t, f];
      poly [[t, f], ...] (one ring, not closed); line [[t, f], ...];
      polyh [shell, hole, ...] (rings); mpolyh [[shell, hole, ...], ...] (polygons of rings)
    """
    mv = lambda t, f: map_vertex(tcoords, fcoords, t, f)  # noqa: E731
    if kind == "box":
        t0, f0, t1, f1 = coords
        return (2, (mv(t0, f0), mv(t1, f0), mv(t1, f1), mv(t0, f1)))
    if kind == "interval":
        t0, t1 = coords
        return (2, (mv(t0, 0), mv(t1, 0), mv(t1, fmax), mv(t0, fmax)))
    if kind == "stamp":
        return (1, (mv(coords, 0), mv(coords, fmax)))
    if kind == "point":
        return (0, (mv(coords[0], coords[1]),))
    if kind == "poly":
        return (2, tuple(mv(t, f) for t, f in coords))
    if kind == "line":
        return (1, tuple(mv(t, f) for t, f in coords))
    if kind == "polyh":  # one polygon: [shell, hole, ...]
        return (3, (tuple(tuple(mv(t, f) for t, f in ring) for ring in coords),))
    if kind == "mpolyh":  # several polygons, each [shell, hole, ...]; one geometry, one value
        return (3, tuple(tuple(tuple(mv(t, f) for t, f in ring) for ring in poly) for poly in coords))
    raise ValueError(kind)


def box_bins(coords, tcoords, fcoords):
    """Closed form for a bounding box: ((i0, i1), (j0, j1)), the half-open runs of bins
    [bin(start), bin(end)) per axis."""
    t0, f0, t1, f1 = coords
    return ((index_model(tcoords, t0), index_model(tcoords, t1)),
            (index_model(fcoords, f0), index_model(fcoords, f1)))


# ------------------------------------------------------------------ coverage
def _area2(verts):
    s = 0
    n = len(verts)
    for k in range(n):
        x0, y0 = verts[k]
        x1, y1 = verts[(k + 1) % n]
        s += x0 * y1 - x1 * y0
    return s


def _thin(verts, closed):
    """shapely geometry of a shape without area: a point or a polyline."""
    pts = list(verts) + ([verts[0]] if closed else [])
    if all(p == pts[0] for p in pts):
        return Point(pts[0])
    return LineString(pts)


@lru_cache(maxsize=200_000)
def cover(dim, verts, nt, nf):
    """(cov, touched): int8 array (nt, nf) of COVERED / NOT / UNJUDGED and bool array (nt, nf)."""
    cov = np.zeros((nt, nf), dtype=np.int8)
    touched = np.zeros((nt, nf), dtype=bool)
    if dim == 3:
        # polygons with holes (one geometry): the interior excludes the holes; centres on any ring are unjudged
        polys = [Polygon(p[0], list(p[1:])) for p in verts]
        poly = polys[0] if len(polys) == 1 else MultiPolygon(polys)
        if poly.is_valid and poly.area > 0:
            mode, solid, edge = "area", poly, poly.boundary
        else:
            mode, solid, edge = "thin", poly.convex_hull, None
    elif dim == 2 and _area2(verts) != 0:
        poly = Polygon(verts)
        if poly.is_valid:
            mode, solid, edge = "area", poly, poly.exterior
        else:
            # ring crosses itself after mapping: inside/outside is not defined by the property;
            # everything the hull of the vertices touches is unjudged, the rest is outside
            mode, solid, edge = "thin", poly.convex_hull, None
    else:
        mode, solid, edge = "thin", _thin(verts, closed=(dim == 2)), None
        if dim == 2:  # collapsed ring: no interior; only centres on the ring are unjudged
            mode, edge = "collapsed", solid
        elif dim == 1:
            # which cells a polyline marks is not defined by the property (line burning is a pixel-walk,
            # not a centre test): everything the bounding box of the mapped line touches is unjudged
            xs = [p[0] for p in verts]
            ys = [p[1] for p in verts]
            if min(xs) < max(xs) and min(ys) < max(ys):
                solid = box(min(xs), min(ys), max(xs), max(ys))
    for i in range(nt):
        for j in range(nf):
            tch = box(i, j, i + 1, j + 1).distance(solid) <= EPS
            touched[i, j] = tch
            if mode == "thin":
                cov[i, j] = UNJUDGED if tch else NOT
                continue
            c = Point(i + 0.5, j + 0.5)
            if edge.distance(c) <= EPS:
                cov[i, j] = UNJUDGED
            elif mode == "area" and solid.contains(c):
                cov[i, j] = COVERED
            else:
                cov[i, j] = NOT
    cov.setflags(write=False)
    touched.setflags(write=False)
    return cov, touched


# ------------------------------------------------------------------ shapely-free second opinion
def exact_cover(dim, verts, nt, nf):
    """Same verdicts for dim-2 shapes by the even-odd rule in exact arithmetic (simple rings only)."""
    assert dim == 2
    H = Fraction(1, 2)
    n = len(verts)
    out = [[NOT] * nf for _ in range(nt)]
    for i in range(nt):
        for j in range(nf):
            px, py = i + H, j + H
            on = False
            crossings = 0
            for k in range(n):
                x0, y0 = verts[k]
                x1, y1 = verts[(k + 1) % n]
                cross = (x1 - x0) * (py - y0) - (y1 - y0) * (px - x0)
                if cross == 0 and min(x0, x1) <= px <= max(x0, x1) and min(y0, y1) <= py <= max(y0, y1):
                    on = True
                if (y0 > py) != (y1 > py):
                    xi = x0 + Fraction(py - y0) * (x1 - x0) / (y1 - y0)
                    if xi > px:
                        crossings += 1
            out[i][j] = UNJUDGED if on else (COVERED if crossings % 2 else NOT)
    return out


# ------------------------------------------------------------------ expected raster of a list
def expected(shapes, values, fill, nt, nf, all_touched):
    """Sequential overwrite of the per-shape verdicts.

    Returns (exp, und, alts, ever):
      exp   float64 (nt, nf): the value every *decided* cell must hold
      und   bool: cell is undecided (a later shape may or may not have overwritten it)
      alts  list of (mask, value): further values an undecided cell may hold
      ever  bool: some shape certainly marks the cell
    all_touched=False: a shape certainly marks its COVERED cells and may mark its UNJUDGED cells.
    all_touched=True : a shape certainly marks its COVERED cells and may mark every touched cell.
    """
    exp = np.full((nt, nf), float(fill))
    und = np.zeros((nt, nf), dtype=bool)
    ever = np.zeros((nt, nf), dtype=bool)
    alts = []
    for (dim, verts), v in zip(shapes, values):
        cov, touched = cover(dim, verts, nt, nf)
        sure = cov == COVERED
        may = (touched & ~sure) if all_touched else (cov == UNJUDGED)
        exp[sure] = float(v)
        und[sure] = False
        ever |= sure
        alts = [(m & ~sure, a) for m, a in alts]
        if may.any():
            und = und | may
            alts.append((may, float(v)))
    return exp, und, alts, ever
