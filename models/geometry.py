"""Reference model of soundevent geometries, written from the property text
(C03, C05) on raw coordinate structures.  Never imports soundevent."""
from __future__ import annotations

from numbers import Real

MAX_FREQUENCY = 5_000_000

TYPES = (
    "TimeStamp", "TimeInterval", "Point", "LineString", "Polygon",
    "BoundingBox", "MultiPoint", "MultiLineString", "MultiPolygon",
)
TIME_ONLY = ("TimeStamp", "TimeInterval")


def _num(x):
    t = type(x)
    if t is float or t is int:  # fast path; same answer as the general test below
        return True
    return isinstance(x, Real) and not isinstance(x, bool)


def _t(x):
    return _num(x) and x >= 0


def _f(x):
    return _num(x) and 0 <= x <= MAX_FREQUENCY


def _pt(p):
    return isinstance(p, (list, tuple)) and len(p) == 2 and _t(p[0]) and _f(p[1])


def _pts(ps, n):
    return isinstance(ps, (list, tuple)) and len(ps) >= n and all(_pt(p) for p in ps)


def valid(gtype, c):
    """Does the coordinate structure c satisfy the rules of geometry type gtype?"""
    if gtype == "TimeStamp":
        return _t(c)
    if gtype == "TimeInterval":
        return isinstance(c, (list, tuple)) and len(c) == 2 and _t(c[0]) and _t(c[1]) and c[0] <= c[1]
    if gtype == "Point":
        return _pt(c)
    if gtype == "BoundingBox":
        return (isinstance(c, (list, tuple)) and len(c) == 4 and _t(c[0]) and _f(c[1]) and _t(c[2]) and _f(c[3]))
    if gtype == "LineString":
        return _pts(c, 2)
    if gtype == "MultiPoint":
        return _pts(c, 1)
    if gtype == "Polygon":
        return isinstance(c, (list, tuple)) and len(c) >= 1 and all(_pts(r, 3) for r in c)
    if gtype == "MultiLineString":
        return (isinstance(c, (list, tuple)) and len(c) >= 1
                and all(_pts(l, 2) and l[0][0] < l[-1][0] for l in c))
    if gtype == "MultiPolygon":
        return (isinstance(c, (list, tuple)) and len(c) >= 1
                and all(isinstance(p, (list, tuple)) and len(p) >= 1 and all(_pts(r, 3) for r in p) for p in c))
    return False


DEPTH = {"TimeStamp": 0, "TimeInterval": 1, "Point": 1, "BoundingBox": 1, "LineString": 2, "MultiPoint": 2,
         "Polygon": 3, "MultiLineString": 3, "MultiPolygon": 4}
"""Declared nesting depth of the coordinates of each type (0 = a bare number)."""


def nesting_ok(gtype, c):
    """Is c nested uniformly to exactly the depth the type declares, with numeric leaves?
    (List lengths are not judged: this is the part of the shape a static type check sees.)"""
    def rec(x, d):
        if d == 0:
            return _num(x)
        if not isinstance(x, (list, tuple)):
            return False
        for y in x:
            if not rec(y, d - 1):
                return False
        return True
    return rec(c, DEPTH[gtype])


def why_invalid(gtype, c):
    """Name of the first rule of the property text that c breaks for gtype, or None when c is valid.

    Written separately from ``valid`` (rule by rule instead of as one predicate); the two must agree:
    ``valid(t, c) == (why_invalid(t, c) is None)``.  Rules are tried in the order
    nesting, count (arity / minimum number of members), time<0, freq<0, freq>max, order.
    """
    if not nesting_ok(gtype, c):
        return "nesting"
    if gtype == "TimeStamp":
        return "time<0" if c < 0 else None
    if gtype == "TimeInterval":
        if len(c) != 2:
            return "count"
        if c[0] < 0 or c[1] < 0:
            return "time<0"
        return "order" if c[0] > c[1] else None
    if gtype == "BoundingBox":
        if len(c) != 4:
            return "count"
        groups = [([[c[0], c[1]], [c[2], c[3]]], 2)]
    elif gtype == "Point":
        groups = [([c], 1)]
    elif gtype == "LineString":
        groups = [(c, 2)]
    elif gtype == "MultiPoint":
        groups = [(c, 1)]
    elif gtype == "Polygon":
        if len(c) < 1:
            return "count"
        groups = [(ring, 3) for ring in c]
    elif gtype == "MultiLineString":
        if len(c) < 1:
            return "count"
        groups = [(line, 2) for line in c]
    elif gtype == "MultiPolygon":
        if len(c) < 1 or any(len(poly) < 1 for poly in c):
            return "count"
        groups = [(ring, 3) for poly in c for ring in poly]
    else:
        return "type"
    for pts, least in groups:
        if len(pts) < least or any(len(p) != 2 for p in pts):
            return "count"
    allpts = [p for pts, _ in groups for p in pts]
    if any(p[0] < 0 for p in allpts):
        return "time<0"
    if any(p[1] < 0 for p in allpts):
        return "freq<0"
    if any(p[1] > MAX_FREQUENCY for p in allpts):
        return "freq>max"
    if gtype == "MultiLineString" and any(not (line[0][0] < line[-1][0]) for line in c):
        return "order"
    return None


def is_normal(gtype, c):
    """Is a valid coordinate structure already in normal form (stated directly, not via ``normal``)?"""
    if gtype == "BoundingBox":
        return c[0] <= c[2] and c[1] <= c[3]
    if gtype == "LineString":
        return c[0][0] <= c[-1][0]
    return True


def _aslist(c):
    if isinstance(c, (list, tuple)):
        return [_aslist(x) for x in c]
    return c


def normal(gtype, c):
    """Normal form of a valid coordinate structure."""
    c = _aslist(c)
    if gtype == "BoundingBox":
        t0, f0, t1, f1 = c
        if t0 > t1:
            t0, t1 = t1, t0
        if f0 > f1:
            f0, f1 = f1, f0
        return [t0, f0, t1, f1]
    if gtype == "LineString":
        if c[0][0] > c[-1][0]:
            return c[::-1]
    return c


def points(gtype, c):
    """All (time, frequency) points of a 2-D geometry, in order."""
    if gtype == "Point":
        return [tuple(c)]
    if gtype in ("LineString", "MultiPoint"):
        return [tuple(p) for p in c]
    if gtype in ("Polygon", "MultiLineString"):
        return [tuple(p) for part in c for p in part]
    if gtype == "MultiPolygon":
        return [tuple(p) for poly in c for ring in poly for p in ring]
    if gtype == "BoundingBox":
        return [(c[0], c[1]), (c[2], c[3])]
    raise ValueError(gtype)


def extent(gtype, c):
    """(min time, min frequency, max time, max frequency); time-only types span the full band."""
    if gtype == "TimeStamp":
        return (c, 0, c, MAX_FREQUENCY)
    if gtype == "TimeInterval":
        return (c[0], 0, c[1], MAX_FREQUENCY)
    ps = points(gtype, c)
    ts = [p[0] for p in ps]
    fs = [p[1] for p in ps]
    return (min(ts), min(fs), max(ts), max(fs))


def num_parts(gtype, c):
    if gtype.startswith("Multi"):
        return len(c)
    return 1


def is_time_only(gtype):
    return gtype in TIME_ONLY


def dimension(gtype):
    """Topological dimension of the shape the type denotes (in the time-frequency plane)."""
    return {"TimeStamp": 1, "TimeInterval": 2, "Point": 0, "LineString": 1, "Polygon": 2,
            "BoundingBox": 2, "MultiPoint": 0, "MultiLineString": 1, "MultiPolygon": 2}[gtype]
