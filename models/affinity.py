"""Reference model for C06 (affinity = intersection over union), written from the
property text on raw coordinate structures with exact rational arithmetic.

Never imports soundevent.  The *buffered* form of a geometry is an input of the
model (a ``(type, coordinates)`` pair): for the kinds the property calls zero- or
one-dimensional it is whatever the public ``buffer_geometry`` returned (decided by
C11), for the two-dimensional kinds it is the geometry itself — the affinity does
not apply the buffers to intervals, boxes and (multi)polygons at all.
"""
from __future__ import annotations

from fractions import Fraction as F

from . import geometry as gm

# kinds that acquire an area only through the buffers (TimeStamp: 0-dimensional in time)
BUFFERED_KINDS = ("TimeStamp", "Point", "LineString", "MultiPoint", "MultiLineString")
# kinds for which both buffers must be strictly positive (a TimeStamp only needs the time buffer)
PLANAR_THIN_KINDS = ("Point", "LineString", "MultiPoint", "MultiLineString")
TIME_ONLY = gm.TIME_ONLY

DEFAULT_TIME_BUFFER = 0.01
DEFAULT_FREQ_BUFFER = 100


def is_buffered_kind(gtype):
    return gtype in BUFFERED_KINDS


def buffers_admissible(gtypes, tb, fb):
    """The property's quantifier: strictly positive buffers whenever a 0/1-dimensional kind is involved."""
    if tb < 0 or fb < 0:
        return False
    for t in gtypes:
        if t == "TimeStamp" and not tb > 0:
            return False
        if t in PLANAR_THIN_KINDS and not (tb > 0 and fb > 0):
            return False
    return True


def time_extent(gtype, c):
    """(start, end) of a geometry as exact Fractions of its (float) coordinates."""
    e = gm.extent(gtype, c)
    return (F(e[0]), F(e[2]))


def freq_extent(gtype, c):
    e = gm.extent(gtype, c)
    return (F(e[1]), F(e[3]))


def strictly_disjoint(a, b):
    """Two closed intervals (s, e) without a common point."""
    return min(a[1], b[1]) < max(a[0], b[0])


def iou_1d(a, b):
    """Intersection over union of two intervals (s, e); None when the union has length 0."""
    inter = max(F(0), min(a[1], b[1]) - max(a[0], b[0]))
    union = (a[1] - a[0]) + (b[1] - b[0]) - inter
    if union == 0:
        return None
    return inter / union


def box_iou(b1, b2):
    """Area intersection over union of two boxes [t0, f0, t1, f1] (normal form); None when the union area is 0."""
    t0, f0, t1, f1 = (F(x) for x in b1)
    u0, g0, u1, g1 = (F(x) for x in b2)
    w = max(F(0), min(t1, u1) - max(t0, u0))
    h = max(F(0), min(f1, g1) - max(f0, g0))
    inter = w * h
    union = (t1 - t0) * (f1 - f0) + (u1 - u0) * (g1 - g0) - inter
    if union == 0:
        return None
    return inter / union


def _ring_area2(ring):
    """Twice the signed shoelace area of a ring."""
    s = F(0)
    n = len(ring)
    for i in range(n):
        x0, y0 = ring[i]
        x1, y1 = ring[(i + 1) % n]
        s += F(x0) * F(y1) - F(x1) * F(y0)
    return s


def _polygon_area(rings):
    a = abs(_ring_area2(rings[0]))
    for hole in rings[1:]:
        a -= abs(_ring_area2(hole))
    return a / 2


def area(gtype, c):
    """Exact area of a (prepared) two-dimensional kind; time-only kinds: their duration."""
    if gtype == "TimeStamp":
        return F(0)
    if gtype == "TimeInterval":
        return F(c[1]) - F(c[0])
    if gtype == "BoundingBox":
        return (F(c[2]) - F(c[0])) * (F(c[3]) - F(c[1]))
    if gtype == "Polygon":
        return _polygon_area(c)
    if gtype == "MultiPolygon":
        return sum((_polygon_area(p) for p in c), F(0))
    return F(0)


def shift_time(gtype, c, dt):
    """The geometry moved by dt along the time axis (plain float addition on every time coordinate)."""
    if dt == 0:
        return c
    if gtype == "TimeStamp":
        return c + dt
    if gtype == "TimeInterval":
        return [c[0] + dt, c[1] + dt]
    if gtype == "BoundingBox":
        return [c[0] + dt, c[1], c[2] + dt, c[3]]

    def sh(x):
        if isinstance(x[0], (int, float)):
            return [x[0] + dt, x[1]]
        return [sh(y) for y in x]
    return sh(c)
