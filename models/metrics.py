"""Pure-Python reference definitions of the evaluation metrics named by the
soundevent metric terms (C09).  No scikit-learn, no numpy.  Every function
returns ``None`` when the value is mathematically undefined or depends on a
tie-breaking convention (degenerate cases are not judged, DESIGN.md section 3).
"""
from __future__ import annotations

from fractions import Fraction as F


def with_residual(vec):
    """Scores of the K classes plus the residual 'none' column 1 - sum."""
    v = [F(x) for x in vec]
    return v + [1 - sum(v)]


def argmax_unique(row):
    m = max(row)
    idx = [i for i, x in enumerate(row) if x == m]
    return idx[0] if len(idx) == 1 else None


def encode_true(y, k):
    return k if y is None else y


def accuracy(y_true, vecs):
    """y_true: list of class index or None; vecs: list of K-vectors. None if any arg-max is tied."""
    if not y_true:
        return None
    k = len(vecs[0])
    hits = 0
    for y, v in zip(y_true, vecs):
        p = argmax_unique(with_residual(v))
        if p is None:
            return None
        hits += p == encode_true(y, k)
    return F(hits, len(y_true))


def balanced_accuracy(y_true, vecs):
    """Mean recall over the classes present in the truth ('none' is a class). None on ties."""
    if not y_true:
        return None
    k = len(vecs[0])
    yt = [encode_true(y, k) for y in y_true]
    preds = []
    for v in vecs:
        p = argmax_unique(with_residual(v))
        if p is None:
            return None
        preds.append(p)
    classes = sorted(set(yt))
    rec = []
    for c in classes:
        idx = [i for i, y in enumerate(yt) if y == c]
        rec.append(F(sum(1 for i in idx if preds[i] == c), len(idx)))
    return sum(rec) / len(rec)


def top_k_accuracy(y_true, vecs, top=3):
    """True class among the `top` highest of the K+1 columns. None if membership depends on a tie."""
    if not y_true:
        return None
    k = len(vecs[0])
    hits = 0
    for y, v in zip(y_true, vecs):
        row = with_residual(v)
        c = encode_true(y, k)
        if len(row) <= top:
            hits += 1
            continue
        higher = sum(1 for x in row if x > row[c])
        equal = sum(1 for x in row if x == row[c]) - 1
        if higher + equal < top:
            hits += 1
        elif higher >= top:
            pass
        else:
            return None  # tie across the rank boundary
    return F(hits, len(y_true))


def true_class_probability(y, vec):
    row = with_residual(vec)
    return row[len(vec)] if y is None else row[y]


def average_precision(labels, scores):
    """AP = sum_n (R_n - R_{n-1}) P_n, one threshold per distinct score, descending. None without a positive."""
    pos = sum(1 for y in labels if y)
    if pos == 0:
        return None
    out, prev = F(0), F(0)
    for t in sorted(set(scores), reverse=True):
        tp = sum(1 for y, s in zip(labels, scores) if s >= t and y)
        fp = sum(1 for y, s in zip(labels, scores) if s >= t and not y)
        r = F(tp, pos)
        p = F(tp, tp + fp)
        out += (r - prev) * p
        prev = r
    return out


def mean_average_precision_single_label(y_true, vecs):
    """Macro mean over classes of one-vs-rest AP; unlabelled items (None) dropped. None if any class lacks a positive."""
    items = [(y, v) for y, v in zip(y_true, vecs) if y is not None]
    if not items:
        return None
    k = len(items[0][1])
    aps = []
    for c in range(k):
        ap = average_precision([y == c for y, _ in items], [F(v[c]) for _, v in items])
        if ap is None:
            return None
        aps.append(ap)
    return sum(aps) / k


def mean_average_precision_multilabel(truths, vecs):
    """truths: list of indicator vectors. Macro mean over classes. None if any class lacks a positive."""
    if not truths:
        return None
    k = len(truths[0])
    aps = []
    for c in range(k):
        ap = average_precision([bool(t[c]) for t in truths], [F(v[c]) for v in vecs])
        if ap is None:
            return None
        aps.append(ap)
    return sum(aps) / k


def jaccard(truth, vec, threshold=F(1, 2)):
    """|pred & true| / |pred | true| for one item, pred = score > threshold (strict). None if both empty."""
    pred = {i for i, s in enumerate(vec) if F(s) > threshold}
    true = {i for i, t in enumerate(truth) if t}
    if not pred | true:
        return None
    return F(len(pred & true), len(pred | true))


def item_average_precision(truth, vec):
    """Average precision of one item's ranking of the classes (micro over a single item)."""
    return average_precision([bool(t) for t in truth], [F(s) for s in vec])


def mean(xs):
    xs = list(xs)
    if not xs:
        return None
    return sum(F(x) for x in xs) / len(xs)
