"""Reference model of tag encoding (C19).

Plain index arithmetic.  Tags are integers (indices into a universe); equality
of tags is a boolean matrix ``EQ[a][b]`` that the caller fills from the real
``==`` of the data objects (the property is stated in terms of that equality).
A vocabulary is a list of universe indices, a tag list likewise.
"""
from __future__ import annotations

from itertools import combinations


def distinct(EQ, vocab):
    """The property's precondition: the vocabulary tags are pairwise unequal."""
    return all(not EQ[a][b] and not EQ[b][a] for a, b in combinations(vocab, 2))


def encode(EQ, vocab, t):
    """Index i with t == vocab[i]; None when there is none (unique for a distinct vocabulary)."""
    for i, v in enumerate(vocab):
        if EQ[t][v]:
            return i
    return None


def in_vocab(EQ, vocab, t):
    return any(EQ[t][v] for v in vocab)


def classification(EQ, vocab, tags):
    """Index of the first listed tag that is in the vocabulary."""
    for t in tags:
        if in_vocab(EQ, vocab, t):
            return encode(EQ, vocab, t)
    return None


def multilabel(EQ, vocab, tags):
    """Indicator vector of the vocabulary tags present in the list."""
    return [1 if any(EQ[t][v] for t in tags) else 0 for v in vocab]


def positions(EQ, vocab, tags):
    """Per vocabulary slot: the list positions holding a tag equal to that vocabulary tag."""
    return [[j for j, t in enumerate(tags) if EQ[t][v]] for v in vocab]


def kept_positions(EQ, vocab, tags):
    """Positions of the list members that are in the vocabulary (the list with OOV members removed)."""
    return [j for j, t in enumerate(tags) if in_vocab(EQ, vocab, t)]
