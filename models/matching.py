"""Reference model for optimal one-to-one matching (C07, reused by C08).

Brute force over ALL partial injective pairings of the rows (sources) and
columns (targets) of a small affinity matrix.  Plain Python, exact arithmetic:
every float entry is a dyadic rational, so all entries are put on one common
power-of-two denominator and the totals are added as integers (no rounding at
all; the optimum is returned as a Fraction).

Never imports soundevent; never calls the function under test.
"""
from __future__ import annotations

import math
from fractions import Fraction


def n_partial_injections(n: int, m: int) -> int:
    """Closed form for the number of partial injective pairings of n rows and m columns."""
    return sum(math.comb(n, k) * math.comb(m, k) * math.factorial(k) for k in range(min(n, m) + 1))


def scale_matrix(matrix):
    """(integer matrix, D) with integer[i][j] / D == matrix[i][j] exactly.

    Returns None when an entry is not a finite number (nothing can be judged then).
    """
    ratios = []
    for row in matrix:
        r = []
        for a in row:
            a = float(a)
            if math.isnan(a) or math.isinf(a):
                return None
            r.append(a.as_integer_ratio())
        ratios.append(r)
    D = 1
    for row in ratios:
        for _, d in row:
            if d > D:
                D = d
    ints = []
    for row in ratios:
        out = []
        for num, d in row:
            assert D % d == 0  # denominators of floats are powers of two
            out.append(num * (D // d))
        ints.append(out)
    return ints, D


def optimum(matrix, n: int, m: int):
    """Maximum total affinity over all partial injective pairings of an n x m matrix.

    matrix[i][j] is the affinity of source i and target j (n rows of m floats;
    n or m may be 0).  Returns a dict

        best        Fraction, the maximum total (0 for the empty pairing)
        pairing     one optimal pairing made of positive-affinity pairs only, as a list of (i, j)
        n_pairings  how many pairings were enumerated (all of them)
        n_best_pos  how many pairings that use only positive-affinity pairs reach the maximum
                    (> 1 means the optimal assignment is not unique: a tie)

    or None if the matrix holds a non-finite entry.
    """
    assert len(matrix) == n and all(len(row) == m for row in matrix)
    sc = scale_matrix(matrix)
    if sc is None:
        return None
    M, D = sc
    state = {"best": None, "pairing": None, "count": 0, "n_best_pos": 0}

    def rec(i, used, total, pairs, positive):
        if i == n:
            state["count"] += 1
            b = state["best"]
            if b is None or total > b:
                state["best"] = total
                state["n_best_pos"] = 1 if positive else 0
                state["pairing"] = list(pairs) if positive else None
            elif total == b and positive:
                state["n_best_pos"] += 1
                if state["pairing"] is None:
                    state["pairing"] = list(pairs)
            return
        rec(i + 1, used, total, pairs, positive)  # source i stays unpaired
        for j in range(m):
            if j not in used:
                pairs.append((i, j))
                rec(i + 1, used | {j}, total + M[i][j], pairs, positive and M[i][j] > 0)
                pairs.pop()

    rec(0, frozenset(), 0, [], True)
    assert state["count"] == n_partial_injections(n, m), (state["count"], n, m)
    return {
        "best": Fraction(state["best"], D),
        "pairing": state["pairing"],
        "n_pairings": state["count"],
        "n_best_pos": state["n_best_pos"],
    }
