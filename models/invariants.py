"""Reference predicates for the relational schema invariants (C04).

Plain Python over small symbolic descriptions (lists of names, floats).  Never
imports soundevent; never calls a validator under test.  Every predicate
returns the list of violated conditions (empty list == valid), so that a check
can classify a disagreement by *which* condition the implementation lost.
"""
from __future__ import annotations


def in_unit_interval(v) -> bool:
    """0 <= v <= 1 as real numbers.  NaN and the infinities are not in [0, 1]; -0.0 is 0."""
    if isinstance(v, bool) or not isinstance(v, (int, float)):
        return False
    if v != v:  # NaN
        return False
    return 0 <= v <= 1


def score_reasons(v, optional: bool):
    if v is None:
        return [] if optional else ["none"]
    return [] if in_unit_interval(v) else ["range"]


def clip_reasons(start, end):
    return [] if start <= end else ["order"]


def match_reasons(has_source: bool, has_target: bool, affinity, score):
    out = []
    if not has_source and not has_target:
        out.append("null_match")
    if not in_unit_interval(affinity):
        out.append("affinity")
    if score is not None and not in_unit_interval(score):
        out.append("score")
    return out


def clip_evaluation_reasons(annotated, predicted, same_clip: bool, matches):
    """annotated / predicted: names of the sound events in the clip annotation / clip prediction.
    matches: sequence of (source name | None, target name | None).
    Valid iff same clip, and the sources are exactly the predicted events each once,
    and the targets exactly the annotated events each once."""
    out = []
    if not same_clip:
        out.append("clip")
    for side, idx, want in (("source", 0, list(predicted)), ("target", 1, list(annotated))):
        got = [m[idx] for m in matches if m[idx] is not None]
        if any(got.count(x) > 1 for x in got):
            out.append("dup_" + side)
        if any(x not in want for x in got):
            out.append("foreign_" + side)
        if any(x not in got for x in want):
            out.append("unmatched_" + side)
    return out


def project_reasons(task_clips, annotated_clips):
    """Valid iff every annotated clip has a task."""
    return [] if all(c in list(task_clips) for c in annotated_clips) else ["annotation_without_task"]
