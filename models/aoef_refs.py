"""Reference model of the AOEF document structure for C02: which lists define
which identifiers, which fields reference them, and an independent reachability
walk over an in-memory soundevent collection.  Reads JSON dicts and uses only
generic reflection (``model_fields``) on the data objects — never the adapters.
"""
from __future__ import annotations

import re

UUID_RE = re.compile(r"^[0-9a-f]{8}-[0-9a-f]{4}-[0-9a-f]{4}-[0-9a-f]{4}-[0-9a-f]{12}$")

# top-level list -> identifier key
LISTS = {
    "users": "uuid", "tags": "id", "recordings": "uuid", "clips": "uuid", "sound_events": "uuid",
    "sequences": "uuid", "sound_event_annotations": "uuid", "sequence_annotations": "uuid",
    "clip_annotations": "uuid", "sound_event_predictions": "uuid", "sequence_predictions": "uuid",
    "clip_predictions": "uuid", "matches": "uuid", "clip_evaluations": "uuid", "tasks": "uuid",
}

# data class name -> top-level list in which its instances are defined
CLASS_LIST = {
    "User": "users", "Tag": "tags", "Recording": "recordings", "Clip": "clips", "SoundEvent": "sound_events",
    "Sequence": "sequences", "SoundEventAnnotation": "sound_event_annotations",
    "SequenceAnnotation": "sequence_annotations", "ClipAnnotation": "clip_annotations",
    "SoundEventPrediction": "sound_event_predictions", "SequencePrediction": "sequence_predictions",
    "ClipPrediction": "clip_predictions", "Match": "matches", "ClipEvaluation": "clip_evaluations",
    "AnnotationTask": "tasks",
}


def _notes_refs(owner_list, obj):
    for n in obj.get("notes") or []:
        if n.get("created_by") is not None:
            yield (owner_list + ".notes.created_by", "users", n["created_by"])


def references(doc):
    """Yield (site, target_list, identifier) for every reference site of the AOEF format (explicit table)."""
    for r in doc.get("recordings") or []:
        for u in r.get("owners") or []:
            yield ("recordings.owners", "users", u)
        for t in r.get("tags") or []:
            yield ("recordings.tags", "tags", t)
        yield from _notes_refs("recordings", r)
    for c in doc.get("clips") or []:
        yield ("clips.recording", "recordings", c["recording"])
    for s in doc.get("sound_events") or []:
        yield ("sound_events.recording", "recordings", s["recording"])
    for s in doc.get("sequences") or []:
        for e in s.get("sound_events") or []:
            yield ("sequences.sound_events", "sound_events", e)
        if s.get("parent") is not None:
            yield ("sequences.parent", "sequences", s["parent"])
    for lst, field, target in (("sound_event_annotations", "sound_event", "sound_events"),
                               ("sequence_annotations", "sequence", "sequences")):
        for a in doc.get(lst) or []:
            yield ("%s.%s" % (lst, field), target, a[field])
            for t in a.get("tags") or []:
                yield (lst + ".tags", "tags", t)
            if a.get("created_by") is not None:
                yield (lst + ".created_by", "users", a["created_by"])
            yield from _notes_refs(lst, a)
    for a in doc.get("clip_annotations") or []:
        yield ("clip_annotations.clip", "clips", a["clip"])
        for t in a.get("tags") or []:
            yield ("clip_annotations.tags", "tags", t)
        for x in a.get("sound_events") or []:
            yield ("clip_annotations.sound_events", "sound_event_annotations", x)
        for x in a.get("sequences") or []:
            yield ("clip_annotations.sequences", "sequence_annotations", x)
        yield from _notes_refs("clip_annotations", a)
    for lst, field, target in (("sound_event_predictions", "sound_event", "sound_events"),
                               ("sequence_predictions", "sequence", "sequences")):
        for p in doc.get(lst) or []:
            yield ("%s.%s" % (lst, field), target, p[field])
            for t in p.get("tags") or []:
                yield (lst + ".tags", "tags", t[0])
    for p in doc.get("clip_predictions") or []:
        yield ("clip_predictions.clip", "clips", p["clip"])
        for x in p.get("sound_events") or []:
            yield ("clip_predictions.sound_events", "sound_event_predictions", x)
        for x in p.get("sequences") or []:
            yield ("clip_predictions.sequences", "sequence_predictions", x)
        for t in p.get("tags") or []:
            yield ("clip_predictions.tags", "tags", t[0])
    for m in doc.get("matches") or []:
        if m.get("source") is not None:
            yield ("matches.source", "sound_event_predictions", m["source"])
        if m.get("target") is not None:
            yield ("matches.target", "sound_event_annotations", m["target"])
    for e in doc.get("clip_evaluations") or []:
        yield ("clip_evaluations.annotations", "clip_annotations", e["annotations"])
        yield ("clip_evaluations.predictions", "clip_predictions", e["predictions"])
        for x in e.get("matches") or []:
            yield ("clip_evaluations.matches", "matches", x)
    for t in doc.get("tasks") or []:
        yield ("tasks.clip", "clips", t["clip"])
        for b in t.get("status_badges") or []:
            if b.get("owner") is not None:
                yield ("tasks.status_badges.owner", "users", b["owner"])
    for t in doc.get("project_tags") or []:
        yield ("project_tags", "tags", t)
    for t in doc.get("evaluation_tags") or []:
        yield ("evaluation_tags", "tags", t)


def definitions(doc):
    """list name -> list of identifiers in document order."""
    out = {}
    for lst, key in LISTS.items():
        out[lst] = [o.get(key) for o in (doc.get(lst) or [])]
    return out


def uuid_mentions(doc):
    """Generic sweep: every UUID-shaped string in the document, as (json path, value, is_definition).

    A definition is the 'uuid' key of an element of a top-level list, of an inline note, or of the collection itself.
    """
    out = []

    def rec(x, path, depth_key):
        if isinstance(x, dict):
            for k, v in x.items():
                rec(v, path + "." + k, k)
        elif isinstance(x, list):
            for i, v in enumerate(x):
                rec(v, path + "[]", depth_key)
        elif isinstance(x, str) and UUID_RE.match(x):
            parts = path.split(".")
            is_def = parts[-1] == "uuid" and (
                len(parts) == 2  # .uuid of the collection
                or (len(parts) == 3 and parts[1].endswith("[]"))  # .<list>[].uuid
                or (len(parts) >= 4 and parts[-2] == "notes[]")  # inline note
            )
            out.append((path, x, is_def))
    rec(doc, "", None)
    return out


# ---------------------------------------------------------------- reachability over the in-memory object
def reachable(obj):
    """list name -> set of identifiers of the distinct objects reachable from a soundevent collection.

    Tags are identified by (term label, value) (AOEF stores a term as its label); everything else by uuid.
    """
    out = {lst: set() for lst in LISTS}
    seen = set()

    def visit(x):
        if isinstance(x, (list, tuple)):
            for y in x:
                visit(y)
            return
        cls = type(x)
        if not hasattr(cls, "model_fields"):
            return
        if id(x) in seen:
            return
        seen.add(id(x))
        name = cls.__name__
        # subclasses of the collection classes are not definitions themselves
        lst = CLASS_LIST.get(name)
        if lst == "tags":
            out["tags"].add((x.term.label, x.value))
        elif lst is not None:
            out[lst].add(str(x.uuid))
        for f in cls.model_fields:
            visit(getattr(x, f))
    visit(obj)
    return out
