"""Reference model for C15 (audio-derived arrays), written from the property text.

Plain Python: the standard-library ``wave`` module, ``struct``, ``fractions``.  Never
imports soundevent, soundfile, numpy or xarray.

Vocabulary
----------
file            a PCM-16 WAV file with `rate` frames per second, `nframes` frames of `channels`
                interleaved samples.
recording       the file seen through a time expansion te (``Recording.from_file``): its
                samplerate is rate*te (an integer for every te enumerated), its duration
                nframes/rate/te, and recording time = file time / te.  Frame i of the file is
                frame i of the recording and carries recording time i/(rate*te).
clip (s, e)     s <= e doubles in recording time.  The property: load_clip returns exactly
                floor((e-s)*sr) frames, the file's frames from floor(s*sr) on, zero-filled past
                the end of the file.
"""
from __future__ import annotations

import math
import struct
import wave
from fractions import Fraction

REL_TOL = 1e-9            # coordinate tolerance in units of the step (DESIGN.md section 3)
GUARD = Fraction(1, 2 ** 24)  # in samples: farther than this from every integer, any double evaluation floors alike
PCM16_SCALE = 32768.0     # libsndfile's float conversion of 16-bit samples: int / 2**15, exact in doubles


# ------------------------------------------------------------------ files
def sample_value(i: int, c: int) -> int:
    """Integer ramp: distinct over frames and channels, never zero, alternating sign."""
    v = ((i + 1) * 7 + c * 1000) % 32000 + 1  # stays a 16-bit value for files of any length (identical to the plain ramp for short files)
    return -v if i % 2 else v


def write_wav(path: str, rate: int, nframes: int, channels: int) -> None:
    vals = [sample_value(i, c) for i in range(nframes) for c in range(channels)]
    with wave.open(path, "wb") as w:
        w.setnchannels(channels)
        w.setsampwidth(2)
        w.setframerate(rate)
        w.writeframes(struct.pack("<%dh" % len(vals), *vals))


def read_wav(path: str):
    """(rate, channels, frames) with frames = list of per-frame lists of ints, read back with ``wave``."""
    with wave.open(path, "rb") as w:
        rate, ch, n, width = w.getframerate(), w.getnchannels(), w.getnframes(), w.getsampwidth()
        raw = w.readframes(n)
    assert width == 2
    flat = struct.unpack("<%dh" % (n * ch), raw)
    return rate, ch, [list(flat[i * ch:(i + 1) * ch]) for i in range(n)]


def recording_rate(file_rate: int, te: Fraction) -> int:
    """Samplerate of the recording: file rate x time expansion (must be whole for the enumerated te)."""
    sr = Fraction(file_rate) * te
    assert sr > 0, (file_rate, te)
    # whole for the enumerated expansions; for the one deliberately non-whole combination (11025 Hz x 3/2) the recording's rate is
    # int(file rate x expansion), which is what Recording.from_file documents and stores
    return int(sr)


# ------------------------------------------------------------------ floor on products of doubles
def judge_floor(x: Fraction, float_exact: bool):
    """floor(x) when it does not depend on how the product is rounded, else None.

    x is the exact real value of the product of the doubles involved.  `float_exact` says that the
    straightforward double evaluation of the product is exact (then every IEEE evaluation returns x
    itself).  Otherwise the floor is only trusted when x is farther than GUARD from every integer.
    Returns (floor or None, mode in {"exact", "guard", "ambiguous"}).
    """
    if float_exact:
        return math.floor(x), "exact"
    m = round(x)
    if abs(x - m) >= GUARD:
        return math.floor(x), "guard"
    return None, "ambiguous"


def clip_expectation(start: float, end: float, sr: int):
    """Expected (offset, count) of a clip, each None when the floor is ambiguous in doubles.

    Returns dict(off, cnt, off_mode, cnt_mode, off_near, cnt_near); *_near is the integer used for
    classifying the input region only (the floor, or, when ambiguous, the floor of the straightforward
    double evaluation).
    """
    S, E = Fraction(start), Fraction(end)
    xs = S * sr
    ps = start * float(sr)
    off, off_mode = judge_floor(xs, Fraction(ps) == xs)
    dur = end - start
    D = E - S
    xd = D * sr
    pd = dur * float(sr)
    cnt, cnt_mode = judge_floor(xd, Fraction(dur) == D and Fraction(pd) == xd)
    return {
        "off": off, "cnt": cnt, "off_mode": off_mode, "cnt_mode": cnt_mode,
        "off_near": off if off is not None else math.floor(ps),
        "cnt_near": cnt if cnt is not None else math.floor(pd),
    }


def region(off: int, cnt: int, nframes: int) -> str:
    """Input class of a clip relative to the file."""
    if off > nframes:
        return "starts_past_eof"
    if cnt == 0:
        return "zero_samples"
    if off == nframes:
        return "starts_at_eof"
    if off + cnt > nframes:
        return "reaches_past_eof"
    return "inside"


def expected_frames(frames, off: int, cnt: int, channels: int):
    """The file's frames off .. off+cnt-1 as floats (int / 32768), zeros past the end of the file."""
    zero = [0.0] * channels
    out = []
    for j in range(off, off + cnt):
        if 0 <= j < len(frames):
            out.append([v / PCM16_SCALE for v in frames[j]])
        else:
            out.append(list(zero))
    return out


# ------------------------------------------------------------------ axes
def strictly_increasing(coords) -> bool:
    return all(b > a for a, b in zip(coords, coords[1:]))


def max_step_drift(coords, step: float):
    """max_i |coords[i] - (coords[0] + i*step)| in units of step, and the index where it is reached."""
    worst, at = 0.0, 0
    c0 = coords[0]
    for i, c in enumerate(coords):
        d = abs(c - (c0 + i * step)) / step
        if d > worst:
            worst, at = d, i
    return worst, at


def times_on_lattice(coords, off: int, sr: int):
    """Largest |coords[i] - (off+i)/sr| in units of the step 1/sr, and its index."""
    worst, at = 0.0, 0
    for i, c in enumerate(coords):
        d = abs(c - (off + i) / sr) * sr
        if d > worst:
            worst, at = d, i
    return worst, at
