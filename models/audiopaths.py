"""Reference model for C18: lexical arithmetic on POSIX paths.

Plain component lists; no call into soundevent.  PurePosixPath is used only to
split a string into its components (collapses '//' and '/./', drops a trailing
slash; the alphabet has no '..').
"""
from __future__ import annotations

from pathlib import PurePosixPath


def parts(p):
    """Components of a path given as str / PurePath; ['/', 'data', 'x.wav'] for '/data/x.wav', [] for '.'."""
    return list(PurePosixPath(str(p)).parts)


def inside(path, directory):
    """Lexical containment, component-wise (so '/data2/x.wav' is NOT inside '/data'). The directory contains itself."""
    p, d = parts(path), parts(directory)
    return p[:len(d)] == d


def strictly_inside(path, directory):
    return inside(path, directory) and len(parts(path)) > len(parts(directory))


def relative(path, directory):
    """Components of `path` relative to `directory` (requires inside); [] stands for '.'."""
    p, d = parts(path), parts(directory)
    assert p[:len(d)] == d
    return p[len(d):]


def join(directory, stored):
    """Components of directory / stored for a *relative* stored path."""
    s = parts(stored)
    assert not (s and s[0] == "/"), "join is only defined for relative stored paths"
    return parts(directory) + s


def is_absolute(p):
    q = parts(p)
    return bool(q) and q[0] == "/"


def same(a, b):
    """Equality of two paths up to redundant separators / trailing slash / '.' components."""
    return parts(a) == parts(b)
