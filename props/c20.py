"""C20 - Rasterisation marks exactly the bins a geometry covers, on the template's axes.

Function under test: soundevent.geometry.rasterize (which relies on
soundevent.arrays.get_coord_index(raise_error=False) and rasterio.features.rasterize).

Every case is a template (size, dimension order, axis configuration, contents), a list of
geometries given in *bin units* relative to the template, and the options (values, fill, dtype);
each case is executed with all_touched=False and all_touched=True.  The reference model
(models/raster.py) maps every vertex with the C16 index model and decides each cell by
point-in-shape on the cell centre - it never calls rasterio nor the function under test.
"""
from __future__ import annotations

import itertools
import math

import numpy as np
import xarray as xr

from soundevent import arrays
from soundevent.geometry import rasterize

from mc.runner import Out
from mc.space import Axis, deviations
from models import raster as rm
from props.common import MAXF, is_rejection, mkgeom

ID = "C20"
RULE = (
    "[octave] one block: every box with edges among the band edges and their geometric middles of an 8-band octave frequency axis (irregular spacing) x time edges among bin edges and middles, both dimension orders; model: bins [bin(start), bin(end)) per axis by bisection. "
    "case = template (nt x nf, dimension order, axis configuration, contents) x geometry list (bin units) x "
    "options (values form, fill, dtype); every case is run with all_touched False and True. Full products and "
    "deviation-bounded parts are listed in bounds. A case is non-trivial when, for all_touched=False, the model "
    "decides at least one marked and at least one fill cell (value lists of the wrong length are never "
    "non-trivial); distinct = distinct case descriptor."
)
ASSUMPTIONS = [
    "template axes are the library's own range dimensions on dyadic steps (1 s / 0.5 s, 1000 Hz / 125 Hz) with dyadic "
    "origins; geometry coordinates are multiples of half a bin: every float operation is exact",
    "'mapped to bin indices' is the C16 index model: i with coord[i] <= v < coord[i+1], coord[-1] -> last index, below the "
    "axis -> 0, above coord[-1] (including the nominal last bin) -> len(axis); the bounding-box closed form uses the same map",
    "cells whose centre lies within 1e-9 of the mapped boundary are not judged",
    "time stamps, points and line strings have no interior: the cells their mapped shape touches are not judged (the "
    "property does not define them); cells they do not touch must hold the fill value; overwrite order, "
    "all_touched-superset, axes, dtype and template integrity are judged for them as for every other geometry",
    "polygons / boxes / intervals whose mapped shape has zero area mark no cell with all_touched=False (no centre is "
    "inside; for boxes this is the closed form with start and end in the same bin)",
    "with all_touched=True only bounds are judged: centre-covered cells stay marked, cells whose closed square the "
    "mapped shape does not touch stay fill, and the marked set contains the all_touched=False marked set",
    "the result may order its dimensions either way; it is compared after transposition to (time, frequency)",
    "values are distinct from fill; NaN only appears in template contents",
]

FN = "rasterize"
TIME, FREQ = "time", "frequency"

# axis configurations: (time step, frequency step, time origin, frequency origin)
CFGS = {
    "A": (1.0, 1000.0, 0.0, 0.0),
    "B": (1.0, 1000.0, 0.5, 500.0),
    "C": (0.5, 125.0, 0.0, 0.0),
    "D": (0.5, 125.0, 0.75, 250.0),
    # 1 s x 1 Hz bins with the time axis starting at 2 s: the same NUMBER is a time in one bin and a frequency in another
    "E": (1.0, 1.0, 2.0, 0.0),
}
ORDERS = ("ft", "tf")  # frequency first (the layout of the repository's docs) / time first

OPT_AXES = [
    Axis("cfg", ("A", "B", "C", "D", "E")),
    Axis("values", ("list", "scalar", "tuple", "omit", "short", "long", "repeat", "hole")),
    Axis("fill", (0, -1)),
    Axis("dtype", ("float32", "int16", "float64")),
    Axis("contents", ("g1", "g2")),
]
LIST_VALUES = [2, 3, 4, 6]
SCALAR_VALUE = 5


def max_size(tier):
    return 4 if tier == "quick" else 6


# ---------------------------------------------------------------- enumeration of the spaces
def sizes(n):
    return [(nt, nf) for nt in range(1, n + 1) for nf in range(1, n + 1)]


def positions(n, below_ok):
    """Edge positions in bin units: every bin edge and every bin middle, half a bin below the axis
    (when that is a legal coordinate) and half a bin beyond its nominal end."""
    return [x / 2 for x in range(-1 if below_ok else 0, 2 * n + 2)]


def below_ok(cfg):
    dt, df, t0, f0 = CFGS[cfg]
    return (t0 - dt / 2 >= 0, f0 - df / 2 >= 0)


def box_full_cfgs(tier):
    return ("D",) if tier == "quick" else ("A", "B", "C", "D", "E")


def box_cases(tier):
    full = box_full_cfgs(tier)
    for cfg in full:
        bt, bf = below_ok(cfg)
        for nt, nf in sizes(max_size(tier)):
            tp = list(itertools.combinations(positions(nt, bt), 2))
            fp = list(itertools.combinations(positions(nf, bf), 2))
            for order in ORDERS:
                for a, b in tp:
                    for c, d in fp:
                        yield {"sp": "box", "t": [nt, nf, order, cfg], "g": [["box", [a, c, b, d]]]}
    for cfg in ("A", "B", "C", "D", "E"):
        if cfg in full:
            continue
        # deviation-bounded: boxes that leave the full-span box on at most one axis
        bt, bf = below_ok(cfg)
        for nt, nf in sizes(max_size(tier)):
            for order in ORDERS:
                for a, b in itertools.combinations(positions(nt, bt), 2):
                    yield {"sp": "box", "t": [nt, nf, order, cfg], "g": [["box", [a, 0.0, b, float(nf)]]]}
                for c, d in itertools.combinations(positions(nf, bf), 2):
                    if (c, d) == (0.0, float(nf)):
                        continue
                    yield {"sp": "box", "t": [nt, nf, order, cfg], "g": [["box", [0.0, c, float(nt), d]]]}


def tri_plan(tier):
    """(cfg, shift, max size) triples: lattice triangles with vertices on bin edges (shift 0) or in
    the middle of bins / half a bin beyond the template (shift 0.5)."""
    if tier == "quick":
        return [("A", 0.0, 4), ("A", 0.5, 3)]
    return [("A", 0.0, 6), ("A", 0.5, 4), ("B", 0.0, 4), ("B", 0.5, 4), ("C", 0.0, 4), ("C", 0.5, 4),
            ("D", 0.0, 4), ("D", 0.5, 4)]


def tri_cases(tier):
    for cfg, shift, n in tri_plan(tier):
        for nt, nf in sizes(n):
            pts = [(x + shift, y + shift) for x in range(nt + 1) for y in range(nf + 1)]
            for order in ORDERS:
                for tri in itertools.combinations(pts, 3):
                    yield {"sp": "tri", "t": [nt, nf, order, cfg], "g": [["poly", [list(p) for p in tri]]]}


def misc_cases(tier):
    cfgs = ("A", "D", "E") if tier == "quick" else ("A", "B", "C", "D", "E")
    for cfg in cfgs:
        bt, bf = below_ok(cfg)
        for nt, nf in sizes(max_size(tier)):
            for order in ORDERS:
                t = [nt, nf, order, cfg]
                # rectangles given as 4-vertex polygons, edges on bin edges / in bin middles
                for shift in (0.0, 0.5):
                    for a, b in itertools.combinations(range(nt + 1), 2):
                        for c, d in itertools.combinations(range(nf + 1), 2):
                            a_, b_, c_, d_ = a + shift, b + shift, c + shift, d + shift
                            yield {"sp": "misc", "t": t, "g": [["poly", [[a_, c_], [b_, c_], [b_, d_], [a_, d_]]]]}
                            if (b == nt or d == nf) and (a == 0 or c == 0):
                                # the same rectangle as a dense outline (48 and 160 collinear vertices): same cells
                                for m in (12, 40):
                                    ring = ([[a_ + (b_ - a_) * i / m, c_] for i in range(m)] + [[b_, c_ + (d_ - c_) * i / m] for i in range(m)]
                                            + [[b_ - (b_ - a_) * i / m, d_] for i in range(m)] + [[a_, d_ - (d_ - c_) * i / m] for i in range(m)])
                                    yield {"sp": "misc", "t": t, "g": [["poly", ring]]}
                for a, b in itertools.combinations(positions(nt, bt), 2):
                    yield {"sp": "misc", "t": t, "g": [["interval", [a, b]]]}
                for a in positions(nt, bt):
                    yield {"sp": "misc", "t": t, "g": [["stamp", a]]}
                for a in positions(nt, bt):
                    for c in positions(nf, bf):
                        yield {"sp": "misc", "t": t, "g": [["point", [a, c]]]}
                # rectangles with a rectangular hole (Polygon and MultiPolygon): the cells of the hole stay unmarked
                if nt >= 3 and nf >= 3:
                    for shift in (0.0, 0.25):
                        shell = [[0.0, 0.0], [float(nt), 0.0], [float(nt), float(nf)], [0.0, float(nf)]]
                        for a, b in itertools.combinations(range(1, nt), 2):
                            for c, d in itertools.combinations(range(1, nf), 2):
                                a_, b_, c_, d_ = a - shift, b + shift, c - shift, d + shift
                                hole = [[a_, c_], [a_, d_], [b_, d_], [b_, c_]]
                                yield {"sp": "misc", "t": t, "g": [["polyh", [shell, hole]]]}
                                yield {"sp": "misc", "t": t, "g": [["mpolyh", [[shell, hole]]]]}
                                part1 = [[[0.0, 0.0], [nt - 0.75, 0.0], [nt - 0.75, float(nf)], [0.0, float(nf)]], hole]
                                part2 = [[[nt - 0.25, 0.0], [float(nt), 0.0], [float(nt), float(nf)]]]
                                if b_ < nt - 0.75:
                                    yield {"sp": "misc", "t": t, "g": [["mpolyh", [part1, part2]]]}
                # 2-point line strings between lattice points of the corner / centre set
                T, F = float(nt), float(nf)
                ends = [(0.0, 0.0), (T, 0.0), (0.0, F), (T, F), (0.5, 0.5), (T - 0.5, F - 0.5)]
                for p, q in itertools.permutations(ends, 2):
                    if p[0] <= q[0] and p != q:
                        yield {"sp": "misc", "t": t, "g": [["line", [list(p), list(q)]]]}


def pool(nt, nf):
    """Geometry pool of the list space, in bin units of an nt x nf template."""
    T, F = float(nt), float(nf)
    h = float(math.ceil(nt / 2))
    return [
        ["box", [0.0, 0.0, T, F]],                              # every edge on a template edge
        ["box", [T - 1, 0.0, T + 0.5, F]],                      # last time bin, end beyond the template
        ["box", [0.5, F - 1, T, F - 0.5]],                      # last frequency bin, edges inside bins
        ["poly", [[0.0, 0.0], [T, 0.0], [0.0, F]]],             # lower-left triangle
        ["poly", [[T, F], [0.0, F], [T, 0.0]]],                 # upper-right triangle
        ["poly", [[0.5, 0.0], [T, 0.5], [T + 0.5, F]]],         # lower-right triangle, vertices inside bins / beyond
        ["interval", [0.0, h]],                                 # left half, edges on bin edges
        ["stamp", 0.5],
        ["point", [T - 1, F - 1]],
        ["line", [[0.0, 0.0], [T, F]]],
    ]


def opt_configs(k_exact=None, k_max=1):
    out = []
    for j, d in deviations(OPT_AXES, k_max):
        if k_exact is None or j == k_exact:
            out.append(d)
    return out


def list_cases(block):
    nt, opt, maxlen = block["nt"], block["opt"], block["maxlen"]
    for order in block["orders"]:
        for nf in block["nfs"]:
            P = pool(nt, nf)[:block.get("pool_limit")]
            for n in range(block.get("minlen", 0), maxlen + 1):
                if opt["values"] == "short" and n == 0:
                    continue
                for combo in itertools.product(range(len(P)), repeat=n):
                    yield {"sp": "list", "t": [nt, nf, order, opt["cfg"]], "g": [P[i] for i in combo],
                           "o": {"values": opt["values"], "fill": opt["fill"], "dtype": opt["dtype"],
                                 "contents": opt["contents"]}}


QUICK_DEVIATION_SIZE = 3  # quick: non-default option configurations of the list space use sizes {1..3}^2

SHARDS = {"quick": {"box": 40, "tri": 12, "misc": 6}, "thorough": {"box": 64, "tri": 32, "misc": 8}}
SPACE_FN = {"box": box_cases, "tri": tri_cases, "misc": misc_cases}


def blocks(tier):
    out = [{"sp": "longlist", "tier": tier}, {"sp": "octave", "tier": tier}]
    for sp in ("box", "tri", "misc"):
        n = SHARDS[tier][sp]
        out += [{"sp": sp, "tier": tier, "shard": i, "of": n} for i in range(n)]
    if tier == "quick":
        for j, opt in deviations(OPT_AXES, 1):
            m = 4 if j == 0 else QUICK_DEVIATION_SIZE
            for nt in range(1, m + 1):
                out.append({"sp": "list", "tier": tier, "opt": opt, "nt": nt, "nfs": list(range(1, m + 1)),
                            "orders": list(ORDERS), "maxlen": 2})
        # lists of exactly three geometries with interleaved repeated values (a, b, a) over the first six pool members
        rep = dict(next(d for j, d in deviations(OPT_AXES, 0)), values="repeat")
        for nt in (2, 3):
            out.append({"sp": "list", "tier": tier, "opt": rep, "nt": nt, "nfs": [2, 3], "orders": list(ORDERS),
                        "minlen": 3, "maxlen": 3, "pool_limit": 6})
    else:
        for opt in opt_configs(k_max=1):
            for nt in range(1, 5):
                for order in ORDERS:
                    out.append({"sp": "list", "tier": tier, "opt": opt, "nt": nt, "nfs": [1, 2, 3, 4],
                                "orders": [order], "maxlen": 3})
        for opt in opt_configs(k_exact=2, k_max=2):
            for nt in range(1, 5):
                out.append({"sp": "list", "tier": tier, "opt": opt, "nt": nt, "nfs": [1, 2, 3, 4],
                            "orders": list(ORDERS), "maxlen": 2})
    return out


def bounds(tier):
    n = max_size(tier)
    q = tier == "quick"
    return {
        "template_sizes": "(nt, nf) in {1..%d}^2 for single geometries, {1..4}^2 for lists" % n,
        "dimension_orders": list(ORDERS),
        "axis_configurations (dt, df, t0, f0)": CFGS,
        "edge_positions": "bin units, multiples of 1/2 from -1/2 (where the coordinate stays >= 0) to n + 1/2",
        "FULL box": "single BoundingBox: size x order x cfg in %s x every pair of edge positions on the time axis x every "
                    "pair on the frequency axis x all_touched" % (list(box_full_cfgs(tier)),),
        "DEVIATION box": ("cfg in [A, B, C, E]: boxes leaving the full-span box on at most one axis (every edge pair on that "
                          "axis) x size x order x all_touched" if q else "none (all four configurations are full products)"),
        "FULL tri": "single Polygon triangles, every 3-subset of the (nt+1)(nf+1) lattice points, x size x order x "
                    "all_touched for (cfg, shift, max size) in %s" % (tri_plan(tier),),
        "FULL misc": "cfg in %s x size x order x all_touched x {4-vertex rectangle polygons (integer and half-shifted; those reaching the template's far edges also as 48- and 160-vertex outlines), "
                     "full-template rectangles with every integer (and quarter-widened) rectangular hole as Polygon and as 1- and 2-part MultiPolygon (sizes >= 3x3), "
                     "time intervals (all edge pairs), time stamps (all positions), points (all positions^2), 2-point "
                     "line strings over 6 anchor points}" % (["A", "D", "E"] if q else ["A", "B", "C", "D", "E"]),
        "FULL list": "every ordered list (with repetition, hence both orders of every pair) of length 0..%d over the "
                     "10-geometry pool x size {1..4}^2 x order x all_touched, at the default options" % (2 if q else 3),
        "DEVIATION list options": "option axes cfg{A,B,C,D}, values{list,scalar,tuple,omit,short,long,repeat,hole = every second geometry burns the fill value}, fill{0,-1}, "
                                  "dtype{float32,int16,float64 with values that float32 cannot represent}, contents{g1,g2}: every assignment within %s of the default "
                                  "(A, list, 0, float32, g1), each x the same full list product x order x all_touched x "
                                  "size %s" % (("1 deviation", "{1..3}^2") if q else
                                               ("1 deviation (lists <= 3), exactly 2 deviations (lists <= 2)", "{1..4}^2")),
        "single-geometry options": "defaults only (values, fill, dtype not passed), contents g1",
        "pool": pool(3, 2),
        "pool_note": "pool shown for nt=3, nf=2; T, F, ceil(T/2) scale with the template",
    }


# ---------------------------------------------------------------- templates
_TPL = {}


def _garbage(shape, contents):
    n = shape[0] * shape[1]
    if contents == "g1":
        flat = [9.0 - 3.5 * k for k in range(n)]
    else:
        pat = [float("nan"), float("inf"), -float("inf"), 1e30, -0.0, 7.0]
        flat = [pat[k % len(pat)] for k in range(n)]
    return np.array(flat, dtype=np.float64).reshape(shape)


def _snapshot(tpl):
    cv = tpl.coords.variables
    return (
        tpl.dims, tpl.shape, str(tpl.dtype), tpl.values.tobytes(),
        tuple((str(k), v.dims, v.values.tobytes(), repr(sorted(v.attrs.items()))) for k, v in cv.items()),
        tuple((str(k), ix.values.tobytes()) for k, ix in tpl.indexes.items()),
        repr(sorted(tpl.attrs.items())), tpl.name,
    )


def build_template(nt, nf, order, cfg, contents):
    dt, df, t0, f0 = CFGS[cfg]
    t = arrays.create_time_range(t0, t0 + nt * dt, step=dt)
    f = arrays.create_frequency_range(f0, f0 + nf * df, step=df)
    if order == "tf":
        dims, shape = [TIME, FREQ], (t.size, f.size)
    else:
        dims, shape = [FREQ, TIME], (f.size, t.size)
    return xr.DataArray(_garbage(shape, contents), dims=dims, coords={TIME: t, FREQ: f})


def get_template(nt, nf, order, cfg, contents):
    key = (nt, nf, order, cfg, contents)
    ent = _TPL.get(key)
    if ent is None:
        tpl = build_template(nt, nf, order, cfg, contents)
        ent = _TPL[key] = (tpl, _snapshot(tpl), [float(x) for x in tpl.coords[TIME].values],
                           [float(x) for x in tpl.coords[FREQ].values])
    return key, ent


def real_coords(kind, c, cfg):
    dt, df, t0, f0 = CFGS[cfg]
    T = lambda u: t0 + u * dt  # noqa: E731
    Fq = lambda v: f0 + v * df  # noqa: E731
    if kind == "box":
        return [T(c[0]), Fq(c[1]), T(c[2]), Fq(c[3])]
    if kind == "interval":
        return [T(c[0]), T(c[1])]
    if kind == "stamp":
        return T(c)
    if kind == "point":
        return [T(c[0]), Fq(c[1])]
    if kind == "polyh":
        return [[[T(u), Fq(v)] for u, v in ring] for ring in c]
    if kind == "mpolyh":
        return [[[[T(u), Fq(v)] for u, v in ring] for ring in poly] for poly in c]
    return [[T(u), Fq(v)] for u, v in c]  # poly ring / line


GEOM_TYPE = {"box": "BoundingBox", "interval": "TimeInterval", "stamp": "TimeStamp", "point": "Point",
             "poly": "Polygon", "line": "LineString", "polyh": "Polygon", "mpolyh": "MultiPolygon"}


def make_geometry(kind, rc):
    return mkgeom(GEOM_TYPE[kind], [rc] if kind == "poly" else rc)


# ---------------------------------------------------------------- execution
def call(geoms, tpl, kw):
    try:
        return ("ok", rasterize(geoms, tpl, **kw))
    except Exception as e:  # noqa
        return ("reject" if is_rejection(e) else "crash", type(e).__name__, str(e)[:160])


def layout_of(nt, nf, order):
    if order == "ft":
        return "freq_first"
    return "time_first_square" if nt == nf else "time_first_non_square"


FLOAT64_VALUES = [0.1, 1e-6, 16777217.0, 0.30000000000000004]  # not representable in float32
FLOAT64_SCALAR = 0.7


def values_of(mode, n, dtype="float32"):
    """(values argument or None when not passed, per-geometry values or None when the length is wrong)."""
    if dtype == "float64":
        return _values_of(mode, n, FLOAT64_VALUES, FLOAT64_SCALAR)
    return _values_of(mode, n, LIST_VALUES, SCALAR_VALUE)


def _values_of(mode, n, LIST_VALUES, SCALAR_VALUE):
    if mode == "list":
        return LIST_VALUES[:n], LIST_VALUES[:n]
    if mode == "tuple":
        return tuple(LIST_VALUES[:n]), LIST_VALUES[:n]
    if mode == "scalar":
        return SCALAR_VALUE, [SCALAR_VALUE] * n
    if mode == "omit":
        return None, [1] * n
    if mode == "repeat":
        # interleaved repeat a, b, a, ...: burning geometries grouped by value would lose the overwrite order
        vals = [LIST_VALUES[i % 2] for i in range(n)]
        return vals, vals
    if mode == "longhole":
        return [], []  # replaced by the caller
    if mode == "hole":
        return LIST_VALUES[:n], LIST_VALUES[:n]  # replaced by the caller, which knows the fill value
    if mode == "short":
        return LIST_VALUES[:n - 1], None
    if mode == "long":
        return LIST_VALUES[:n + 1], None
    raise ValueError(mode)


def extract(res, nt, nf, tcoords, fcoords):
    """(problem or None, (nt, nf) array along (time, frequency))."""
    if not isinstance(res, xr.DataArray):
        return "not a DataArray: %s" % type(res).__name__, None
    if set(res.dims) != {TIME, FREQ} or len(res.dims) != 2:
        return "dims %r" % (res.dims,), None
    if res.sizes[TIME] != nt or res.sizes[FREQ] != nf:
        return "sizes %r" % (dict(res.sizes),), None
    cv = res.coords.variables
    if TIME not in cv or FREQ not in cv:
        return "coordinates missing: %r" % (list(cv),), None
    if cv[TIME].dims != (TIME,) or cv[FREQ].dims != (FREQ,):
        return "coordinates not along their own dimension", None
    if cv[TIME].values.tolist() != tcoords or cv[FREQ].values.tolist() != fcoords:
        return "coordinate values differ", None
    vals = np.asarray(res.values)
    return None, (vals if res.dims == (TIME, FREQ) else vals.T)


def run_case(case, singles=None):
    out = Out(case)
    nt, nf, order, cfg = case["t"]
    opts = case.get("o")
    contents = opts["contents"] if opts else "g1"
    tkey, (tpl, snap, tcoords, fcoords) = get_template(nt, nf, order, cfg, contents)
    nt, nf = len(tcoords), len(fcoords)
    layout = layout_of(nt, nf, order)
    specs = case["g"]
    n = len(specs)
    kinds = [k for k, _ in specs]
    gname = kinds[0] if n == 1 else ("none" if n == 0 else "list")  # violation class: single kind / list
    reals = [real_coords(k, c, cfg) for k, c in specs]
    geoms = [make_geometry(k, rc) for (k, _), rc in zip(specs, reals)]
    shapes = [rm.mapped_shape(k, rc, tcoords, fcoords, MAXF) for (k, _), rc in zip(specs, reals)]

    base_kw = {}
    fill, dtype = 0, "float32"
    if opts:
        fill, dtype = opts["fill"], opts["dtype"]
        arg, vals = values_of(opts["values"], n, dtype)
        if opts["values"] == "longhole":
            # long lists: the four list values in turn, every second geometry burning the FILL value
            vals = [fill if i % 2 else LIST_VALUES[(i // 2) % len(LIST_VALUES)] for i in range(n)]
            arg = list(vals)
        if opts["values"] == "hole":
            # every second geometry burns the FILL value (punching a hole into what earlier geometries marked)
            vals = [fill if i % 2 else v for i, v in enumerate(values_of("list", n, dtype)[1])]
            arg = list(vals)
        if arg is not None:
            base_kw["values"] = arg
        base_kw["fill"] = fill
        base_kw["dtype"] = getattr(np, dtype)
    else:
        vals = [1] * n

    calls = 0
    validated = 0
    cat = None
    marked = {}

    def untouched_check(cls):
        nonlocal tpl, snap
        same = _snapshot(tpl) == snap
        out.expect("template_untouched", same, "template changed by the call", "template identical before and after", cls)
        if not same:  # never let a damaged template leak into the next case
            _TPL.pop(tkey, None)
            _, (tpl, snap, _, _) = get_template(*tkey)

    for at in (False, True):
        kw = dict(base_kw, all_touched=at)
        r = call(geoms, tpl, kw)
        calls += 1
        cls = {"fn": FN, "kind": layout, "geom": gname}
        untouched_check({"fn": FN, "kind": layout})

        if vals is None:  # wrong-length value list: must be rejected before anything else
            validated += 1
            out.expect("length_mismatch_rejected", r[0] == "reject", list(r[:3]) if r[0] != "ok" else "returned an array",
                       "ValueError", {"fn": FN, "kind": opts["values"], "n": n})
            cat = cat or ("reject_len" if r[0] == "reject" else "len_" + r[0])
            continue

        if r[0] != "ok":
            if layout == "time_first_non_square" and r[0] == "reject":
                c = {"fn": FN, "kind": "time_first_non_square"}
            elif n == 0:
                c = {"fn": FN, "kind": "empty_list", "layout": layout, "exc": r[1]}
            else:
                c = {"fn": FN, "kind": "exception", "layout": layout, "exc": r[1], "geom": gname}
            out.fail("axes_are_templates", list(r), "an array over the template's time and frequency coordinates", c,
                     {"all_touched": at})
            for o in ("cells_equal_model" if not at else "all_touched_superset", "fill_elsewhere", "dtype_is_requested"):
                out.vac(o)
            cat = cat or "raise:" + r[1]
            continue

        res = r[1]
        problem, arr = extract(res, nt, nf, tcoords, fcoords)
        validated += 1
        if not out.expect("axes_are_templates", problem is None, problem,
                          "dims {time, frequency}, sizes (%d, %d), template coordinates" % (nt, nf),
                          {"fn": FN, "kind": layout + "_axes"}, {"all_touched": at}):
            cat = cat or "bad_axes"
            continue
        out.expect("dtype_is_requested", res.dtype == np.dtype(dtype), str(res.dtype), dtype, {"fn": FN, "kind": dtype})

        arrf = arr.astype(np.float64)
        exp, und, alts, ever = rm.expected(shapes, vals, fill, nt, nf, at)
        decided_ok = (~und) & (arrf == exp)
        allowed = arrf == exp
        for m, v in alts:
            allowed = allowed | (m & (arrf == v))
        und_ok = und & allowed
        good = decided_ok | und_ok
        detail = {"all_touched": at, "got": arr.tolist(), "expected": exp.tolist(), "unjudged": und.astype(int).tolist()}
        fill_cells = (~und) & (~ever)
        marked[at] = arrf != fill
        if n == 1 and singles is not None:
            singles[(tkey, fill, dtype, at, repr(specs[0]))] = marked[at]
        if not at:
            out.expect("cells_equal_model", bool(good.all()), arr.tolist(), exp.tolist(), cls, detail)
            dec = ~und
            if cat is None:
                if not dec.any():
                    cat = "all_unjudged"
                else:
                    has_m, has_f = bool((dec & ever).any()), bool((dec & ~ever).any())
                    cat = "mixed" if has_m and has_f else ("all_marked" if has_m else "all_fill")
                    if has_m and has_f:
                        out.nontrivial = True
        else:
            sure = (~und) & ever
            out.expect("all_touched_superset", bool((good | ~sure).all()), arr.tolist(), exp.tolist(), cls, detail)
        if fill_cells.any() or (at and und.any()):
            bad_fill = fill_cells & (arrf != fill)
            bad_und = (und & ~allowed) if at else np.zeros_like(und)
            out.expect("fill_elsewhere", not bool(bad_fill.any() or bad_und.any()), arr.tolist(), exp.tolist(), cls, detail)
        else:
            out.vac("fill_elsewhere")

        # closed form for lists of bounding boxes (independent of the point-in-shape path)
        if n >= 1 and all(k == "box" for k in kinds):
            cf = np.full((nt, nf), float(fill))
            for rc, v in zip(reals, vals):
                (i0, i1), (j0, j1) = rm.box_bins(rc, tcoords, fcoords)
                cf[i0:i1, j0:j1] = float(v)
            if not at:
                okcf = bool((arrf == cf).all())
            else:
                okcf = bool(((arrf != fill) | (cf == fill)).all())
            out.expect("bbox_closed_form", okcf, arr.tolist(), cf.tolist(), {"fn": FN, "kind": layout},
                       {"all_touched": at, "boxes": reals})

        # overwrite order: the list result is the sequential overwrite of the single-geometry results
        if n >= 2:
            comp = np.full((nt, nf), float(fill))
            usable = True
            for spec, g, v in zip(specs, geoms, vals):
                skey = (tkey, fill, dtype, at, repr(spec))
                mask = singles.get(skey) if singles is not None else None
                if mask is None:
                    # the footprint of one geometry is read from a raster burnt with a value other than the fill value
                    kw1 = dict(all_touched=at, fill=fill, dtype=getattr(np, dtype), values=[v if v != fill else fill + 1])
                    r1 = call([g], tpl, kw1)
                    calls += 1
                    untouched_check({"fn": FN, "kind": layout})
                    if r1[0] == "ok":
                        p1, a1 = extract(r1[1], nt, nf, tcoords, fcoords)
                        mask = (a1.astype(np.float64) != fill) if p1 is None else False
                    else:
                        mask = False
                    if singles is not None:
                        singles[skey] = mask
                if mask is False:
                    usable = False
                    break
                comp[mask] = float(v)
            if usable:
                out.expect("later_overwrites", bool((arrf == comp).all()), arr.tolist(), comp.tolist(), cls,
                           {"all_touched": at, "rule": "list result = single results written in list order"})
            else:
                out.vac("later_overwrites")

    if vals is not None and any(v == fill for v in vals):
        # a geometry that burns the fill value un-marks cells: 'all_touched marks a superset' is not a statement about such lists
        out.vac("all_touched_superset")
    elif False in marked and True in marked:
        # not a verdict: expose in the outcome histogram whether all_touched added anything at all
        cat = "%s+%s" % (cat, "at_adds" if bool((marked[True] & ~marked[False]).any()) else "at_same")
        out.expect("all_touched_superset", bool((marked[True] | ~marked[False]).all()),
                   marked[True].astype(int).tolist(), "superset of " + str(marked[False].astype(int).tolist()),
                   {"fn": FN, "kind": "line_string_all_touched"} if "line" in kinds else
                   {"fn": FN, "kind": layout, "geom": gname, "pair": "all_touched False vs True"})
    elif vals is not None:
        out.vac("all_touched_superset")

    out.transitions = calls
    out.validated = validated
    out.klass = "%s:%s" % (layout, cat)
    return out


def long_list_cases():
    """Lists of 63 .. 130 geometries (the 10-member pool of a 3 x 3 template over and over, each time in another rotation)."""
    P = pool(3, 3)
    for n in (63, 64, 65, 70, 130):
        geoms = [P[(i * 7 + i // 10) % len(P)] for i in range(n)]
        for order in ORDERS:
            for fill in (0, -1):
                yield {"sp": "list", "t": [3, 3, order, "A"], "g": geoms,
                       "o": {"values": "longhole", "fill": fill, "dtype": "float32", "contents": "g1"}}


OCT_F = [125.0 * 2 ** k for k in range(8)]
OCT_T = [0.0, 1.0, 2.0, 3.0, 4.0]


def octave_cases():
    """Boxes on a template whose frequency axis is NOT regularly spaced (octave bands): every pair of edges among the band
    edges and their geometric middles x every pair of time edges among bin edges and middles, both dimension orders."""
    fpos = sorted(set(OCT_F + [math.sqrt(a * b) for a, b in zip(OCT_F, OCT_F[1:])]))
    tpos = [0.0, 0.5, 1.0, 2.5, 3.0, 4.0]
    for order in ORDERS:
        for a, b in itertools.combinations(tpos, 2):
            for c, d in itertools.combinations(fpos, 2):
                yield {"sp": "octave", "order": order, "box": [a, c, b, d]}


DEC_T = [float(i) for i in range(10)]            # every 2nd sample of a 0.5 s range axis
DEC_F = [750.0 * i for i in range(8)]            # every 3rd bin of a 250 Hz range axis


def decimated_cases():
    """Boxes on a template cut from a finer one with isel (every 2nd time sample, every 3rd frequency bin): xarray keeps the
    coordinates' attributes, so both axes still advertise the finer step; the bins are those of the coordinates."""
    tpos = [0.0, 0.5, 1.0, 2.5, 3.0, 4.75, 7.0, 9.0]
    fpos = [0.0, 250.0, 750.0, 1000.0, 2250.0, 3000.0, 4500.0, 5250.0]
    for order in ORDERS:
        for a, b in itertools.combinations(tpos, 2):
            for c, d in itertools.combinations(fpos, 2):
                yield {"sp": "octave", "axes": "decimated", "order": order, "box": [a, c, b, d]}


def run_octave(case):
    import bisect
    from soundevent import data
    out = Out(case)
    order = case["order"]
    a, c, b, d = case["box"]
    dims = [FREQ, TIME] if order == "ft" else [TIME, FREQ]
    if case.get("axes") == "decimated":
        OCT_T, OCT_F = DEC_T, DEC_F
        ft = arrays.create_time_range(0.0, 10.0, step=0.5)
        ff = arrays.create_frequency_range(0.0, 6000.0, step=250.0)
        shape = (ff.size, ft.size) if order == "ft" else (ft.size, ff.size)
        tpl = xr.DataArray(np.full(shape, 9.0), dims=dims, coords={TIME: ft, FREQ: ff}).isel({TIME: slice(None, None, 2), FREQ: slice(None, None, 3)})
        assert [float(v) for v in tpl.coords[TIME].data] == DEC_T and [float(v) for v in tpl.coords[FREQ].data] == DEC_F
        cls = {"fn": "rasterize", "geom": "box", "kind": "decimated_axes", "order": order}
    else:
        OCT_T, OCT_F = globals()["OCT_T"], globals()["OCT_F"]
        shape = (len(OCT_F), len(OCT_T)) if order == "ft" else (len(OCT_T), len(OCT_F))
        t = arrays.create_time_range(0.0, 5.0, step=1.0)
        tpl = xr.DataArray(np.full(shape, 9.0), dims=dims, coords={TIME: t, FREQ: xr.Variable(FREQ, np.array(OCT_F))})
        cls = {"fn": "rasterize", "geom": "box", "kind": "octave_axis", "order": order}
    out.transitions = out.validated = 1
    try:
        r = rasterize([data.BoundingBox(coordinates=[a, c, b, d])], tpl, values=[3.0])
    except Exception as e:  # noqa
        out.fail("cells_equal_model", ["crash" if not is_rejection(e) else "reject", type(e).__name__], "a raster", cls)
        return out
    got = np.asarray(r.transpose(TIME, FREQ).values, dtype=float)
    bt = lambda x: bisect.bisect_right(OCT_T, x) - 1  # noqa: E731
    bf = lambda x: bisect.bisect_right(OCT_F, x) - 1  # noqa: E731
    exp = np.zeros((len(OCT_T), len(OCT_F)))
    exp[bt(a):bt(b), bf(c):bf(d)] = 3.0
    out.nontrivial = bool(exp.any())
    out.expect("cells_equal_model", got.shape == exp.shape and np.array_equal(got, exp), got.tolist(), exp.tolist(), cls)
    out.klass = "octave:%s:%s" % (order, "some" if exp.any() else "none")
    return out


def run_block(block, rec):
    sp = block["sp"]
    if sp == "octave":
        for case in octave_cases():
            rec.add(run_octave(case))
        for case in decimated_cases():
            rec.add(run_octave(case))
        return
    if sp == "longlist":
        singles = {}
        for case in long_list_cases():
            rec.add(run_case(case, singles))
        return
    if sp == "list":
        singles = {}
        last_t = None
        for case in list_cases(block):
            if case["t"] != last_t:
                singles.clear()
                last_t = case["t"]
            rec.add(run_case(case, singles))
    else:
        i, n = block["shard"], block["of"]
        for idx, case in enumerate(SPACE_FN[sp](block["tier"])):
            if idx % n == i:
                rec.add(run_case(case))


def replay_case(case):
    if case.get("sp") == "octave":
        return run_octave(case)
    return run_case(case)
