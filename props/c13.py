"""C13 — Grouping returns the connected components of the similarity graph.

Exhaustive over every labelled undirected simple graph on n nodes (n = 0..6 quick, 0..7 thorough).
Node k is a fixed ``data.SoundEvent`` (built once per process, fixed uuids); the comparison function
looks the unordered pair of positions up in the edge set of the graph and records every call.
Reference model: union-find over the edge list (never calls the library).
"""
from __future__ import annotations

import numpy as np

from soundevent import data
from soundevent.geometry import group_sound_events

from mc.runner import Out
from mc.space import graph_from_mask, graphs_size
from props.common import U, mkgeom, recording

ID = "C13"
FN = "group_sound_events"
RULE = (
    "[big] one block of single large or mid-size members beyond the exhaustive bound: cliques K257 / K400, K256,256, paths of 65 / 97 / 193 / 300 events, a star "
    "with a path, and a FIXED LIST of 80 labelled trees on 32 and 48 events (vertex numbering and shape drawn once from a linear congruential sequence; "
    "a fixed sample of the family of labelled trees, not the family - every listed member is run). Graphs up to 5 / 6 events are additionally run with "
    "events of two recordings and with the events given latest first. "
    "[representations] for n <= the pattern bound every graph is also run with a comparison function answering numpy.bool_ / int instead of bool, and with the "
    "last list element being an equal-valued deep copy of an earlier one (graph over list positions, judged on values). "
    "every labelled undirected simple graph on n nodes (all 2^(n(n-1)/2) edge masks for each n in the bound), "
    "realised as n distinct sound events in input order and a symmetric comparison function that looks the "
    "unordered pair up in the edge set and records its calls; one call of group_sound_events per graph. "
    "A case is non-trivial when the graph has at least one edge and at least one non-edge (so both answers of "
    "the comparison function occur); distinct = distinct (n, mask, geometry pattern). For graphs on up to 5 (quick) / 6 "
    "(thorough) nodes every graph is additionally run with the geometry removed from the even-positioned events and from the "
    "first event only (grouping is defined by the comparison function, not by geometries). Outcome class = n and the multiset of "
    "component sizes returned."
)
ASSUMPTIONS = [
    "the n input sound events are pairwise distinct objects with pairwise distinct uuids. A list in which the same "
    "SoundEvent object occurs twice is NOT enumerated: the statement is phrased over 'a symmetric relation on the "
    "events', 'every event in exactly one sequence' and 'pairs of distinct input events', none of which is defined "
    "when one event occupies two positions (the comparison of the two occurrences is the reflexive pair (x, x), "
    "which the statement forbids calling and a symmetric relation need not define)",
    "the comparison function is symmetric by construction (lookup of the unordered pair) and pure; asymmetric or "
    "stateful comparison functions are outside the property",
    "the order of the returned sequences is not specified by the property and is not judged; only the order inside "
    "each sequence is",
    "events are identified in the output by uuid (not by object identity): an implementation returning equal copies "
    "would pass",
    "the property's 'random larger graphs' clause is sampling and is not the deciding step of this check; the 80 labelled trees of the big block are a fixed, "
    "listed set of additional members (same list on every run), reported as such",
    "it is not required that every unordered pair is compared (an implementation may skip pairs already known to be "
    "connected); only that no forbidden pair is",
]

NMAX = {"quick": 6, "thorough": 7}
BLOCK = {6: 1024, 7: 32768}  # masks per block for the big n


def bounds(tier):
    nmax = NMAX[tier]
    return {
        "nodes": list(range(nmax + 1)),
        "graphs_per_n": {str(n): graphs_size(n) for n in range(nmax + 1)},
        "graphs_total": sum(graphs_size(n) for n in range(nmax + 1)),
        "duplicates_by_identity": "not enumerated (outside the statement, see assumptions)",
    }


# ---------------------------------------------------------------- fixed objects (once per process)
_EVENTS = None
_POS = None


def events():
    global _EVENTS, _POS
    if _EVENTS is None:
        rec = recording(duration=100.0)
        geoms = [
            ("TimeInterval", [0.0, 1.0]), ("TimeStamp", 1.5), ("BoundingBox", [2.0, 500.0, 3.0, 1500.0]),
            ("Point", [3.5, 1000.0]), ("TimeInterval", [4.0, 5.0]), ("LineString", [[5.0, 500.0], [6.0, 1500.0]]),
            ("TimeInterval", [6.0, 7.0]), ("TimeStamp", 7.5),
        ]
        _EVENTS = [
            data.SoundEvent(uuid=U("c13:se:%d" % i), recording=rec, geometry=mkgeom(t, c))
            for i, (t, c) in enumerate(geoms)
        ]
        _POS = {se.uuid: i for i, se in enumerate(_EVENTS)}
    return _EVENTS


_VARIANTS = {}
PATTERNS = ("all", "even_none", "first_none", "two_recordings", "reversed_times")


def events_variant(pattern):
    """The same events (same uuids), with the geometry removed from some of them: a sound event may have no geometry, and
    grouping is defined by the comparison function alone."""
    if pattern == "all":
        return events()
    if pattern == "reversed_times" and pattern not in _VARIANTS:
        # the events are given latest first (the geometries in reverse order): 'input order' is the order of the list, not of time
        evs = events()
        _VARIANTS[pattern] = [
            data.SoundEvent(uuid=se.uuid, recording=se.recording, geometry=evs[len(evs) - 1 - i].geometry)
            for i, se in enumerate(evs)
        ]
    if pattern == "two_recordings" and pattern not in _VARIANTS:
        # every second event belongs to another recording: similarity is the comparison function's business alone
        other = recording(name="r2", path="/data/r2.wav", duration=100.0)
        _VARIANTS[pattern] = [
            data.SoundEvent(uuid=se.uuid, recording=other if i % 2 else se.recording, geometry=se.geometry)
            for i, se in enumerate(events())
        ]
    if pattern not in _VARIANTS:
        drop = (lambda i: i % 2 == 0) if pattern == "even_none" else (lambda i: i == 0)
        _VARIANTS[pattern] = [
            data.SoundEvent(uuid=se.uuid, recording=se.recording, geometry=None if drop(i) else se.geometry)
            for i, se in enumerate(events())
        ]
    return _VARIANTS[pattern]


# ---------------------------------------------------------------- model
def components(n, edges):
    """Union-find; returns the components as a set of increasing position tuples."""
    parent = list(range(n))

    def find(x):
        while parent[x] != x:
            parent[x] = parent[parent[x]]
            x = parent[x]
        return x

    for a, b in edges:
        ra, rb = find(a), find(b)
        if ra != rb:
            parent[max(ra, rb)] = min(ra, rb)
    groups = {}
    for i in range(n):
        groups.setdefault(find(i), []).append(i)
    return {tuple(g) for g in groups.values()}


# ---------------------------------------------------------------- blocks / cases
PATTERN_NMAX = {"quick": 5, "thorough": 6}  # geometry-less variants are run for graphs up to this many nodes


def big_graphs():
    """(name, n, edge list) of a few graphs far beyond the exhaustive bound: degrees of 256 and more, a long path."""
    yield "K257", 257, [(i, j) for i in range(257) for j in range(i + 1, 257)]
    yield "K257+3iso", 260, [(i, j) for i in range(257) for j in range(i + 1, 257)]
    yield "K256,256", 512, [(i, 256 + j) for i in range(256) for j in range(256)]
    yield "path300", 300, [(i, i + 1) for i in range(299)]
    yield "path97", 97, [(i, i + 1) for i in range(96)]      # sizes one past a multiple of 96 / 64 / 32
    yield "path193", 193, [(i, i + 1) for i in range(192)]
    yield "path65", 65, [(i, i + 1) for i in range(64)]
    yield "K400", 400, [(i, j) for i in range(400) for j in range(i + 1, 400)]  # 79800 similar pairs (more than 2^16)
    yield "star300+path", 310, [(0, i) for i in range(1, 300)] + [(300 + i, 301 + i) for i in range(9)]
    # mid-size sparse graphs with arbitrary vertex numbering: 40 labelled trees on 32 and on 48 events (a fixed list, generated by a
    # linear congruential sequence), each with two extra isolated events; deep merge orders that paths, stars and cliques never produce
    for n in (32, 48):
        for seed in range(40):
            yield "tree%d_%d" % (n, seed), n + 2, _lcg_tree(n, seed)


def _lcg_tree(n, seed):
    state = [seed * 1000 + n]

    def nxt():
        state[0] = (state[0] * 6364136223846793005 + 1442695040888963407) % (2 ** 64)
        return state[0] >> 33
    perm = list(range(n))
    for i in range(n - 1, 0, -1):
        j = nxt() % (i + 1)
        perm[i], perm[j] = perm[j], perm[i]
    edges = []
    for k in range(1, n):
        a, b = perm[k], perm[nxt() % k]
        edges.append((min(a, b), max(a, b)))
    return sorted(edges)


def run_big(case):
    out = Out(case)
    name, n, edges = next(g for g in big_graphs() if g[0] == case["graph"])
    rec = recording(duration=100.0)
    evs = [data.SoundEvent(uuid=U("c13:big:%d" % i), recording=rec, geometry=mkgeom("TimeStamp", float(i))) for i in range(n)]
    pos = {e.uuid: i for i, e in enumerate(evs)}
    edge_set = set(edges)

    def compare(a, b):
        i, j = pos[a.uuid], pos[b.uuid]
        return ((i, j) if i < j else (j, i)) in edge_set
    expected = sorted(components(n, edges))
    out.transitions = out.validated = 1
    out.nontrivial = True
    try:
        result = group_sound_events(evs, compare)
        got = sorted(tuple(sorted(pos[se.uuid] for se in s.sound_events)) for s in result)
    except Exception as e:  # noqa
        out.fail("components", ["exception", type(e).__name__], "%d components" % len(expected), _cls("exception", exc=type(e).__name__, big=name))
        return out
    out.expect("components", got == [tuple(c) for c in expected], {"n_sequences": len(got), "sizes": sorted(len(g) for g in got)[-3:]},
               {"n_sequences": len(expected), "sizes": sorted(len(c) for c in expected)[-3:]}, _cls("big", big=name))
    out.klass = "big:%s" % ("ok" if not out.viol else "differs")
    return out


def blocks(tier):
    nmax = NMAX[tier]
    out = [{"big": 1, "tier": tier}]
    # n <= 5: 1 + 1 + 2 + 8 + 64 + 1024 graphs
    out.append({"n": [0, 1, 2, 3, 4], "lo": 0, "hi": None, "tier": tier})
    for lo in range(0, graphs_size(5), 256):
        out.append({"n": [5], "lo": lo, "hi": lo + 256, "tier": tier})
    for n in range(6, nmax + 1):
        step = BLOCK[n]
        for lo in range(0, graphs_size(n), step):
            out.append({"n": [n], "lo": lo, "hi": lo + step, "tier": tier})
    return out


def run_block(block, rec):
    if block.get("big"):
        for name, _, _ in big_graphs():
            rec.add(run_big({"big": 1, "graph": name}))
        return
    events()
    for n in block["n"]:
        total = graphs_size(n)
        lo = block["lo"]
        hi = total if block["hi"] is None else min(block["hi"], total)
        for mask in range(lo, hi):
            rec.add(run_case({"n": n, "mask": mask}))
            if n <= PATTERN_NMAX[block.get("tier", "quick")] and n >= 1:
                for pattern in PATTERNS[1:]:
                    rec.add(run_case({"n": n, "mask": mask, "geom": pattern}))
                if n >= 2:
                    # the comparison function answers with a numpy boolean / an int instead of a Python bool
                    for ret in RETURNS[1:]:
                        rec.add(run_case({"n": n, "mask": mask, "ret": ret}))
                    # the last list element is an equal-valued deep copy of an earlier one (two list elements, one value)
                    rec.add(run_twin_case({"n": n, "mask": mask, "twin": mask % (n - 1)}))


def _cls(kind, **kw):
    d = {"fn": FN, "kind": kind}
    d.update(kw)
    return d


def run_case(case):
    out = Out(case)
    n, mask = case["n"], case["mask"]
    evs = events_variant(case.get("geom", "all"))[:n]
    pos = _POS
    edges = graph_from_mask(n, mask)
    edge_set = set(edges)
    calls = []

    wrap = {"bool": bool, "np_bool": np.bool_, "int": int}[case.get("ret", "bool")]

    def compare(a, b):
        i, j = pos.get(getattr(a, "uuid", None), -1), pos.get(getattr(b, "uuid", None), -1)
        calls.append((i, j))
        return wrap(((i, j) if i < j else (j, i)) in edge_set)

    expected = components(n, edges)
    try:
        result = group_sound_events(list(evs), compare)
        err = None
    except Exception as e:  # noqa - the input is in the domain: any exception is a violation
        result, err = None, type(e).__name__

    out.transitions = 1
    out.validated = 1
    npairs = n * (n - 1) // 2
    out.nontrivial = 0 < len(edges) < npairs

    if err is not None:
        out.klass = "n%d:exception" % n
        oracle = "empty" if n == 0 else "components"
        out.fail(oracle, ["exception", err], sorted(expected), _cls("exception", exc=err))
        return out

    # ---- result_type: a list of data.Sequence
    type_ok = isinstance(result, list) and all(isinstance(s, data.Sequence) for s in result)
    out.expect("result_type", type_ok, type(result).__name__ if not isinstance(result, list) else
               sorted({type(s).__name__ for s in result}), "list[data.Sequence]", _cls("not_list_of_sequence"))
    try:
        got = [[pos.get(getattr(se, "uuid", None), -1) for se in s.sound_events] for s in result]
    except Exception as e:  # noqa
        out.klass = "n%d:unreadable" % n
        out.fail("partition", ["unreadable result", type(e).__name__], sorted(expected), _cls("unreadable"))
        return out

    # ---- empty: [] -> []
    if n == 0:
        out.expect("empty", got == [], got, [], _cls("not_empty"))
    else:
        out.vac("empty")

    # ---- partition: every input position in exactly one sequence, nothing foreign, no empty sequence
    flat = [p for g in got for p in g]
    if any(p < 0 or p >= n for p in flat):
        out.fail("partition", got, sorted(expected), _cls("foreign_event"))
    elif any(len(g) == 0 for g in got):
        out.fail("partition", got, sorted(expected), _cls("empty_sequence"))
    elif len(set(flat)) < len(flat):
        out.fail("partition", got, sorted(expected), _cls("event_repeated"))
    elif len(set(flat)) < n:
        out.fail("partition", got, sorted(expected), _cls("event_missing"))
    else:
        out.ok("partition")

    # ---- order_kept: input order inside each sequence
    if all(len(g) < 2 for g in got):
        out.vac("order_kept")
    else:
        out.expect("order_kept", all(g[k] < g[k + 1] for g in got for k in range(len(g) - 1)), got,
                   "increasing input positions inside each sequence", _cls("order"))

    # ---- components: same sequence <=> connected
    got_sets = sorted(tuple(sorted(g)) for g in got)
    exp_sorted = sorted(expected)
    if got_sets == exp_sorted:
        out.ok("components")
    else:
        where = {}
        for k, g in enumerate(got):
            for p in g:
                where.setdefault(p, k)
        comp_of = {p: c for c in expected for p in c}
        merged = any(where.get(a) is not None and where.get(a) == where.get(b) and comp_of[a] != comp_of[b]
                     for a in range(n) for b in range(a + 1, n))
        split = any(where.get(a) is not None and where.get(b) is not None and where[a] != where[b]
                    and comp_of[a] == comp_of[b] for a in range(n) for b in range(a + 1, n))
        kind = "merged_and_split" if merged and split else "merged" if merged else "split" if split else "other"
        out.fail("components", got, exp_sorted, _cls(kind), {"edges": [list(e) for e in edges]})

    # ---- calls: only pairs of distinct positions, each unordered pair at most once, never (x, x)
    bad = None
    seen = set()
    for i, j in calls:
        if i < 0 or j < 0 or i >= n or j >= n:
            bad = bad or "unknown_event"
        elif i == j:
            bad = bad or "self_pair"
        else:
            k = (i, j) if i < j else (j, i)
            if k in seen:
                bad = bad or "repeated_pair"
            seen.add(k)
    if n < 2:
        # no pair of distinct events exists: the function must not be called at all
        out.expect("calls", not calls, calls, [], _cls("called_without_pair"))
    else:
        out.expect("calls", bad is None, calls if bad else None, "distinct positions, each unordered pair at most once",
                   _cls(bad or ""))

    out.klass = "n%d:%s" % (n, "+".join(str(len(g)) for g in sorted(got, key=lambda g: -len(g))) or "none")
    return out


RETURNS = ("bool", "np_bool", "int")
_TWINS = {}


def run_twin_case(case):
    """n list elements of which the last is a deep copy of element `twin`; the graph is over list POSITIONS.  Judged on values
    only (labels = uuid positions), so nothing depends on whether the library hands back the very same objects."""
    out = Out(case)
    n, mask, k = case["n"], case["mask"], case["twin"]
    base = events()
    if k not in _TWINS:
        _TWINS[k] = base[k].model_copy(deep=True)
    evs = list(base[:n - 1]) + [_TWINS[k]]
    label = list(range(n - 1)) + [k]
    node_by_id = {id(e): i for i, e in enumerate(evs)}
    edges = graph_from_mask(n, mask)
    edge_set = set(edges)

    def compare(a, b):
        i = node_by_id.get(id(a), _POS.get(getattr(a, "uuid", None), -1))
        j = node_by_id.get(id(b), _POS.get(getattr(b, "uuid", None), -1))
        return ((i, j) if i < j else (j, i)) in edge_set

    expected = sorted(sorted(label[p] for p in c) for c in components(n, edges))
    out.transitions = out.validated = 1
    out.nontrivial = True
    try:
        result = group_sound_events(evs, compare)
        got = sorted(sorted(_POS.get(se.uuid, -1) for se in s.sound_events) for s in result)
    except Exception as e:  # noqa
        out.fail("components", ["exception", type(e).__name__], expected, _cls("exception", exc=type(e).__name__, twin=True))
        out.klass = "twin:exception"
        return out
    flat = sorted(p for g in got for p in g)
    out.expect("partition", flat == sorted(label), got, expected, _cls("event_missing" if len(flat) < n else "event_repeated", twin=True))
    out.expect("components", got == expected, got, expected, _cls("twin"), {"edges": [list(e) for e in edges]})
    out.klass = "twin:%s" % ("ok" if not out.viol else "differs")
    return out


def replay_case(case):
    if "big" in case:
        return run_big(case)
    if "twin" in case:
        events()
        return run_twin_case(case)
    events()
    return run_case(case)
