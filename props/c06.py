"""C06 — Affinity is a symmetric intersection-over-union in [0, 1].

Exhaustive over ALL ordered pairs of a pool of lattice geometries (9 types x placements:
overlapping, touching, nested, disjoint in time, disjoint in frequency only, at t = 0 and
f in {0, MAX_FREQUENCY}, zero-extent) x every admissible buffer pair (+ the function's default
buffers) x time shifts {0, 1, 2.5}.  Reference model: models.affinity (Fraction IoU of boxes and
of time extents); the buffered form of the 0/1-dimensional kinds is read from the public
``buffer_geometry`` (decided by C11), never from "coordinate +/- buffer".

Reading of the source that the model states explicitly: ``compute_affinity`` applies the buffers
ONLY to TimeStamp, Point, MultiPoint, LineString and MultiLineString.  TimeInterval, BoundingBox,
Polygon and MultiPolygon are compared as given, so "the buffered boxes" of ``bbox_iou`` are the
boxes themselves, and the "(buffered) time extent" of an interval is the interval.
"""
from __future__ import annotations

import math

import numpy as np
from fractions import Fraction as F

from soundevent.evaluation import compute_affinity
from soundevent.geometry import buffer_geometry

from mc.runner import Out
from models import affinity as am
from models import geometry as gm
from props.common import GEOM_CLASSES, MAXF, is_rejection, mkgeom

ID = "C06"
RULE = (
    "[representations] at dt = 0 every case is also evaluated with both geometries as instances of user subclasses of the geometry classes and, "
    "for whole-number buffers, with the buffers given as int / numpy.int64 / numpy.float64: same value required. "
    "every ordered pair (g, h) of the geometry pool (all 81 type combinations, self pairs included) x every "
    "buffer pair of the grid that the quantifier admits for the two types (+ one case calling with the default "
    "buffers); each case evaluates a(g,h) and a(h,g) for the pair as given and shifted by every dt (all oracles "
    "are applied to the shifted pairs too). A case is non-trivial when the unshifted affinity is strictly between "
    "0 and 1 (partial overlap), so that range/symmetry/closed forms are not satisfied by a constant; distinct = "
    "distinct case descriptor. validated counts the affinities compared with an exact model value "
    "(bbox_iou, time_only_iou, self_is_one, time_/freq_disjoint_zero)."
)
ASSUMPTIONS = [
    "compute_affinity buffers only TimeStamp, Point, MultiPoint, LineString, MultiLineString (read from the source and the "
    "docstring: '0 or 1-dimensional geometries are buffered'); intervals, boxes and (multi)polygons are compared unbuffered, so "
    "bbox_iou is the IoU of the boxes as given for every buffer pair",
    "the buffered form of a 0/1-dimensional kind is the result of the public buffer_geometry (C11 decides it); its extent is the "
    "min/max walk over the returned coordinates, so polygonised caps (F11) cannot cause a false alarm here",
    "buffer pairs with a zero component are outside the quantifier when a 0/1-dimensional kind is involved (TimeStamp: time "
    "buffer only) and are not enumerated",
    "lattice A is dyadic (times multiples of 1/32, frequencies integers): box and interval arithmetic in the implementation is "
    "exact; lattice B (thorough) is generic and judged with the same declared tolerances",
    "tolerances: range, <= 1 and == 0 exact; symmetric, self >= 1 - 1e-9, shift 1e-9 (not judged for buffered kinds under the 2^-30 s buffer: the extent is then ~1e-7 of the coordinates' rounding); bbox_iou, time_only_iou 1e-12",
    "freq_disjoint_zero (exactly 0 when neither side is time-only and the buffered frequency extents are disjoint) is an extra "
    "sub-oracle implied by 'intersection over union'; it is not listed in DESIGN.md",
    "self-intersecting polygons are outside the quantifier; polygons in the pool are simple (triangle, rectangle with a hole)",
]

TIME_BUFFERS = [0, 2.0 ** -30, 2.0 ** -7, 0.01, 0.5, 2.0]  # 2^-30 s (1 ns): extents far below any 'is it zero?' tolerance;  # 2.0: a time buffer above 1 s (larger than the pooled geometries)
FREQ_BUFFERS = [0, 1, 100]
SHIFTS = [0, 1, 2.5]
OFFSET_B = (0.013, 77)
TOL_SYM = F(1, 10 ** 9)
TOL_EXACT = F(1, 10 ** 12)

# (t0, t1, f0, f1); index 0 is the base everything else is placed against
PLACEMENTS_QUICK = [
    (1, 2, 1000, 2000),             # 0 base
    (1.5, 2.5, 1500, 2500),         # 1 overlapping the base
    (2, 3, 2000, 3000),             # 2 touching the base (t = 2 and f = 2000)
    (1.25, 1.75, 1250, 1750),       # 3 nested in the base
    (4, 5, 1000, 2000),             # 4 disjoint in time (touches 2 after a 0.5 s buffer)
    (1, 2, MAXF - 1000, MAXF),      # 5 disjoint in frequency only, reaches MAX_FREQUENCY
    (0, 1, 0, 1000),                # 6 at t = 0 and f = 0
    (2, 2, 1000, 2000),             # 7 zero duration (zero-union guard; only the types that allow it)
]
PLACEMENTS_THOROUGH = PLACEMENTS_QUICK + [
    (0, 0.5, 2000, 3000),           # 8 at t = 0 only
    (0.875, 2.125, 875, 2125),      # 9 contains the base
    (3, 3.125, 1000, 1125),         # 10 tiny
    (2.5, 4.5, 0, MAXF),            # 11 full band
    (6, 7.5, 2500, 2625),           # 12 far, flat
    (3, 3.5, MAXF, MAXF),           # 13 zero bandwidth at MAX_FREQUENCY
]


def realise(gtype, idx, pl):
    """Coordinates of a geometry of the given type filling placement pl as far as the type allows; None if impossible."""
    t0, t1, f0, f1 = pl
    tm, fm = (t0 + t1) / 2, (f0 + f1) / 2
    flat = t0 == t1 or f0 == f1
    if gtype == "TimeStamp":
        return t0
    if gtype == "TimeInterval":
        return [t0, t1]
    if gtype == "Point":
        return [t0, f1] if f1 == MAXF else [t0, f0]
    if gtype == "BoundingBox":
        return [t0, f0, t1, f1]
    if gtype == "MultiPoint":
        return [[t0, f0], [t1, f1]] if (t0, f0) != (t1, f1) else [[t0, f0]]
    if gtype == "LineString":
        if flat:
            return [[t0, f0], [t1, f1]]
        return [[t0, f0], [tm, f1], [t1, fm]]
    if flat:
        return None
    if gtype == "Polygon":
        if idx % 2 == 0:
            return [[[t0, f0], [t1, f0], [tm, f1]]]
        tq, tr = t0 + (t1 - t0) / 4, t0 + 3 * (t1 - t0) / 4
        fq, fr = f0 + (f1 - f0) / 4, f0 + 3 * (f1 - f0) / 4
        return [[[t0, f0], [t1, f0], [t1, f1], [t0, f1]], [[tq, fq], [tq, fr], [tr, fr], [tr, fq]]]
    if gtype == "MultiLineString":
        return [[[t0, f0], [tm, f1]], [[tm, fm], [t1, f0]]]
    if gtype == "MultiPolygon":
        return [[[[t0, f0], [tm, f0], [t0, f1]]], [[[tm, f1], [t1, f1], [t1, f0]]]]
    raise ValueError(gtype)


def _offset(c, dt, df):
    if isinstance(c, (int, float)):
        return c + dt
    if isinstance(c[0], (int, float)):
        if len(c) == 2:
            return [c[0] + dt, min(c[1] + df, MAXF)]
        return [c[0] + dt, min(c[1] + df, MAXF), c[2] + dt, min(c[3] + df, MAXF)]
    return [_offset(x, dt, df) for x in c]


def offset_b(gtype, c):
    if gtype == "TimeStamp":
        return c + OFFSET_B[0]
    if gtype == "TimeInterval":
        return [c[0] + OFFSET_B[0], c[1] + OFFSET_B[0]]
    return _offset(c, *OFFSET_B)


_POOLS = {}


def geom_pool(tier):
    if tier in _POOLS:
        return _POOLS[tier]
    pls = PLACEMENTS_QUICK if tier == "quick" else PLACEMENTS_THOROUGH
    pool = []
    for lat in (("A",) if tier == "quick" else ("A", "B")):
        for idx, pl in enumerate(pls):
            for gtype in gm.TYPES:
                c = realise(gtype, idx, pl)
                if c is None:
                    continue
                if lat == "B":
                    c = offset_b(gtype, c)
                assert gm.valid(gtype, c), (gtype, c)
                pool.append({"type": gtype, "coordinates": c, "id": "%s%d" % (lat, idx)})
    # a line that doubles back in time with a sharp turn at its latest point: its buffered time extent depends on how the corner
    # is joined, so the affinity to time-only geometries tells whether the internal buffering is the public buffer_geometry
    hook = [[1, 1000], [2, 1500], [1.2, 1550]]
    assert gm.valid("LineString", hook)
    pool.append({"type": "LineString", "coordinates": hook, "id": "hook"})
    # extents that merely touch at a decimal end point (0.3 is not a binary fraction): touching is disjoint, affinity exactly 0
    for gid, gtype, c in (("dec_a", "TimeInterval", [0.0, 0.3]), ("dec_b", "TimeInterval", [0.3, 0.9]),
                          ("dec_c", "BoundingBox", [0.3, 1000, 0.9, 2000]), ("dec_d", "BoundingBox", [0.1, 1000, 0.3, 2000])):
        assert gm.valid(gtype, c)
        pool.append({"type": gtype, "coordinates": c, "id": gid})
    _POOLS[tier] = pool
    return pool


def buffer_configs(ta, tb_):
    """Admissible buffer settings for a pair of types: [tb, fb] pairs of the grid, then None = the function's defaults."""
    out = []
    for tb in TIME_BUFFERS:
        for fb in FREQ_BUFFERS:
            if am.buffers_admissible((ta, tb_), tb, fb):
                out.append([tb, fb])
    out.append(None)
    return out


def n_blocks(tier):
    return 64 if tier == "quick" else 128


def bounds(tier):
    pool = geom_pool(tier)
    n = len(pool)
    cases = sum(len(buffer_configs(g["type"], h["type"])) for g in pool for h in pool)
    per_type = {}
    for g in pool:
        per_type[g["type"]] = per_type.get(g["type"], 0) + 1
    return {
        "placements": [list(p) for p in (PLACEMENTS_QUICK if tier == "quick" else PLACEMENTS_THOROUGH)],
        "lattices": ["A (dyadic)"] if tier == "quick" else ["A (dyadic)", "B = A + (0.013 s, 77 Hz), frequencies capped at MAX_FREQUENCY"],
        "pool_size": n, "pool_per_type": per_type, "ordered_pairs": n * n,
        "time_buffers": TIME_BUFFERS, "freq_buffers": FREQ_BUFFERS, "plus_default_buffers": [am.DEFAULT_TIME_BUFFER, am.DEFAULT_FREQ_BUFFER],
        "shifts": SHIFTS, "cases": cases,
        "tolerances": {"symmetric": 1e-9, "self_is_one_lower": 1e-9, "shift_invariant": 1e-9, "bbox_iou": 1e-12, "time_only_iou": 1e-12,
                       "range": 0, "time_disjoint_zero": 0, "freq_disjoint_zero": 0},
    }


def blocks(tier):
    n = n_blocks(tier)
    return [{"tier": tier, "k": k, "n": n} for k in range(n)]


def run_block(block, rec):
    pool = geom_pool(block["tier"])
    k, n = block["k"], block["n"]
    idx = 0
    for g in pool:
        for h in pool:
            mine = idx % n == k
            idx += 1
            if not mine:
                continue
            for cfg in buffer_configs(g["type"], h["type"]):
                case = {"g": g, "h": h}
                if cfg is None:
                    case["buf"] = "default"
                else:
                    case["tb"], case["fb"] = cfg
                rec.add(run_case(case))


# ---------------------------------------------------------------- execution of one case
_OBJ = {}
_PREP = {}


def _real(gtype, coords, key):
    o = _OBJ.get(key)
    if o is None:
        o = _OBJ[key] = mkgeom(gtype, coords)
    return o


def _prepared(gtype, coords, key, tb, fb):
    """Model input: (type, coordinates, time extent, freq extent, area) of the buffered form of the geometry."""
    k = (key, tb, fb) if am.is_buffered_kind(gtype) else key
    p = _PREP.get(k)
    if p is None:
        if am.is_buffered_kind(gtype):
            r = buffer_geometry(_real(gtype, coords, key), time_buffer=tb, freq_buffer=fb)
            pt, pc = r.type, r.coordinates
        else:
            pt, pc = gtype, gm.normal(gtype, coords)
        te, fe = am.time_extent(pt, pc), am.freq_extent(pt, pc)
        if am.is_buffered_kind(gtype) and gtype in ("TimeStamp", "Point", "MultiPoint"):
            # point-like kinds: the buffered extent is known exactly (coordinate -/+ buffer, clipped to the domain; the
            # polygonised circle has vertices on the axes), so it is taken from the raw coordinates and NOT from
            # buffer_geometry: a buffering that depends on earlier calls then shows up here instead of being inherited
            ext = gm.extent(gtype, coords)
            te = (max(F(ext[0]) - F(tb), F(0)), F(ext[2]) + F(tb))
            if gtype != "TimeStamp":
                fe = (max(F(ext[1]) - F(fb), F(0)), min(F(ext[3]) + F(fb), F(gm.MAX_FREQUENCY)))
        p = _PREP[k] = (pt, pc, te, fe, am.area(pt, pc))
    return p


SUBCLASS = {t: type("Tagged" + t, (c,), {"__annotations__": {"note": str}, "note": "", "__module__": __name__})
            for t, c in GEOM_CLASSES.items()}


def _call(G, H, cfg):
    try:
        if cfg is None:
            v = compute_affinity(G, H)
        else:
            v = compute_affinity(G, H, time_buffer=cfg[0], freq_buffer=cfg[1])
    except Exception as e:  # noqa
        return ("reject" if is_rejection(e) else "crash", type(e).__name__)
    if isinstance(v, bool) or not isinstance(v, (int, float)) or math.isnan(v) or math.isinf(v):
        return ("not_a_number", repr(v))
    return ("ok", v)


FN = "compute_affinity"
ABOVE_ONE = {"fn": FN, "kind": "ratio_above_one"}


def fa_le(a):
    """1 < a <= 1 + 1e-9: the excess is of rounding size (class 'ratio_above_one'); beyond that it is 'far_above_one'."""
    return F(a) <= 1 + TOL_SYM


def run_case(case):
    out = Out(case)
    g, h = case["g"], case["h"]
    gt, ht = g["type"], h["type"]
    if case.get("buf") == "default":
        cfg = None
        tb, fb = am.DEFAULT_TIME_BUFFER, am.DEFAULT_FREQ_BUFFER
    else:
        cfg = [case["tb"], case["fb"]]
        tb, fb = cfg
    same = gt == ht and g["coordinates"] == h["coordinates"]
    time_branch = gt in am.TIME_ONLY or ht in am.TIME_ONLY
    branch = "time" if time_branch else "area"
    thin = am.is_buffered_kind(gt) or am.is_buffered_kind(ht)
    cell = {"branch": branch, "buffered": thin}
    calls = 0
    validated = 0
    base = None
    base_reaches_zero = None
    klass = None
    for dt in SHIFTS:
        gc = am.shift_time(gt, g["coordinates"], dt)
        hc = am.shift_time(ht, h["coordinates"], dt)
        gk, hk = (gt, repr(gc)), (ht, repr(hc))
        # fresh objects for the calls under test (the model keeps its own cached objects): implementation state keyed on
        # object identity then sees identities being recycled, as in a long-running process
        G, H = mkgeom(gt, gc), mkgeom(ht, hc)
        ra = _call(G, H, cfg)
        G, H = mkgeom(gt, gc), mkgeom(ht, hc)
        rb = _call(H, G, cfg)
        del G, H
        calls += 2
        det = {"dt": dt}
        try:
            pg = _prepared(gt, gc, gk, tb, fb)
            ph = _prepared(ht, hc, hk, tb, fb)
        except Exception as e:  # noqa  -- the public buffer_geometry (which defines 'the buffered geometries') raised on a valid input
            out.fail("range", "buffer_geometry raised %s: %s" % (type(e).__name__, str(e)[:120]),
                     "the buffered geometries exist for every valid geometry and non-negative buffers",
                     dict(cell, fn="buffer_geometry", kind="buffered_reference_raised"), det)
            if dt == 0:
                klass = branch + ":no_buffered_reference"
            continue
        if dt == 0:
            base = ra
            base_reaches_zero = not (pg[2][0] > 0 and ph[2][0] > 0)
            # the same two geometries as instances of user subclasses of the geometry classes, and (whole-number buffers) with
            # the buffers handed over as int / numpy integers: the same values must give the same affinity
            rs = _call(SUBCLASS[gt](coordinates=gc), SUBCLASS[ht](coordinates=hc), cfg)
            calls += 1
            out.expect("same_value_other_representation", rs == ra, list(rs), list(ra), dict(cell, fn=FN, kind="geometry_subclass"), det)
            if cfg is not None and all(float(x) == int(x) for x in cfg):
                for conv in (int, np.int64, np.float64):
                    rn = _call(mkgeom(gt, gc), mkgeom(ht, hc), [conv(cfg[0]), conv(cfg[1])])
                    calls += 1
                    out.expect("same_value_other_representation", rn == ra, list(rn), list(ra),
                               dict(cell, fn=FN, kind="buffers_as_" + conv.__name__), det)

        # ---- range (exact)
        if ra[0] != "ok":
            out.fail("range", list(ra), "a number in [0, 1]", dict(cell, fn=FN, kind=ra[0]), det)
            if dt == 0:
                klass = branch + ":" + ra[0]
            # nothing else can be judged for this shift
            for o in ("symmetric", "self_is_one", "time_disjoint_zero", "freq_disjoint_zero", "bbox_iou", "time_only_iou"):
                out.vac(o)
            if dt != 0:
                out.vac("shift_invariant")
            continue
        a = ra[1]
        if a > 1:
            # rounding-level excess (F4) is classified apart from a grossly wrong ratio
            out.fail("range", a, "<= 1", dict(ABOVE_ONE) if fa_le(a) else dict(cell, fn=FN, kind="far_above_one"), det)
        elif a < 0:
            out.fail("range", a, ">= 0", dict(cell, fn=FN, kind="negative"), det)
        else:
            out.ok("range")
        if dt == 0:
            klass = branch + ":" + ("zero" if a == 0 else "one" if a == 1 else "above_one" if a > 1 else "negative" if a < 0 else "partial")
            out.nontrivial = 0 < a < 1
        fa = F(a)
        judged = False

        # ---- symmetric (1e-9)
        if rb[0] != "ok":
            out.fail("symmetric", [a, list(rb)], "a(h,g) is a number equal to a(g,h)", dict(cell, fn=FN, kind="reverse_" + rb[0]), det)
        else:
            out.expect("symmetric", abs(fa - F(rb[1])) <= TOL_SYM, [a, rb[1]], "|a(g,h) - a(h,g)| <= 1e-9",
                       dict(cell, fn=FN, kind="asymmetric"), det)

        # ---- self_is_one (lower bound 1e-9, upper bound exact), only for non-zero extent
        if same and pg[4] > 0:
            judged = True
            if a > 1:
                out.fail("self_is_one", a, "1 - 1e-9 <= a(g,g) <= 1", dict(ABOVE_ONE) if fa_le(a) else dict(cell, fn=FN, kind="far_above_one"), det)
            else:
                out.expect("self_is_one", fa >= 1 - TOL_SYM, a, "1 - 1e-9 <= a(g,g) <= 1", dict(cell, fn=FN, kind="self_below_one"), det)
        else:
            out.vac("self_is_one")

        # ---- time_disjoint_zero (exact)
        if am.strictly_disjoint(pg[2], ph[2]):
            judged = True
            out.expect("time_disjoint_zero", a == 0, a, 0, dict(cell, fn=FN, kind="nonzero_time_disjoint"),
                       dict(det, extents=[[float(x) for x in pg[2]], [float(x) for x in ph[2]]]))
        else:
            out.vac("time_disjoint_zero")

        # ---- freq_disjoint_zero (exact; extra)
        if not time_branch and am.strictly_disjoint(pg[3], ph[3]):
            judged = True
            out.expect("freq_disjoint_zero", a == 0, a, 0, dict(cell, fn=FN, kind="nonzero_freq_disjoint"), det)
        else:
            out.vac("freq_disjoint_zero")

        # ---- bbox_iou (1e-12): boxes are not buffered by compute_affinity
        if gt == "BoundingBox" and ht == "BoundingBox":
            exp = am.box_iou(pg[1], ph[1])
            if exp is None:
                out.vac("bbox_iou")
            else:
                judged = True
                out.expect("bbox_iou", abs(fa - exp) <= TOL_EXACT, a, float(exp), {"fn": FN, "kind": "bbox_iou_mismatch", "buffers_zero": tb == 0 and fb == 0},
                           dict(det, expected_exact=str(exp)))
        else:
            out.vac("bbox_iou")

        # ---- time_only_iou (1e-12)
        if time_branch:
            exp = am.iou_1d(pg[2], ph[2])
            if exp is None:
                out.vac("time_only_iou")
            else:
                judged = True
                which = "first" if gt in am.TIME_ONLY and ht not in am.TIME_ONLY else "second" if ht in am.TIME_ONLY and gt not in am.TIME_ONLY else "both"
                out.expect("time_only_iou", abs(fa - exp) <= TOL_EXACT, a, float(exp),
                           {"fn": FN, "kind": "time_iou_mismatch", "time_only": which, "buffered": thin},
                           dict(det, expected_exact=str(exp), extents=[[float(x) for x in pg[2]], [float(x) for x in ph[2]]]))
                if exp == 0 and not thin:
                    # extents that are the given doubles themselves (nothing buffered) and do not overlap, e.g. merely touch: the
                    # intersection of [a, b] and [b, c] is empty for the very numbers passed in, so the affinity is 0, not 1e-16 (a
                    # positive affinity, however small, makes the pair eligible for matching)
                    out.expect("time_only_iou", a == 0, a, 0.0, {"fn": FN, "kind": "zero_iou_reported_positive", "time_only": which, "buffered": thin}, det)
        else:
            out.vac("time_only_iou")

        # ---- shift_invariant (1e-9), only when neither buffered geometry reaches t = 0 before the shift
        if dt != 0:
            if base is None or base[0] != "ok" or base_reaches_zero or (thin and 0 < tb < 2.0 ** -20):
                # a nanosecond buffer makes the buffered extent ~1e-9 wide at coordinates of size ~1: moving the coordinates changes
                # their rounding by ~1e-16, i.e. ~1e-7 of the extent, so a 1e-9 agreement is not a property of any double
                # implementation there (the value itself is still judged by the other oracles)
                out.vac("shift_invariant")
            else:
                out.expect("shift_invariant", abs(fa - F(base[1])) <= TOL_SYM, [base[1], a], "|a(shifted) - a| <= 1e-9",
                           dict(cell, fn=FN, kind="shift_changes_value"), det)
        if judged:
            validated += 1
    out.transitions = calls
    out.validated = validated
    out.klass = klass or (branch + ":?")
    return out


def replay_case(case):
    return run_case(case)
