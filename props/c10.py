"""C10 — Crowsetta conversions preserve times, frequencies, labels and order.

Exhaustive sub-spaces, all on real ``crowsetta.Segment / BBox / Sequence / Annotation`` objects:

* import      every segment / box / sequence / annotation over the onset-offset(-frequency) lattice x unit
              (seconds, sample indices, both) x file samplerate x time expansion x adjust_time_expansion;
* cascade     full product over the presence/hit/miss of every option of ``label_to_tags`` x labels, plus the
              same options forwarded through the five import entry points;
* label       full product over the options of ``label_from_tags`` / ``label_from_tag`` x tag lists, plus the same
              options forwarded through the five export entry points;
* export      every pooled geometry (9 kinds + none) x cast x raise_on_time_geometries x samplerate, and every
              list of 0..n events over the kinds x ignore_errors;
* roundtrip   export(import(x)) for expansion 1 and value-only labels.

Reference model: models/crowsetta_model.py (the docstring cascades transcribed step by step, Fraction arithmetic).
"""
from __future__ import annotations

import itertools
import warnings
from fractions import Fraction as F
from math import floor

import crowsetta

from soundevent import data
from soundevent.io import crowsetta as cr

from mc.runner import Out
from mc.space import shard
from models import crowsetta_model as cm
from models import geometry as gm
from props.common import U, is_rejection, mkgeom

ID = "C10"
RULE = (
    "[environment / representations] every label-export case is executed once more with DeprecationWarning turned into an error (same result required); "
    "whole-number bounding boxes are handed to crowsetta as Python ints; two explicit keys differing only in letter case occur in one run. "
    "import: every ordered list (repeats included) of 0..n lattice elements per entry point x unit x file samplerate x "
    "time expansion, each run with adjust_time_expansion = True, False and omitted; cascade: every combination of "
    "empty_labels (default / custom containing the label / custom not containing it), tag_fn (absent / tag / list / "
    "raises ValueError), term_mapping (absent / hit / miss), tag_mapping (absent / hit->tag / hit->list / miss), "
    "key_mapping (absent / hit / miss), key, term, fallback x every label, called directly and through the 5 import "
    "entry points; label: every combination of seq_label_fn, tag list (none / one / the 6 orders of three), "
    "select_by_key (absent / hit / miss), index, separator, empty_label, label_fn, label_mapping (absent / partial hit / "
    "miss), value_only (omitted / True / False), directly and through the 5 export entry points, plus label_from_tag "
    "with the key separator; export: every pooled geometry x cast x raise_on_time_geometries x samplerate (each "
    "option also omitted) and every list of 0..n kinds x ignore_errors; export_decimal: every interval [k/den, (k+1)/den] of "
    "each non-dyadic family (den = 100, 1000, 44100, 22050, ...) x samplerate through segment / sequence / annotation[seq] "
    "export (non-trivial when some time x samplerate is not an integer in double arithmetic); all three export spaces x the "
    "recording's time expansion (export_list: every list at expansion 1, lists up to export_list_te_maxlen at the others); roundtrip: export(import(x)) at expansion 1 "
    "with value_only labels. Non-trivial: import with expansion != 1 or sample units; cascade / label with a "
    "non-empty label or tag list and >= 2 options given; export whose geometry is not already of the target type or "
    "is unconvertible; roundtrip with >= 2 elements. distinct = distinct case descriptor."
)
ASSUMPTIONS = [
    "times on the dyadic lattice, frequencies multiples of 125 Hz: every export value and floor(time x samplerate) is exact; "
    "import results are compared exactly whenever the exact answer is a float, otherwise (samplerate 44100 or a "
    "non-dyadic expansion) within the declared relative tolerance 1e-9",
    "Recording.samplerate is the real (adjusted) rate, so the file samplerate of the property is samplerate / time_expansion",
    "export: the model's samplerate is Recording.samplerate (file rate x time_expansion), for the sample indices floor(time x samplerate) "
    "and for the Nyquist cap samplerate / 2. Reason: a sound event's times are on the real (expansion-adjusted) time scale, "
    "Recording.samplerate is documented as the real rate, real time x real rate = file time x file rate is the sample position in "
    "the file, and it is the inverse of the import formula samples / (samplerate / expansion) / expansion; hence the recording's "
    "time_expansion (enumerated over {1, 10, 1/2} in export, export_list and export_decimal) must not change any exported "
    "value. Exported onset_s / offset_s are the geometry's (real) times. Roundtrip exactness is claimed for expansion 1 only",
    "import and roundtrip labels include 'e', 'empty' and '' (substrings of the default empty label '__empty__'): with the default "
    "or any explicit empty_labels only a label that IS one of the empty labels gives no tags",
    "a ValueError raised by tag_fn falls through to the remaining steps (DESIGN.md C10; pinned by the repository's suite), "
    "although the docstring's step 2 does not say so",
    "NOT judged: term_mapping hit together with tag_mapping hit (docstring step order and the property's summary order disagree)",
    "NOT judged between two readings: label_from_tags with select_by_key hit may return the value-only label (the "
    "repository's suite) or the label governed by the forwarded options (the literal docstring); an exception is judged",
    "key_mapping hit together with an explicit key: the mapping wins (DESIGN.md model: key = key_mapping hit, else explicit key, else fallback)",
    "errors raised by crowsetta's own validators (onset >= offset, low >= high after the Nyquist cap) count as 'unconvertible'",
    "roundtrip of a box whose upper frequency exceeds the Nyquist frequency is not judged (the cap applies); roundtrip of "
    "sample indices is judged only when index / samplerate is a float",
    "segments given in seconds for onset and in samples for offset (only constructible by bypassing Segment.from_keyword) are not enumerated",
    "labels are plain strings; error class for 'rejected': any ValueError subclass; any exception on an import input is a violation",
    "export_decimal (times k/100, k/1000, k/44100, k/22050, ... that are not dyadic): the property says floor(time x samplerate); "
    "a sample index is judged only when the exact rational floor(Fraction(time) * samplerate) equals the floor of the double "
    "product time * samplerate (the real-number answer and the correctly rounded double answer agree), otherwise it is counted "
    "vacuous; when judged the exported index must equal that value exactly. onset_s / offset_s must equal the given doubles exactly. "
    "The bbox exporter emits no sample indices (crowsetta.BBox has none), so this sub-space goes through the segment / sequence / "
    "annotation[seq] exporters only, with TimeInterval geometries and BoundingBox geometries cast to segments",
]

DEFAULT = "<omitted>"


# =========================================================================== bounds
def P(tier):
    if tier == "quick":
        return {
            "times": [0, 0.125, 1, 2.5], "freqs": [0, 125, 1000], "srs": [8, 8000, 44100], "tes": ["1", "2", "10", "1/2"],
            "seq_times": [0, 0.125, 1, 2.5], "seq_maxlen": 3, "seq_extra_maxlen": 0,
            "box_list_times": [0, 0.125, 1, 2.5], "box_list_freqs": [0, 125, 1000], "box_maxlen": 3,
            "labels": ["a", "__empty__", "b", "e", "empty", ""],
            "export_times": [0, 0.125, 0.1875, 1, 2.5], "export_freqs": [0, 125, 1000], "export_srs": [8, 8000, 11025, 44100],
            "export_maxlen": 3, "indices": [None, -1, 0, 1, 2, 5, 4, -4],
            "decimal_families": [[100, 300], [1000, 1000], [44100, 400], [22050, 400]],
            "decimal_srs": [100, 1000, 8000, 22050, 44100],
            "export_tes": ["1", "10", "1/2"], "export_list_te_maxlen": 2,
        }
    return {
        "times": [0, 0.125, 0.5, 1, 2.5, 4], "freqs": [0, 125, 1000, 4000, 30000], "srs": [8, 8000, 44100, 96000],
        "tes": ["1", "2", "10", "1/2", "4", "3"],
        "seq_times": [0, 0.125, 0.5, 1, 2.5, 4], "seq_maxlen": 3, "seq_extra_maxlen": 4,
        "box_list_times": [0, 0.125, 1, 2.5], "box_list_freqs": [0, 125, 1000, 4000], "box_maxlen": 3,
        "labels": ["a", "__empty__", "b", "e", "empty", "", "_", "pty", "x", "other", "__empty__ "],
        "export_times": [0, 0.125, 0.1875, 0.5, 1, 2.5, 4], "export_freqs": [0, 125, 1000, 5000], "export_srs": [8, 8000, 11025, 44100, 96000],
        "export_maxlen": 4, "indices": [None, -1, 0, 1, 2, 5, 4, -4, 3, 7, -7],
        "decimal_families": [[100, 1000], [1000, 5000], [44100, 3000], [22050, 3000], [48000, 3000], [10, 100], [3, 300]],
        "decimal_srs": [100, 1000, 8000, 22050, 44100, 48000, 96000, 192000],
        "export_tes": ["1", "10", "1/2", "2"], "export_list_te_maxlen": 3,
    }


def bounds(tier):
    p = P(tier)
    b = dict(p)
    b["units"] = UNITS
    b["cascade_axes"] = {k: list(v) for k, v in CASCADE_AXES}
    b["label_axes"] = {k: [repr(x) for x in v] for k, v in label_axes(p)}
    b["export_kinds"] = list(gm.TYPES) + ["none"]
    b["export_pool_size"] = len(export_pool(p))
    b["blocks"] = {s: n for s, n in PLAN[tier]}
    return b


def strict_pairs(lat):
    return [(a, b) for i, a in enumerate(lat) for b in lat[i + 1:]]


def weak_pairs(lat):
    return [(a, b) for i, a in enumerate(lat) for b in lat[i:]]


# =========================================================================== helpers
def call(fn, *a, **kw):
    try:
        return ("ok", fn(*a, **kw))
    except Exception as e:  # noqa
        return ("reject" if is_rejection(e) else "crash", type(e).__name__)


def mkrec(rec_sr, te=1.0):
    return data.Recording(uuid=U("rec:c10"), path="/data/r.wav", duration=10.0, channels=1,
                          samplerate=int(rec_sr), time_expansion=float(te))


def tk(k):
    # built here, not through data.term_from_key: expected values must not depend on library-side caches
    return data.Term(label=k, name="soundevent:%s" % k, definition="Unknown")


TERM_TM = data.Term(name="verif:mapped", label="Mapped term", definition="term handed in through term_mapping")
TERM_TM2 = data.Term(name="verif:mapped2", label="Other mapped term", definition="term_mapping value of another label")
TERM_EX = data.Term(name="verif:explicit", label="Explicit term", definition="term handed in through term=")
KNOWN_TERMS = {"tm": TERM_TM, "tm2": TERM_TM2, "explicit": TERM_EX}


def abs_term(term):
    for name, t in KNOWN_TERMS.items():
        if term == t:
            return ["term", name]
    try:
        if term == tk(term.label):
            return ["key", term.label]
    except Exception:  # noqa
        pass
    return ["unknown", repr(term)]


def abs_tags(tags):
    try:
        return [[abs_term(t.term), t.value] for t in tags]
    except Exception:  # noqa
        return ["not-a-tag-list", repr(tags)[:200]]


def norm_model_tags(tags):
    return [[list(t[0]), t[1]] for t in tags]


def real_term(a):
    return KNOWN_TERMS[a[1]] if a[0] == "term" else tk(a[1])


def real_tag(a):
    return data.Tag(term=real_term(a[0]), value=a[1])


def fnum(x):
    return float(x) if x is not None else None


# =========================================================================== IMPORT
UNITS = ["s", "samples", "both"]
POS_LABELS = ["e", "empty", " a ", ""]  # distinct per position; "e", "empty", "" are substrings of the default empty label
IMPORT_FN = {
    "segment": "segment_to_annotation", "bbox": "bbox_to_annotation", "sequence": "sequence_to_annotations",
    "annotation_seq": "annotation_to_clip_annotation[seq]", "annotation_bbox": "annotation_to_clip_annotation[bbox]",
}


def sample_of(t, fsr):
    return floor(F(t) * F(fsr))


def mk_segment(el, unit, fsr, label):
    on, off = el
    kw = {}
    if unit in ("s", "both"):
        kw.update(onset_s=float(on), offset_s=float(off))
    if unit in ("samples", "both"):
        kw.update(onset_sample=sample_of(on, fsr), offset_sample=sample_of(off, fsr))
    return crowsetta.Segment.from_keyword(label=label, **kw)


def mk_bbox(el, label):
    on, off, lo, hi = el
    if all(float(v) == int(v) for v in el) and (POS_LABELS.index(label) % 2 == 0 if label in POS_LABELS else True):
        # whole numbers handed over as Python ints (what a CSV reader that infers integer columns produces)
        return crowsetta.BBox(onset=int(on), offset=int(off), low_freq=int(lo), high_freq=int(hi), label=label)
    return crowsetta.BBox(onset=float(on), offset=float(off), low_freq=float(lo), high_freq=float(hi), label=label)


def build_crowsetta(kind, els, unit, fsr, labels):
    if kind == "segment":
        return mk_segment(els[0], unit, fsr, labels[0])
    if kind == "bbox":
        return mk_bbox(els[0], labels[0])
    if kind in ("sequence", "annotation_seq"):
        seq = crowsetta.Sequence.from_segments([mk_segment(e, unit, fsr, l) for e, l in zip(els, labels)])
        if kind == "sequence":
            return seq
        return crowsetta.Annotation(annot_path="/data/r.txt", notated_path="/data/r.wav", seq=seq)
    return crowsetta.Annotation(annot_path="/data/r.txt", notated_path="/data/r.wav",
                                bboxes=[mk_bbox(e, l) for e, l in zip(els, labels)])


def import_call(kind, obj, rec, kw):
    """('ok', [SoundEventAnnotation, ...]) or an error observation."""
    if kind == "segment":
        r = call(cr.segment_to_annotation, obj, rec, **kw)
        return ("ok", [r[1]]) if r[0] == "ok" else r
    if kind == "bbox":
        r = call(cr.bbox_to_annotation, obj, rec, **kw)
        return ("ok", [r[1]]) if r[0] == "ok" else r
    if kind == "sequence":
        r = call(cr.sequence_to_annotations, obj, rec, **kw)
        return ("ok", list(r[1])) if r[0] == "ok" else r
    r = call(cr.annotation_to_clip_annotation, obj, rec, **kw)
    return ("ok", list(r[1].sound_events)) if r[0] == "ok" else r


def obs_ann(a):
    g = a.sound_event.geometry
    c = g.coordinates if g is not None else None
    return {"type": getattr(g, "type", None), "coords": list(c) if isinstance(c, (list, tuple)) else c,
            "tags": abs_tags(a.tags)}


def expected_element(kind, el, unit, fsr, rec_sr, te, adjust):
    is_box = kind in ("bbox", "annotation_bbox")
    if is_box:
        on, off, lo, hi = el
        t0 = cm.import_time(F(on), None, rec_sr, te, adjust)
        t1 = cm.import_time(F(off), None, rec_sr, te, adjust)
        return "BoundingBox", [t0, t1], [cm.import_freq(lo, te, adjust), cm.import_freq(hi, te, adjust)]
    on, off = el
    sec = unit in ("s", "both")
    t0 = cm.import_time(F(on) if sec else None, sample_of(on, fsr), rec_sr, te, adjust)
    t1 = cm.import_time(F(off) if sec else None, sample_of(off, fsr), rec_sr, te, adjust)
    return "TimeInterval", [t0, t1], None


def split_coords(o):
    """(times, freqs) of an observed geometry."""
    c = o["coords"]
    if o["type"] == "BoundingBox" and isinstance(c, list) and len(c) == 4:
        return [c[0], c[2]], [c[1], c[3]]
    if o["type"] == "TimeInterval" and isinstance(c, list) and len(c) == 2:
        return [c[0], c[1]], None
    return None, None


def run_import(case):
    out = Out(case)
    kind, unit, fsr, te_s, els = case["kind"], case["unit"], case["sr"], case["te"], case["els"]
    te = F(te_s)
    rec_sr = F(fsr) * te
    assert rec_sr.denominator == 1
    rec_sr = int(rec_sr)
    rec = mkrec(rec_sr, float(te))
    n = len(els)
    labels = POS_LABELS[:n]
    obj = build_crowsetta(kind, els, unit, fsr, labels)
    fn = IMPORT_FN[kind]
    tecls = "1" if te == 1 else "!=1"
    results = {}
    ncalls = 0
    nval = 0
    for adj in (True, False, None):
        kw = {} if adj is None else {"adjust_time_expansion": adj}
        eff = True if adj is None else adj
        adjname = DEFAULT if adj is None else adj
        cls = {"fn": fn, "unit": unit, "te": tecls, "adjust": adjname}
        r = import_call(kind, obj, rec, kw)
        ncalls += 1
        if r[0] != "ok":
            out.fail("one_per_element_in_order", list(r), "%d annotations" % n, cls)
            results[adj] = None
            continue
        obs = [obs_ann(a) for a in r[1]]
        results[adj] = obs
        nval += 1
        exp_tags = [[[["key", "crowsetta"], l]] for l in labels]
        got_tags = [o["tags"] for o in obs]
        if not out.expect("one_per_element_in_order", len(obs) == n and got_tags == exp_tags,
                          {"n": len(obs), "tags": got_tags}, {"n": n, "tags": exp_tags}, cls):
            if len(obs) != n:
                continue
        for i, (el, o) in enumerate(zip(els, obs)):
            gtype, ets, efs = expected_element(kind, el, unit, fsr, rec_sr, te, eff)
            ts, fs = split_coords(o)
            ok = o["type"] == gtype and ts is not None and all(cm.same_number(a, b) for a, b in zip(ts, ets))
            out.expect("times", ok, {"type": o["type"], "times": ts}, {"type": gtype, "times": [str(x) for x in ets]},
                       cls, {"index": i})
            if efs is not None:
                okf = fs is not None and all(cm.same_number(a, b) for a, b in zip(fs, efs))
                out.expect("freqs", okf, fs, [str(x) for x in efs], cls, {"index": i})
    # expansion applied exactly once: adjusted = unadjusted / expansion (x expansion for frequencies); identical at 1
    ra, rn = results[True], results[False]
    cls = {"fn": fn, "unit": unit, "te": tecls}
    if ra is None or rn is None or len(ra) != len(rn):
        out.vac("expansion_once")
    elif not ra:
        out.vac("expansion_once")
    else:
        for i, (a, b) in enumerate(zip(ra, rn)):
            ta, fa = split_coords(a)
            tb, fb = split_coords(b)
            ok = ta is not None and tb is not None and all(cm.scaled(x, y, 1 / te) for x, y in zip(ta, tb))
            if fa is not None or fb is not None:
                ok = ok and fa is not None and fb is not None and all(cm.scaled(x, y, te) for x, y in zip(fa, fb))
            out.expect("expansion_once", ok, {"adjusted": a["coords"], "unadjusted": b["coords"]},
                       "adjusted time = unadjusted / %s, frequency x %s" % (te_s, te_s), cls, {"index": i})
    out.transitions = ncalls
    out.validated = nval
    out.nontrivial = n >= 1 and (te != 1 or unit != "s")
    out.klass = "import:%s:%s:n%d:te%s" % (kind, unit, n, tecls)
    return out


def gen_import(space, p):
    ivs = strict_pairs(p["times"])
    fps = strict_pairs(p["freqs"])
    if space == "import_single":
        for te in p["tes"]:
            for fsr in p["srs"]:
                for unit in UNITS:
                    for iv in ivs:
                        yield {"space": "import", "kind": "segment", "unit": unit, "sr": fsr, "te": te, "els": [list(iv)]}
                for iv in ivs:
                    for fp in fps:
                        yield {"space": "import", "kind": "bbox", "unit": "s", "sr": fsr, "te": te,
                               "els": [[iv[0], iv[1], fp[0], fp[1]]]}
        return
    if space in ("import_seq", "import_ann_seq"):
        kind = "sequence" if space == "import_seq" else "annotation_seq"
        pool = [list(iv) for iv in strict_pairs(p["seq_times"])]
        small = [list(iv) for iv in strict_pairs(P("quick")["seq_times"])]
        lists = [list(c) for n in range(0, p["seq_maxlen"] + 1) for c in itertools.product(pool, repeat=n)]
        for n in range(p["seq_maxlen"] + 1, p["seq_extra_maxlen"] + 1):
            lists += [list(c) for c in itertools.product(small, repeat=n)]
        for els in lists:
            for te in p["tes"]:
                for fsr in p["srs"]:
                    for unit in UNITS:
                        yield {"space": "import", "kind": kind, "unit": unit, "sr": fsr, "te": te, "els": els}
        return
    if space == "import_ann_bbox":
        pool = [[iv[0], iv[1], fp[0], fp[1]] for iv in strict_pairs(p["box_list_times"]) for fp in strict_pairs(p["box_list_freqs"])]
        for n in range(0, p["box_maxlen"] + 1):
            for els in itertools.product(pool, repeat=n):
                for te in p["tes"]:
                    for fsr in p["srs"]:
                        yield {"space": "import", "kind": "annotation_bbox", "unit": "s", "sr": fsr, "te": te, "els": list(els)}
        return
    raise ValueError(space)


# =========================================================================== LABEL CASCADE (import side)
CASCADE_AXES = [
    ("empty_labels", ["default", "custom_in", "custom_out"]),
    ("tag_fn", ["absent", "tag", "list", "raise"]),
    ("term_mapping", ["absent", "hit", "miss"]),
    ("tag_mapping", ["absent", "hit_tag", "hit_list", "miss"]),
    ("key_mapping", ["absent", "hit", "miss"]),
    ("key", ["absent", "given"]),
    ("term", ["absent", "given"]),
    ("fallback", ["default", "custom"]),
]
A_TAG_A = (("key", "mapped"), "A")
A_TAG_B = (("key", "mapped2"), "B")
A_TERM_TM = ("term", "tm")
A_TERM_TM2 = ("term", "tm2")
A_TERM_EX = ("term", "explicit")
OTHER = "other"


def _raising_fn(label):
    raise ValueError("no tag for %r" % (label,))


def cascade_kwargs(label, o):
    """(real kwargs for label_to_tags, kwargs for the model)."""
    real, mod = {}, {}
    if o["empty_labels"] == "custom_in":
        real["empty_labels"] = ("x", label)
        mod["empty_labels"] = ("x", label)
    elif o["empty_labels"] == "custom_out":
        real["empty_labels"] = ("x",)
        mod["empty_labels"] = ("x",)
    if o["tag_fn"] == "tag":
        a = (("key", "fn"), "fn:" + label)
        real["tag_fn"] = lambda l: data.Tag(term=tk("fn"), value="fn:" + l)
        mod["tag_fn"] = ("return", a)
    elif o["tag_fn"] == "list":
        a = [(("key", "fn"), "fn:" + label), A_TAG_B]
        real["tag_fn"] = lambda l: [data.Tag(term=tk("fn"), value="fn:" + l), real_tag(A_TAG_B)]
        mod["tag_fn"] = ("return", a)
    elif o["tag_fn"] == "raise":
        real["tag_fn"] = _raising_fn
        mod["tag_fn"] = ("raise",)
    if o["term_mapping"] != "absent":
        m = {OTHER: A_TERM_TM2}
        if o["term_mapping"] == "hit":
            m[label] = A_TERM_TM
        mod["term_mapping"] = m
        real["term_mapping"] = {k: real_term(v) for k, v in m.items()}
    if o["tag_mapping"] != "absent":
        m = {OTHER: A_TAG_B}
        if o["tag_mapping"] == "hit_tag":
            m[label] = A_TAG_A
        elif o["tag_mapping"] == "hit_list":
            m[label] = [A_TAG_A, A_TAG_B]
        mod["tag_mapping"] = m
        real["tag_mapping"] = {k: ([real_tag(t) for t in v] if isinstance(v, list) else real_tag(v)) for k, v in m.items()}
    if o["key_mapping"] != "absent":
        m = {OTHER: "km2"}
        if o["key_mapping"] == "hit":
            m[label] = "km"
        mod["key_mapping"] = m
        real["key_mapping"] = dict(m)
    if o["key"] == "given":
        # two explicit keys that differ only in letter case occur in the same run (a key is case sensitive)
        real["key"] = mod["key"] = "KK" if o["term_mapping"] != "absent" else "kk"
    if o["term"] == "given":
        real["term"] = TERM_EX
        mod["term"] = A_TERM_EX
    if o["fallback"] == "custom":
        real["fallback"] = mod["fallback"] = "fb"
    return real, mod


def cascade_cell(label, mod, decisive):
    """Name of the option cell of a judged cascade case (a function of the inputs only): the step of the documented
    cascade that decides the result, plus the given-but-losing options that compete for the same slot (term slot:
    term_mapping / explicit term; tags slot: tag_mapping; key slot: key_mapping / explicit key / fallback)."""
    hit = lambda name: mod.get(name) is not None and label in mod[name]  # noqa
    miss = lambda name: mod.get(name) is not None and label not in mod[name]  # noqa
    if decisive == "empty":
        return "empty_label"
    if decisive == "tag_fn":
        return "tag_fn_returns_" + ("list" if isinstance(mod["tag_fn"][1], list) else "tag")
    if decisive == "explicit_key" and miss("key_mapping"):
        return "explicit_key_with_key_mapping_miss"
    if decisive == "tag_mapping" and mod.get("term") is not None:
        return "explicit_term_with_tag_mapping_hit"
    losers = []
    if decisive in ("term_mapping", "explicit_term", "tag_mapping"):
        if miss("term_mapping"):
            losers.append("term_mapping_miss")
        if mod.get("term") is not None and decisive != "explicit_term":
            losers.append("explicit_term")
    else:  # key slot
        if miss("tag_mapping"):
            losers.append("tag_mapping_miss")
        if hit("key_mapping") and decisive != "key_mapping":
            losers.append("key_mapping_hit")
        if miss("key_mapping"):
            losers.append("key_mapping_miss")
        if mod.get("key") is not None and decisive != "explicit_key":
            losers.append("explicit_key")
        if decisive == "fallback" and mod.get("fallback") is not None:
            decisive = "custom_fallback"
    return decisive + ("_with_" + "_and_".join(losers) if losers else "")


def forwarded_import_calls(label, rec, kw):
    seg = crowsetta.Segment.from_keyword(label=label, onset_s=0.0, offset_s=1.0)
    box = crowsetta.BBox(onset=0.0, offset=1.0, low_freq=0.0, high_freq=125.0, label=label)
    seq = crowsetta.Sequence.from_segments([seg])
    aseq = crowsetta.Annotation(annot_path="/data/r.txt", notated_path="/data/r.wav", seq=seq)
    abox = crowsetta.Annotation(annot_path="/data/r.txt", notated_path="/data/r.wav", bboxes=[box])
    for kind, obj in (("segment", seg), ("bbox", box), ("sequence", seq), ("annotation_seq", aseq), ("annotation_bbox", abox)):
        r = import_call(kind, obj, rec, kw)
        if r[0] == "ok":
            r = ("ok", [abs_tags(a.tags) for a in r[1]])
        yield IMPORT_FN[kind], r


def run_cascade(case):
    out = Out(case)
    label, o = case["label"], case["o"]
    real, mod = cascade_kwargs(label, o)
    r = call(cr.label_to_tags, label, **real)
    got = ("ok", abs_tags(r[1])) if r[0] == "ok" else r
    exp, decisive = cm.label_to_tags(label, **mod)
    if exp == cm.UNJUDGED:
        out.vac("tags_equal_model")
        out.klass = "cascade:unjudged(term_mapping_hit&tag_mapping_hit)"
        nval = 0
    else:
        cell = cascade_cell(label, mod, decisive)
        want = ("ok", norm_model_tags(exp))
        out.expect("tags_equal_model", got == want, list(got), list(want), {"fn": "label_to_tags", "cell": cell},
                   {"options": o, "label": label})
        out.klass = "cascade:" + decisive
        nval = 1
    # the same options through the five import entry points must give what the direct call gives
    rec = mkrec(8000)
    ncalls = 1
    for fn, r2 in forwarded_import_calls(label, rec, real):
        ncalls += 1
        want2 = ("ok", [got[1]]) if got[0] == "ok" else got
        out.expect("options_forwarded", tuple(r2) == tuple(want2), list(r2), list(want2), {"fn": fn, "side": "import"})
    out.transitions = ncalls
    out.validated = nval + 5
    given = sum(1 for k, v in o.items() if v not in ("absent", "default"))
    out.nontrivial = decisive not in ("empty",) and given >= 2
    return out


def gen_cascade(p):
    names = [a for a, _ in CASCADE_AXES]
    for label in p["labels"]:
        for combo in itertools.product(*[v for _, v in CASCADE_AXES]):
            yield {"space": "cascade", "label": label, "o": dict(zip(names, combo))}


# =========================================================================== LABEL EXPORT
# XT1's key differs from the others' key only in letter case (keys are case sensitive), and its term is NAMED like their key
XT1, XT2, XT3 = ("K2", "v1"), ("k2", "v2"), ("k2", "v3")
XPOOL = [XT1, XT2, XT3]
TAGLISTS = {"none": [], "one": [XT2]}
for _perm in itertools.permutations(range(3)):
    TAGLISTS["".join(map(str, _perm))] = [XPOOL[i] for i in _perm]


# keys that are proper substrings of the selected key / of the key that must miss: selecting compares whole keys
TAGLISTS["sub_hit"] = [("k", "v4"), XT2]
TAGLISTS["sub_miss"] = [("z", "v5"), XT2]


def xreal(t):
    if t[0] == "K2":
        # the term of the k1 tags is NAMED like the other tags' key: selecting 'by key' compares keys (labels), never names
        return data.Tag(term=data.Term(label="K2", name="k2", definition="named like another key"), value=t[1])
    return data.Tag(term=tk(t[0]), value=t[1])


def label_axes(p):
    return [
        ("seq_label_fn", [False, True]),
        ("tags", list(TAGLISTS)),
        ("select_by_key", [None, "k2", "zz"]),
        ("index", p["indices"]),
        ("separator", [None, "|"]),
        ("empty_label", [None, "NA"]),
        ("label_fn", [False, True]),
        ("label_mapping", [None, "some", "miss"]),
        ("value_only", [None, True, False]),
    ]


def _real_label_fn(tag):
    return "fn(%s=%s)" % (tag.term.label, tag.value)


def _model_label_fn(t):
    return "fn(%s=%s)" % (t[0], t[1])


def _real_seq_fn(tags):
    return "seq[" + "+".join(t.value for t in tags) + "]"


def _model_seq_fn(tags):
    return "seq[" + "+".join(t[1] for t in tags) + "]"


def tag_level_kwargs(o):
    real, mod = {}, {}
    if o.get("label_fn"):
        real["label_fn"] = _real_label_fn
        mod["label_fn"] = _model_label_fn
    if o.get("label_mapping") == "some":
        mod["label_mapping"] = {XT2: "L2"}
    elif o.get("label_mapping") == "miss":
        mod["label_mapping"] = {("k9", "v9"): "LX"}
    if "label_mapping" in mod:
        real["label_mapping"] = {xreal(k): v for k, v in mod["label_mapping"].items()}
    if o.get("value_only") is not None:
        real["value_only"] = mod["value_only"] = o["value_only"]
    return real, mod


def label_kwargs(o):
    treal, tmod = tag_level_kwargs(o)
    real, mod = dict(treal), {"tag_kwargs": tmod}
    if o["seq_label_fn"]:
        real["seq_label_fn"] = _real_seq_fn
        mod["seq_label_fn"] = _model_seq_fn
    for k in ("select_by_key", "index", "separator", "empty_label"):
        if o[k] is not None:
            real[k] = mod[k] = o[k]
    return real, mod


def mk_event(rec, kind, coords, tags):
    geom = None if kind is None else mkgeom(kind, coords)
    return data.SoundEventAnnotation(sound_event=data.SoundEvent(geometry=geom, recording=rec), tags=tags)


def mk_clip_annotation(rec, events):
    return data.ClipAnnotation(clip=data.Clip(recording=rec, start_time=0.0, end_time=10.0), sound_events=events)


EXPORT_FN = {
    "segment": "segment_from_annotation", "bbox": "bbox_from_annotation", "sequence": "sequence_from_annotations",
    "annotation_seq": "annotation_from_clip_annotation[seq]", "annotation_bbox": "annotation_from_clip_annotation[bbox]",
}


def export_call(kind, events, kw):
    """('ok', [crowsetta element, ...]) or an error observation.  events: list of SoundEventAnnotation."""
    if kind == "segment":
        r = call(cr.segment_from_annotation, events[0], **kw)
        return ("ok", [r[1]]) if r[0] == "ok" else r
    if kind == "bbox":
        r = call(cr.bbox_from_annotation, events[0], **kw)
        return ("ok", [r[1]]) if r[0] == "ok" else r
    if kind == "sequence":
        r = call(cr.sequence_from_annotations, events, **kw)
        return ("ok", list(r[1].segments)) if r[0] == "ok" else r
    rec = events[0].sound_event.recording if events else mkrec(8000)
    ca = mk_clip_annotation(rec, events)
    if kind == "annotation_seq":
        r = call(cr.annotation_from_clip_annotation, ca, "/data/r.txt", "seq", **kw)
        return ("ok", list(r[1].seq.segments)) if r[0] == "ok" else r
    r = call(cr.annotation_from_clip_annotation, ca, "/data/r.txt", "bbox", **kw)
    return ("ok", list(getattr(r[1], "bboxes", []))) if r[0] == "ok" else r


def label_cell(o, step, tags, tmod):
    """Option cell of a label_from_tags case: the deciding step of the sequence-level cascade plus the deciding
    step(s) of the tag-level cascade for the tag(s) it converts."""
    if step == "select_by_key_hit" and o["value_only"] is not None:
        return "select_by_key_hit_with_explicit_value_only"
    if step == "select_by_key_hit":
        t = next(t for t in tags if t[0] == o["select_by_key"])
        return step + ":" + cm.label_from_tag(t, **tmod)[1]
    if step == "index":
        t = tags[o["index"] % len(tags)]
        return step + ":" + cm.label_from_tag(t, **tmod)[1]
    if step == "join":
        return step + ":" + "+".join(sorted({cm.label_from_tag(t, **tmod)[1] for t in tags}))
    return step


def run_label(case):
    out = Out(case)
    o = case["o"]
    atags = TAGLISTS[o["tags"]]
    rtags = [xreal(t) for t in atags]
    real, mod = label_kwargs(o)
    r = call(cr.label_from_tags, rtags, **real)
    # the same call in a process that turns DeprecationWarning into an error (python -W error::DeprecationWarning, pytest's
    # filterwarnings=error): the tags were built with term=, so the export must not trip over the library's own deprecations
    with warnings.catch_warnings():
        warnings.simplefilter("error", DeprecationWarning)
        r_strict = call(cr.label_from_tags, rtags, **real)
    out.expect("same_result_with_deprecations_as_errors", tuple(r_strict) == tuple(r), list(r_strict), list(r),
               {"fn": "label_from_tags", "kind": "strict_warnings"}, {"options": o})
    acceptable, step = cm.label_from_tags(atags, **mod)
    cell = label_cell(o, step, atags, mod["tag_kwargs"])
    out.expect("label_equals_model", r[0] == "ok" and r[1] in acceptable, list(r), ["ok", acceptable],
               {"fn": "label_from_tags", "cell": cell}, {"options": o})
    rec = mkrec(8000)
    ncalls = 1
    for kind in ("segment", "bbox", "sequence", "annotation_seq", "annotation_bbox"):
        if kind in ("bbox", "annotation_bbox"):
            ev = mk_event(rec, "BoundingBox", [0.0, 0.0, 1.0, 125.0], rtags)
        else:
            ev = mk_event(rec, "TimeInterval", [0.0, 1.0], rtags)
        r2 = export_call(kind, [ev], real)
        ncalls += 1
        if r2[0] == "ok":
            r2 = ("ok", [e.label for e in r2[1]])
        want = ("ok", [r[1]]) if r[0] == "ok" else r
        out.expect("options_forwarded", tuple(r2) == tuple(want), list(r2), list(want), {"fn": EXPORT_FN[kind], "side": "export"})
    out.transitions = ncalls
    out.validated = 6
    given = sum(1 for k, v in o.items() if k != "tags" and v not in (None, False))
    out.nontrivial = len(atags) >= 1 and given >= 2
    out.klass = "label:" + step + (":" + r[0] if r[0] != "ok" else "")
    return out


def run_label_tag(case):
    out = Out(case)
    o = case["o"]
    t = XPOOL[o["tag"]]
    real, mod = tag_level_kwargs(o)
    if o["separator"] is not None:
        real["separator"] = mod["separator"] = o["separator"]
    r = call(cr.label_from_tag, xreal(t), **real)
    exp, step = cm.label_from_tag(t, **mod)
    out.expect("label_equals_model", tuple(r) == ("ok", exp), list(r), ["ok", exp],
               {"fn": "label_from_tag", "cell": step}, {"options": o})
    out.nontrivial = sum(1 for k, v in o.items() if k != "tag" and v not in (None, False)) >= 2
    out.klass = "label_tag:" + step
    return out


def gen_label(p):
    axes = label_axes(p)
    names = [a for a, _ in axes]
    for combo in itertools.product(*[v for _, v in axes]):
        yield {"space": "label", "o": dict(zip(names, combo))}


def gen_label_tag(p):
    for tag in range(3):
        for label_fn in (False, True):
            for lm in (None, "some", "miss"):
                for vo in (None, True, False):
                    for sep in (None, "=", ""):
                        yield {"space": "label_tag", "o": {"tag": tag, "label_fn": label_fn, "label_mapping": lm,
                                                          "value_only": vo, "separator": sep}}


# =========================================================================== EXPORT (geometry)
def export_pool(p):
    """Every pooled geometry (kind, coords) over the export lattice; all valid soundevent geometries."""
    T, Fq = p["export_times"], p["export_freqs"]
    pool = [(None, None)]
    for t in T:
        pool.append(("TimeStamp", t))
    for a, b in weak_pairs(T):
        pool.append(("TimeInterval", [a, b]))
    for t in T:
        for f in Fq:
            pool.append(("Point", [t, f]))
    for a, b in weak_pairs(T):
        for lo, hi in weak_pairs(Fq):
            pool.append(("BoundingBox", [a, lo, b, hi]))
    for a, b in weak_pairs(T):
        for f0 in Fq:
            for f1 in Fq:
                pool.append(("LineString", [[a, f0], [b, f1]]))
                pool.append(("MultiPoint", [[a, f0], [b, f1]]))
    # lines that double back: the time extent is that of all vertices, not of the first and the last one
    for a, b in strict_pairs(T):
        m = (a + b) / 2
        pool.append(("LineString", [[m, Fq[0]], [a, Fq[-1]], [b, Fq[0]]]))
        pool.append(("LineString", [[a, Fq[0]], [b, Fq[-1]], [m, Fq[0]], [b, Fq[-1]]]))
    for a, b in strict_pairs(T):
        for lo, hi in strict_pairs(Fq):
            pool.append(("Polygon", [[[a, lo], [b, hi], [a, hi]]]))
            pool.append(("MultiPolygon", [[[[a, lo], [b, lo], [a, hi]]], [[[b, hi], [b, lo], [a, hi]]]]))
        for f0 in Fq:
            for f1 in Fq:
                pool.append(("MultiLineString", [[[a, f0], [b, f1]], [[a, f1], [b, f0]]]))
    # parts of unequal vertex counts (a coordinate list that is not a rectangular array)
    for a, b in strict_pairs(T):
        m = (a + b) / 2
        lo, hi = Fq[0], Fq[-1]
        q = (lo + hi) / 2
        pool.append(("MultiLineString", [[[a, lo], [b, hi]], [[a, hi], [m, q], [b, lo]]]))
        pool.append(("Polygon", [[[a, lo], [b, lo], [b, hi], [a, hi]], [[a + (m - a) / 2, lo + (q - lo) / 2], [m, lo + (q - lo) / 2], [m, q]]]))
        pool.append(("MultiPolygon", [[[[a, lo], [m, lo], [a, hi]]], [[[m, lo], [b, lo], [b, hi], [m, hi]]]]))
    # line strings whose time (frequency) extent is reached at an INTERIOR vertex: only the end points of a line are ordered in
    # time, so the exported bounds must come from all vertices, not from the first and the last one
    for a, b in strict_pairs(T):
        for m in T:
            if m > b or m < a:
                pool.append(("LineString", [[a, Fq[0]], [m, Fq[-1]], [b, Fq[0]]]))
    for k, c in pool:
        assert k is None or gm.valid(k, c), (k, c)
    return pool


LIST_POOL = {
    "none": (None, None),
    "TimeStamp": ("TimeStamp", 1),
    "TimeInterval": ("TimeInterval", [0.125, 1]),
    "Point": ("Point", [1, 125]),
    "LineString": ("LineString", [[0, 125], [1, 1000]]),
    "Polygon": ("Polygon", [[[0, 0], [2.5, 125], [1, 1000]]]),
    "BoundingBox": ("BoundingBox", [0.125, 125, 2.5, 1000]),
    "BoundingBoxLow0": ("BoundingBox", [0, 0, 1, 1000]),
    "MultiPoint": ("MultiPoint", [[0.1875, 0], [1, 1000]]),
    "MultiLineString": ("MultiLineString", [[[0, 0], [1, 125]], [[0.125, 1000], [2.5, 125]]]),
    "MultiPolygon": ("MultiPolygon", [[[[0, 0], [1, 0], [0, 125]]], [[[1, 1000], [2.5, 1000], [2.5, 125]]]]),
}
LIST_KINDS = list(LIST_POOL)

EV_TAGS = [XT1]  # default label "K2:v1"


def opt_kw(**kw):
    return {k: v for k, v in kw.items() if v is not None}


def seg_fields(s):
    return [s.onset_s, s.offset_s, s.onset_sample, s.offset_sample]


def box_fields(b):
    return [b.onset, b.offset, b.low_freq, b.high_freq]


def check_segment(out, seg, m, cls, detail):
    f = seg_fields(seg)
    out.expect("export_times", cm.same_number(f[0], m[0]) and cm.same_number(f[1], m[1]), f[:2], [str(m[0]), str(m[1])], cls, detail)
    out.expect("export_sample_index", type(f[2]) is int and type(f[3]) is int and f[2] == m[2] and f[3] == m[3],
               f[2:], [m[2], m[3]], cls, detail)


def check_box(out, box, m, cls, detail):
    f = box_fields(box)
    out.expect("export_times", cm.same_number(f[0], m[0]) and cm.same_number(f[1], m[1]), f[:2], [str(m[0]), str(m[1])], cls, detail)
    out.expect("export_freqs", cm.same_number(f[2], m[2]) and cm.same_number(f[3], m[3]), f[2:], [str(m[2]), str(m[3])], cls, detail)


def te_cls(te):
    return "1" if te == 1 else "!=1"


def why_of(m):
    return m[1] if m[0] == "reject" else "convertible"


def run_export(case):
    out = Out(case)
    fn, kind, coords, sr = case["fn"], case["kind"], case["coords"], case["sr"]
    cast, raise_t = case["cast"], case.get("raise_t")
    te = F(case.get("te", "1"))
    rec = mkrec(sr, float(te))  # sr is Recording.samplerate (the real rate); the expansion must not change any export output
    ev = mk_event(rec, kind, coords, [xreal(t) for t in EV_TAGS])
    ceff = True if cast is None else cast  # documented defaults: cast True, raise_on_time_geometries True
    if fn == "segment":
        r = export_call("segment", [ev], opt_kw(cast_to_segment=cast))
        m = cm.export_segment(kind, coords, ceff, sr)
    else:
        reff = True if raise_t is None else raise_t
        r = export_call("bbox", [ev], opt_kw(cast_to_bbox=cast, raise_on_time_geometries=raise_t))
        m = cm.export_bbox(kind, coords, ceff, reff, sr)
    cls = {"fn": EXPORT_FN[fn], "kind": kind or "none", "why": why_of(m), "te": te_cls(te)}
    if m[0] == "reject":
        out.expect("export_decision", r[0] == "reject", [r[0], r[1] if r[0] != "ok" else repr(r[1][0])], ["reject", m[1]], cls)
    elif out.expect("export_decision", r[0] == "ok", list(r), "converted", cls):
        el = r[1][0]
        if fn == "segment":
            check_segment(out, el, m[1], cls, None)
        else:
            check_box(out, el, m[1], cls, None)
        out.expect("export_label", el.label == "K2:v1", el.label, "K2:v1", cls)
    out.nontrivial = m[0] == "reject" or kind != ("TimeInterval" if fn == "segment" else "BoundingBox")
    out.klass = "export:%s:%s:te%s" % (fn, why_of(m), te_cls(te))
    return out


def gen_export(p):
    pool = export_pool(p)
    for te in p["export_tes"]:
        for kind, coords in pool:
            for sr in p["export_srs"]:
                for cast in (None, True, False):
                    yield {"space": "export", "fn": "segment", "kind": kind, "coords": coords, "cast": cast, "sr": sr, "te": te}
                    for raise_t in (None, True, False):
                        yield {"space": "export", "fn": "bbox", "kind": kind, "coords": coords, "cast": cast,
                               "raise_t": raise_t, "sr": sr, "te": te}


def run_export_list(case):
    out = Out(case)
    fn, kinds, sr = case["fn"], case["kinds"], case["sr"]
    cast, ignore, raise_t = case["cast"], case["ignore"], case.get("raise_t")
    te = F(case.get("te", "1"))
    rec = mkrec(sr, float(te))
    events = []
    for i, k in enumerate(kinds):
        gk, gc = LIST_POOL[k]
        events.append(mk_event(rec, gk, gc, [xreal(("pos", str(i)))]))
    ceff = True if cast is None else cast
    is_box = fn == "annotation_bbox"
    if fn == "sequence":
        kw = opt_kw(cast_to_segment=cast, ignore_errors=ignore)
        ieff = False if ignore is None else ignore  # documented default of sequence_from_annotations
    else:
        kw = opt_kw(cast_geometry=cast, ignore_errors=ignore)
        ieff = True if ignore is None else ignore  # documented default of annotation_from_clip_annotation
        if is_box:
            kw.update(opt_kw(raise_on_time_geometries=raise_t))
    reff = True if raise_t is None else raise_t
    outcomes = []
    for k in kinds:
        gk, gc = LIST_POOL[k]
        outcomes.append(cm.export_bbox(gk, gc, ceff, reff, sr) if is_box else cm.export_segment(gk, gc, ceff, sr))
    m = cm.export_list(outcomes, ieff)
    r = export_call(fn, events, kw)
    nrej = sum(1 for o in outcomes if o[0] == "reject")
    cls = {"fn": EXPORT_FN[fn], "ignore_errors": DEFAULT if ignore is None else ignore, "unconvertible": min(nrej, 1),
           "te": te_cls(te)}
    if m[0] == "reject":
        out.expect("unconvertible_policy", r[0] == "reject", [r[0], r[1] if r[0] != "ok" else len(r[1])],
                   ["reject", "element %d is unconvertible" % m[1]], cls)
    elif out.expect("unconvertible_policy", r[0] == "ok" and len(r[1]) == len(m[1]),
                    [r[0], r[1] if r[0] != "ok" else [e.label for e in r[1]]], ["ok", ["pos:%d" % i for i, _ in m[1]]], cls):
        got = [e.label for e in r[1]]
        want = ["pos:%d" % i for i, _ in m[1]]
        out.expect("export_order", got == want, got, want, cls)
        for el, (i, val) in zip(r[1], m[1]):
            c2 = {"fn": EXPORT_FN[fn], "kind": kinds[i], "why": "convertible", "te": te_cls(te)}
            if is_box:
                check_box(out, el, val, c2, {"index": i})
            else:
                check_segment(out, el, val, c2, {"index": i})
    out.nontrivial = nrej >= 1 and len(kinds) >= 2
    out.klass = "export_list:%s:%s:kept%s" % (fn, m[0], len(m[1]) if m[0] == "ok" else "-")
    return out


def gen_export_list(p):
    """Expansion 1: every list up to export_maxlen; every other expansion: every list up to export_list_te_maxlen."""
    for te in p["export_tes"]:
        maxlen = p["export_maxlen"] if te == "1" else min(p["export_maxlen"], p["export_list_te_maxlen"])
        for n in range(0, maxlen + 1):
            for kinds in itertools.product(LIST_KINDS, repeat=n):
                for sr in p["export_srs"]:
                    for cast in (True, False):
                        for ignore in (None, True, False):
                            for fn in ("sequence", "annotation_seq"):
                                yield {"space": "export_list", "fn": fn, "kinds": list(kinds), "cast": cast, "ignore": ignore,
                                       "sr": sr, "te": te}
                            for raise_t in (True, False):
                                yield {"space": "export_list", "fn": "annotation_bbox", "kinds": list(kinds), "cast": cast,
                                       "ignore": ignore, "raise_t": raise_t, "sr": sr, "te": te}


# =========================================================================== EXPORT, non-dyadic times
DECIMAL_FN = ["segment", "sequence", "annotation_seq"]


def run_export_decimal(case):
    """Intervals [k0/den, k1/den] (doubles k/den) exported through the exporters that emit sample indices."""
    out = Out(case)
    fn, geom, sr, den, ks = case["fn"], case["geom"], case["sr"], case["den"], case["ks"]
    te = F(case.get("te", "1"))
    rec = mkrec(sr, float(te))
    ivs = [(k0 / den, k1 / den) for k0, k1 in ks]
    events = []
    for i, (t0, t1) in enumerate(ivs):
        coords = [t0, t1] if geom == "TimeInterval" else [t0, 0.0, t1, 1000.0]
        events.append(mk_event(rec, geom, coords, [xreal(("pos", str(i)))]))
    r = export_call(fn, events, {})
    cls = {"fn": EXPORT_FN[fn], "kind": geom, "why": "decimal_time", "te": te_cls(te)}
    out.transitions = 1
    judged = vac = 0
    fractional = False
    if out.expect("export_decision", r[0] == "ok" and len(r[1]) == len(ivs), [r[0], r[1] if r[0] != "ok" else len(r[1])],
                  ["ok", len(ivs)], cls):
        got = [e.label for e in r[1]]
        want = ["pos:%d" % i for i in range(len(ivs))]
        out.expect("export_order", got == want, got, want, cls)
        for i, (seg, (t0, t1)) in enumerate(zip(r[1], ivs)):
            f = seg_fields(seg)
            out.expect("export_times", type(f[0]) is float and type(f[1]) is float and F(f[0]) == F(t0) and F(f[1]) == F(t1),
                       f[:2], [t0, t1], cls, {"index": i})
            for which, t, s in (("onset", t0, f[2]), ("offset", t1, f[3])):
                ok, idx = cm.sample_index_decided(t, sr)
                if (t * sr) != int(t * sr):
                    fractional = True
                if not ok:
                    out.vac("export_sample_index")
                    vac += 1
                    continue
                judged += 1
                out.expect("export_sample_index", type(s) is int and s == idx, s, idx, cls,
                           {"index": i, "which": which, "time": repr(t), "samplerate": sr, "double_product": repr(t * sr)})
    out.validated = judged
    out.nontrivial = fractional
    out.klass = "export_decimal:%s:%s:%s" % (fn, geom, "all_judged" if vac == 0 else ("some_unjudged" if judged else "none_judged"))
    return out


def gen_export_decimal(p):
    for te in p["export_tes"]:
        for den, kmax in p["decimal_families"]:
            for sr in p["decimal_srs"]:
                # every k/den is the onset of one interval and the offset of the previous one
                for k in range(0, kmax):
                    geom = "TimeInterval" if k % 2 == 0 else "BoundingBox"
                    yield {"space": "export_decimal", "fn": "segment", "geom": geom, "sr": sr, "den": den, "ks": [[k, k + 1]],
                           "te": te}
                for fn in ("sequence", "annotation_seq"):
                    for k in range(0, kmax - 2, 3):
                        geom = "TimeInterval" if (k // 3) % 2 == 0 else "BoundingBox"
                        yield {"space": "export_decimal", "fn": fn, "geom": geom, "sr": sr, "den": den,
                               "ks": [[k, k + 1], [k + 1, k + 2], [k + 2, k + 3]], "te": te}


# =========================================================================== ROUNDTRIP
RT_LABELS = ["e", "__empty__", "empty", ""]


def run_roundtrip(case):
    out = Out(case)
    kind, unit, sr, els = case["kind"], case["unit"], case["sr"], case["els"]
    rec = mkrec(sr, 1.0)
    n = len(els)
    labels = RT_LABELS[:n]
    obj = build_crowsetta(kind, els, unit, sr, labels)
    is_box = kind in ("bbox", "annotation_bbox")
    cls = {"fn": IMPORT_FN[kind] + ">" + EXPORT_FN[kind], "unit": unit}
    out.klass = "roundtrip:%s:%s:n%d" % (kind, unit, n)
    out.nontrivial = n >= 2
    if is_box and any(F(e[3]) > F(sr) / 2 for e in els):
        out.vac("roundtrip")  # a box above the Nyquist frequency: the cap applies, reproduction is not required
        out.klass += ":above_nyquist"
        out.transitions = 0
        out.validated = 0
        return out
    r = import_call(kind, obj, rec, {})
    out.transitions = 2
    if r[0] != "ok":
        out.fail("roundtrip", list(r), "import succeeds", dict(cls, step="import"))
        return out
    events = r[1]
    kw = {"value_only": True}
    r2 = export_call(kind, events, kw)
    if r2[0] != "ok":
        out.fail("roundtrip", list(r2), "export succeeds", dict(cls, step="export"))
        return out
    back = r2[1]
    got_labels = [e.label for e in back]
    if not out.expect("roundtrip", got_labels == labels, got_labels, labels, dict(cls, step="labels_and_order")):
        if len(back) != n:
            return out
    for i, (el, b) in enumerate(zip(els, back)):
        if is_box:
            f = box_fields(b)
            want = [F(el[0]), F(el[1]), F(el[2]), F(el[3])]
            out.expect("roundtrip", all(cm.same_number(x, y) for x, y in zip(f, want)), f, [str(x) for x in want],
                       dict(cls, step="box"), {"index": i})
            continue
        f = seg_fields(b)
        if unit in ("s", "both"):
            want = [F(el[0]), F(el[1])]
            out.expect("roundtrip", F(f[0]) == want[0] and F(f[1]) == want[1], f[:2], [str(x) for x in want],
                       dict(cls, step="seconds"), {"index": i})
        if unit in ("samples", "both"):
            s0, s1 = sample_of(el[0], sr), sample_of(el[1], sr)
            if cm.representable(F(s0, sr)) and cm.representable(F(s1, sr)):
                out.expect("roundtrip", f[2] == s0 and f[3] == s1, f[2:], [s0, s1], dict(cls, step="samples"), {"index": i})
            else:
                out.vac("roundtrip")
    return out


def gen_roundtrip(p):
    ivs = [list(iv) for iv in strict_pairs(p["seq_times"])]
    boxes = [[iv[0], iv[1], fp[0], fp[1]] for iv in strict_pairs(p["box_list_times"]) for fp in strict_pairs(p["box_list_freqs"])]
    for sr in p["srs"]:
        for unit in UNITS:
            for iv in ivs:
                yield {"space": "roundtrip", "kind": "segment", "unit": unit, "sr": sr, "els": [iv]}
        for b in boxes:
            yield {"space": "roundtrip", "kind": "bbox", "unit": "s", "sr": sr, "els": [b]}
    for n in range(0, p["seq_maxlen"] + 1):
        for els in itertools.product(ivs, repeat=n):
            for sr in p["srs"]:
                for unit in UNITS:
                    for kind in ("sequence", "annotation_seq"):
                        yield {"space": "roundtrip", "kind": kind, "unit": unit, "sr": sr, "els": list(els)}
    for n in range(0, p["box_maxlen"] + 1):
        for els in itertools.product(boxes, repeat=n):
            for sr in p["srs"]:
                yield {"space": "roundtrip", "kind": "annotation_bbox", "unit": "s", "sr": sr, "els": list(els)}


# =========================================================================== blocks / dispatch
PLAN = {
    "quick": [
        ("import_single", 1), ("import_seq", 6), ("import_ann_seq", 6), ("import_ann_bbox", 32),
        ("cascade", 4), ("label", 8), ("label_tag", 1), ("export", 2), ("export_list", 16), ("roundtrip", 6),
        ("export_decimal", 2),
    ],
    "thorough": [
        ("import_single", 1), ("import_seq", 16), ("import_ann_seq", 16), ("import_ann_bbox", 40),
        ("cascade", 4), ("label", 6), ("label_tag", 1), ("export", 4), ("export_list", 26), ("roundtrip", 10),
        ("export_decimal", 4),
    ],
}


def gen_cases(space, tier):
    p = P(tier)
    if space.startswith("import"):
        return gen_import(space, p)
    return {"cascade": gen_cascade, "label": gen_label, "label_tag": gen_label_tag, "export": gen_export,
            "export_list": gen_export_list, "roundtrip": gen_roundtrip, "export_decimal": gen_export_decimal}[space](p)


def blocks(tier):
    out = []
    for space, n in PLAN[tier]:
        for i in range(n):
            out.append({"space": space, "tier": tier, "shard": i, "of": n})
    return out


RUNNERS = {
    "import": run_import, "cascade": run_cascade, "label": run_label, "label_tag": run_label_tag,
    "export": run_export, "export_list": run_export_list, "roundtrip": run_roundtrip,
    "export_decimal": run_export_decimal,
}


def run_case(case):
    return RUNNERS[case["space"]](case)


def run_block(block, rec):
    for case in shard(gen_cases(block["space"], block["tier"]), block["shard"], block["of"]):
        rec.add(run_case(case))


def replay_case(case):
    return run_case(case)
