"""C15 — Audio-derived arrays are sample-accurate and their axes tell the truth.

Four exhaustively enumerated spaces, each executed on the real functions and compared with the
`wave`-module model of models/audio_frames.py:

recording   every (file rate, frames, channels, time expansion)                 -> load_recording
clip        8/10 Hz files: EVERY (start, end) on the 1/16 s file-time lattice from 0 to 1.5 x file
            length; other rates: every ordered pair of a boundary set                -> load_clip
resample    every (source rate, target rate) pair x length x channels x start    -> resample
spectrogram every source rate x window x hop (whole and fractional numbers of samples)
            x channels x start                                          -> compute_spectrogram

Real PCM-16 WAV files (integer ramps) are written once per worker process with the standard
library `wave` module and read back by the model with `wave`, never with soundfile.
"""
from __future__ import annotations

import atexit
import itertools
import os
import shutil
import tempfile
from fractions import Fraction as F

import numpy as np
import xarray as xr

from soundevent import audio, data
from soundevent.arrays import create_time_dim_from_array

from mc import runner as _runner
from mc.runner import Out
from models import audio_frames as M
from props.common import U, is_rejection

ID = "C15"
RULE = (
    "recording: every (file rate, frames, channels, time expansion); non-trivial when channels > 1 or expansion != 1. "
    "clip: per (rate in {8,10,..}, frames, channels, expansion) EVERY pair start <= end of the lattice k/16 s of file "
    "time (recording time = file time / expansion), k/16 <= 1.5 x file length; per other rate every pair start <= end of "
    "the boundary set {0, 1 sample -/+ 2^-20 s, 1 sample, mid (on and off a sample), EOF - 1 sample, EOF, EOF + 1 sample, "
    "1.5 x EOF}; one load_clip call per case (the load_recording result it is compared with is loaded once per "
    "recording and process and is counted in the recording space). A clip case is non-trivial when its frame count and "
    "offset are judged (not ambiguous in doubles) and the clip is off a sample boundary at either end, yields zero "
    "samples, or reaches / starts at / starts past the end of the file. "
    "resample: every (source, target) rate pair x length x channels x first-sample index; non-trivial when the rates "
    "differ and an array is produced. spectrogram: every source rate x window x hop x channels x first-sample index; "
    "non-trivial when window or hop is a fractional number of samples. rewrite: every ordered pair of 4 file parameter sets written one after "
    "the other to the same path, Recording.from_file + load_recording after each write. relocate: a recording with a relative path loaded with an "
    "audio directory (str / Path) while the working directory holds a different file under the same relative name. resample also once per "
    "direction on a source of 2^20 + 1 samples. distinct = distinct case descriptor."
)
ASSUMPTIONS = [
    "PCM-16 WAV files only; libsndfile returns int/32768 as float64, which is exact, so frame values are compared with ==",
    "time expansion follows Recording.from_file: recording samplerate = int(file rate x expansion) (only expansions "
    "making this whole are enumerated), duration = frames / file rate / expansion, clip times are recording time; "
    "file frame i is recording frame i at time i / recording samplerate. The model derives the recording samplerate "
    "from the file header read with `wave`, not from the Recording object",
    "floor(x * samplerate) on doubles: with S, E the exact values of the clip's start/end doubles, the expected offset "
    "is floor(S*sr) and the expected count floor((E-S)*sr). They are JUDGED only when either (a) the straightforward "
    "double evaluation (start*sr; end-start; (end-start)*sr) is exact, i.e. equals the exact rational (always the "
    "case on the dyadic 1/16 s lattice with expansions 1, 2, 1/2), or (b) the exact product is farther than 2^-24 "
    "sample from every integer, so that every double evaluation floors alike (error < 1e-12 sample for < 2^10 "
    "samples). All other cases (e.g. start = k/44100 intended on a sample boundary, k/160 s at 80 Hz) are counted "
    "vacuous for frame_count / frame_values / frame_times; they are still executed and judged by the oracles that do "
    "not need the floor (no exception, clip_equals_recording, the four axis oracles)",
    "an exception raised by load_clip is a frame_count violation in every case (the property promises frames for every "
    "clip); an exception of load_recording / resample / compute_spectrogram on an in-domain input is reported under "
    "no_crash_in_domain, except xarray's 'conflicting sizes' ValueError which is a coords_match_data_length violation",
    "clip_equals_recording: clip frame i is compared with recording frame round(t_i * sr) provided that frame exists; "
    "times must agree within 1e-9 step and values exactly; frames past the end of the recording are not compared here",
    "axis_starts_at_source_start: load_recording -> 0; resample / spectrogram time axis -> the source's first coordinate; "
    "spectrogram frequency axis -> 0 Hz (all within 1e-9 step); load_clip -> the sample boundary at or before the clip "
    "start: start - step*(1+1e-9) < t0 <= start + 1e-9*step",
    "axis_agrees_with_step uses the advertised `step` attribute only (a missing attribute is a violation); an empty axis "
    "is vacuous for the three coordinate oracles",
    "resample is judged for sources of >= 2 samples whose exact output length floor(n*target/source) is >= 1; a "
    "one-sample source (scipy.signal.resample needs two time points: IndexError) and an empty output (ZeroDivisionError) "
    "are degenerate inputs the property does not define: executed, counted vacuous, visible in the outcome histogram",
    "resample / spectrogram sources are built by hand on the exact sample lattice (first + i)/rate with "
    "create_time_dim_from_array(samplerate=rate); spectrogram options other than window/hop are the defaults",
]

TE = {"1": F(1), "2": F(2), "10": F(10), "1/2": F(1, 2), "4": F(4), "5": F(5), "3/2": F(3, 2)}
CHANNELS = [1, 2, 3]
DEN = 16  # file-time lattice 1/16 s
EPS = F(1, 2 ** 20)
TOL = M.REL_TOL


def cfg(tier):
    if tier == "quick":
        return {
            "te": ["1", "2", "10", "1/2"],
            "lattice_rates": [8, 10], "lattice_frames": [16],
            "boundary_rates": [4000, 8000, 22050, 44100], "boundary_frames": [16, 64],
            "recording_frames": [16, 33, 64],
            "resample_rates": [8, 10, 12, 4000, 8000, 22050, 44100], "resample_lengths": [1, 2, 7, 16, 33],
            "resample_first": [0, 4], "resample_channels": [1, 2],
            "spec_frames": [33, 64], "spec_first": [0, 8], "spec_channels": [1, 2],  # 33 < the 37-sample window: a source shorter than one window
            "spec_windows": ["4", "8", "16", "9/2", "29/4", "37"], "spec_hops": ["1", "2", "4", "3/2", "11/4"],
        }
    return {
        "te": ["1", "2", "10", "1/2", "4", "5"],
        "lattice_rates": [8, 10, 12], "lattice_frames": [16, 24, 40],
        "boundary_rates": [4000, 8000, 11025, 16000, 22050, 44100, 48000, 96000], "boundary_frames": [16, 33, 64],
        "recording_frames": [16, 17, 33, 48, 64],
        "resample_rates": [8, 10, 12, 4000, 8000, 11025, 16000, 22050, 44100, 48000, 96000],
        "resample_lengths": [1, 2, 3, 7, 16, 33, 64], "resample_first": [0, 4, 9], "resample_channels": [1, 2],
        "spec_frames": [33, 64], "spec_first": [0, 8], "spec_channels": [1, 2],
        "spec_windows": ["4", "8", "16", "9/2", "29/4", "5", "25/2", "37", "51"],
        "spec_hops": ["1", "2", "4", "3/2", "11/4", "3", "5/4", "7/2"],
    }


def te_ok(rate, te):
    return (F(rate) * TE[te]).denominator == 1


def spec_rates(c):
    rates = sorted({int(F(r) * TE[t]) for r in c["lattice_rates"] + c["boundary_rates"] for t in c["te"] if te_ok(r, t)})
    return rates


def bounds(tier):
    c = cfg(tier)
    b = dict(c)
    b["channels"] = CHANNELS
    b["clip_lattice"] = "file time k/%d s, 0 <= k/%d <= 1.5 x frames/rate, every pair start <= end" % (DEN, DEN)
    b["clip_boundary_set"] = "0, 1/sr-2^-20, 1/sr, 1/sr+2^-20, (n//2)/sr, (n//2+1/2)/sr, (n-1)/sr, n/sr, (n+1)/sr, 3n/(2sr); every pair start <= end"
    b["spectrogram_source_rates"] = spec_rates(c)
    b["tolerance"] = "1e-9 step on coordinates; exact on counts and PCM values"
    return b


# ---------------------------------------------------------------- files / recordings (per-process caches)
_CACHE = {"pid": None}


def _cache():
    if _CACHE.get("pid") != os.getpid():
        _CACHE.clear()
        _CACHE.update(pid=os.getpid(), dir=None, files={}, recs={}, loaded={})
    return _CACHE


def _dir():
    c = _cache()
    if c["dir"] is None:
        if _runner._SCRATCH_ROOT is not None:
            c["dir"] = _runner.scratch_dir()
        else:  # replay mode: nobody removes the runner's scratch directory for us
            d = tempfile.mkdtemp(prefix="verif-C15-replay-")
            atexit.register(shutil.rmtree, d, True)
            c["dir"] = d
    return c["dir"]


def wav_file(rate, frames, ch):
    """(path, model frames) of the WAV file with these parameters; written once per process."""
    c = _cache()
    k = (rate, frames, ch)
    if k not in c["files"]:
        path = os.path.join(_dir(), "r%d_n%d_c%d.wav" % k)
        M.write_wav(path, rate, frames, ch)
        r2, ch2, fr = M.read_wav(path)  # the reference reads the file back with `wave`
        assert (r2, len(fr), ch2) == k
        c["files"][k] = (path, fr)
    return c["files"][k]


def describe(e):
    return "%s.%s: %s" % (type(e).__module__.split(".")[0], type(e).__name__, str(e)[:160])


def get_recording(rate, frames, ch, te):
    """The Recording object (built by Recording.from_file) or ("err", text)."""
    c = _cache()
    k = (rate, frames, ch, te)
    if k not in c["recs"]:
        path, _ = wav_file(rate, frames, ch)
        try:
            c["recs"][k] = data.Recording.from_file(
                path, time_expansion=float(TE[te]), compute_hash=False, uuid=U("c15:%d:%d:%d:%s" % k))
        except Exception as e:  # noqa
            c["recs"][k] = ("err", describe(e))
    return c["recs"][k]


def call(fn, *a, **kw):
    try:
        return "ok", fn(*a, **kw)
    except Exception as e:  # noqa
        return ("reject" if is_rejection(e) else "crash"), e


def loaded_recording(rate, frames, ch, te):
    """load_recording result cached per process: ('ok', DataArray) | ('reject'|'crash', exc) | ('norec', text)."""
    c = _cache()
    k = (rate, frames, ch, te)
    if k not in c["loaded"]:
        rec = get_recording(*k)
        if isinstance(rec, tuple):
            c["loaded"][k] = ("norec", rec[1])
        else:
            c["loaded"][k] = call(audio.load_recording, rec)
    return c["loaded"][k]


# ---------------------------------------------------------------- generic axis oracles
def exc_cls(fn, e, kind):
    return {"fn": fn, "kind": kind, "exc": type(e).__name__}


def is_size_conflict(e):
    return isinstance(e, ValueError) and "conflicting sizes" in str(e)


def axis_oracles(out, fn, axis, coords, step, data_len, start_ok, start_expected, cls_step, cls_other=None):
    """The four axis oracles on one axis.  start_ok(c0, step) -> bool."""
    cls_other = cls_other or {"fn": fn, "axis": axis}
    out.expect("coords_match_data_length", len(coords) == data_len, len(coords), data_len, dict(cls_other, kind="length"))
    if not coords:
        for o in ("axis_strictly_increasing", "axis_starts_at_source_start", "axis_agrees_with_step"):
            out.vac(o)
        return
    out.expect("axis_strictly_increasing", M.strictly_increasing(coords), coords[:6], "strictly increasing",
               dict(cls_other, kind="order"))
    if step is None or not (step > 0):
        out.fail("axis_agrees_with_step", {"step": step}, "a positive step attribute", dict(cls_other, kind="no_step_attr"))
        out.vac("axis_starts_at_source_start")
        return
    out.expect("axis_starts_at_source_start", start_ok(coords[0], step), coords[0], start_expected,
               dict(cls_other, kind="start"))
    drift, at = M.max_step_drift(coords, step)
    out.expect("axis_agrees_with_step", drift <= 1 + TOL,
               {"step_attr": step, "index": at, "coord": coords[at], "first": coords[0], "drift_in_steps": round(drift, 6),
                "mean_spacing": (coords[-1] - coords[0]) / (len(coords) - 1) if len(coords) > 1 else None},
               "every coordinate within one step of first + i*step", cls_step)


def near(expected):
    return lambda c0, step: abs(c0 - expected) <= TOL * step


def step_of(arr, dim):
    s = arr.coords[dim].attrs.get("step")
    return None if s is None else float(s)


# ---------------------------------------------------------------- recording space
def run_recording(case):
    out = Out(case)
    rate, frames, ch, te = case["rate"], case["frames"], case["ch"], case["te"]
    _, fr = wav_file(rate, frames, ch)
    sr = M.recording_rate(rate, TE[te])
    out.nontrivial = ch > 1 or te != "1"
    st, r = loaded_recording(rate, frames, ch, te)
    if st == "norec":
        out.fail("no_crash_in_domain", r, "a Recording", {"fn": "Recording.from_file", "kind": "crash"})
        out.klass = "recording/norec"
        return out
    fn = "load_recording"
    if st != "ok":
        if is_size_conflict(r):
            out.fail("coords_match_data_length", describe(r), "as many time coordinates as frames", exc_cls(fn, r, "length"))
        else:
            out.fail("no_crash_in_domain", describe(r), "an array of %d frames" % frames, exc_cls(fn, r, "crash"))
        out.klass = "recording/" + st
        return out
    arr = r
    out.klass = "recording/ok"
    shape_ok = arr.dims == ("time", "channel")
    out.expect("frame_count", shape_ok and arr.shape[0] == frames, [list(arr.dims), list(arr.shape)], frames,
               {"fn": fn, "kind": "count"})
    exp = M.expected_frames(fr, 0, frames, ch)
    got = arr.data.tolist() if shape_ok else None
    out.expect("frame_values", got == exp, _head(got), _head(exp), {"fn": fn, "kind": "values"})
    coords = [float(x) for x in arr.coords["time"].data]
    worst, at = M.times_on_lattice(coords, 0, sr) if coords else (0.0, 0)
    out.expect("frame_times", worst <= TOL, {"index": at, "time": coords[at] if coords else None, "off_in_steps": worst},
               "i / %d" % sr, {"fn": fn, "kind": "times"})
    axis_oracles(out, fn, "time", coords, step_of(arr, "time"), arr.shape[0] if shape_ok else -1, near(0.0), 0.0,
                 {"fn": fn, "axis": "time", "kind": "step"})
    return out


def _head(x, n=4):
    if x is None:
        return None
    return {"n": len(x), "head": x[:n], "tail": x[-2:] if len(x) > n else []}


# ---------------------------------------------------------------- clip space
def clip_times(case):
    return float(F(case["s"])), float(F(case["e"]))


def run_clip(case):
    out = Out(case)
    rate, frames, ch, te = case["rate"], case["frames"], case["ch"], case["te"]
    _, fr = wav_file(rate, frames, ch)
    sr = M.recording_rate(rate, TE[te])
    s, e = clip_times(case)
    fn = "load_clip"
    rec = get_recording(rate, frames, ch, te)
    if isinstance(rec, tuple):
        out.fail("no_crash_in_domain", rec[1], "a Recording", {"fn": "Recording.from_file", "kind": "crash"})
        out.klass = "clip/norec"
        return out
    x = M.clip_expectation(s, e, sr)
    reg = M.region(x["off_near"], x["cnt_near"], frames)
    judged = x["off"] is not None and x["cnt"] is not None
    mode = "ambiguous" if not judged else ("exact" if x["off_mode"] == x["cnt_mode"] == "exact" else "guard")
    off_boundary = judged and (F(s) * sr != x["off"] or (F(e) - F(s)) * sr != x["cnt"])
    out.nontrivial = judged and (off_boundary or reg != "inside")
    try:
        clip = data.Clip(uuid=U("c15clip"), recording=rec, start_time=s, end_time=e)
    except Exception as ex:  # noqa  (s <= e always: the schema must accept the clip)
        out.fail("no_crash_in_domain", describe(ex), "a Clip", {"fn": "Clip", "kind": "crash"})
        out.klass = "clip/noclip"
        return out
    out.expect("inputs_as_given", clip.start_time == s and clip.end_time == e, [clip.start_time, clip.end_time], [s, e],
               {"fn": "Clip", "kind": "times_not_as_given"})
    st, r = call(audio.load_clip, clip)
    out.klass = "clip/%s/%s/%s" % (reg, mode, st)
    if st != "ok":
        if is_size_conflict(r):
            out.fail("coords_match_data_length", describe(r), "as many time coordinates as frames",
                     exc_cls(fn, r, "length_" + reg), {"expected_offset": x["off"], "expected_count": x["cnt"]})
        else:
            kind = reg if reg in ("starts_past_eof", "zero_samples") else "crash_" + reg
            out.fail("frame_count", describe(r),
                     {"frames": x["cnt"] if x["cnt"] is not None else "about %d" % x["cnt_near"],
                      "from": x["off"] if x["off"] is not None else "about %d" % x["off_near"], "file_frames": frames},
                     exc_cls(fn, r, kind), {"start": s, "end": e, "samplerate": sr})
        return out
    arr = r
    shape_ok = arr.dims == ("time", "channel") and arr.shape[1] == ch
    n_obs = arr.shape[0]
    coords = [float(v) for v in arr.coords["time"].data]
    got = arr.data.tolist()
    # ---- count / values / times against the file
    if x["cnt"] is None:
        out.vac("frame_count")
    else:
        out.expect("frame_count", shape_ok and n_obs == x["cnt"], [list(arr.dims), list(arr.shape)], x["cnt"],
                   {"fn": fn, "kind": "count_" + reg}, {"start": s, "end": e, "samplerate": sr})
    if x["off"] is None:
        out.vac("frame_values")
        out.vac("frame_times")
    else:
        exp = M.expected_frames(fr, x["off"], n_obs, ch)
        out.expect("frame_values", shape_ok and got == exp, _head(got), _head(exp), {"fn": fn, "kind": "values_" + reg},
                   {"expected_offset": x["off"], "start": s, "end": e})
        if coords:
            worst, at = M.times_on_lattice(coords, x["off"], sr)
            out.expect("frame_times", worst <= TOL, {"index": at, "time": coords[at], "off_in_steps": worst},
                       "(%d + i) / %d" % (x["off"], sr), {"fn": fn, "kind": "times_" + reg})
        else:
            out.vac("frame_times")
    # ---- against load_recording (independent of the floor)
    lst, full = loaded_recording(rate, frames, ch, te)
    if lst != "ok" or not coords or not shape_ok:
        out.vac("clip_equals_recording")
    else:
        rt = full.coords["time"].data
        rd = full.data
        j0 = int(round(coords[0] * sr))
        bad = None
        compared = 0
        for i in range(n_obs):
            j = j0 + i
            if 0 <= j < rd.shape[0]:
                compared += 1
                if abs(float(rt[j]) - coords[i]) * sr > TOL or rd[j].tolist() != got[i]:
                    bad = {"clip_index": i, "clip_time": coords[i], "clip_frame": got[i],
                           "recording_index": j, "recording_time": float(rt[j]), "recording_frame": rd[j].tolist()}
                    break
        if compared == 0:
            out.vac("clip_equals_recording")
        else:
            out.expect("clip_equals_recording", bad is None, bad, "same time and same samples", {"fn": fn, "kind": "vs_recording_" + reg})
    # ---- axis oracles
    def start_ok(c0, step):
        return (s - step * (1 + TOL) < c0) and (c0 <= s + TOL * step)
    axis_oracles(out, fn, "time", coords, step_of(arr, "time"), n_obs, start_ok,
                 "the sample boundary at or before %r" % s, {"fn": fn, "axis": "time", "kind": "step"})
    return out


def lattice_points(rate, frames, te):
    """Clip times (recording time, exact Fractions) on the file-time lattice k/DEN, up to 1.5 x file length."""
    kmax = (F(3, 2) * frames / rate * DEN).__floor__()
    return [F(k, DEN) / TE[te] for k in range(kmax + 1)]


def boundary_points(rate, frames, te):
    sr = M.recording_rate(rate, TE[te])
    n = frames
    pts = {F(0), F(1, sr) - EPS, F(1, sr), F(1, sr) + EPS, F(n // 2, sr), F(2 * (n // 2) + 1, 2 * sr),
           F(n - 1, sr), F(n, sr), F(n + 1, sr), F(3 * n, 2 * sr)}
    return sorted(p for p in pts if p >= 0)


def clip_pairs(points):
    fl = [float(p) for p in points]
    return [(i, j) for i in range(len(points)) for j in range(i, len(points)) if fl[i] <= fl[j]]


def clip_case(rate, frames, ch, te, ps, pe):
    return {"space": "clip", "rate": rate, "frames": frames, "ch": ch, "te": te, "s": str(ps), "e": str(pe)}


# ---------------------------------------------------------------- hand-built sources for resample / spectrogram
def source_array(rate, n, ch, first):
    t = np.array([(first + i) / rate for i in range(n)], dtype=np.float64)
    vals = np.array([[M.sample_value(i, c) / M.PCM16_SCALE for c in range(ch)] for i in range(n)], dtype=np.float64)
    return xr.DataArray(
        vals.reshape(n, ch), dims=("time", "channel"),
        coords={"time": create_time_dim_from_array(t, samplerate=rate), "channel": list(range(ch))},
    )


def axis_snapshot(a):
    return ([float(v) for v in a.coords["time"].data], dict(a.coords["time"].attrs), a.data.tobytes())


def source_axis_check(out, fn, a, before):
    """The source array handed to a producer is itself an 'array produced by' an earlier producer: after the call its axis
    must still tell the truth (coordinates, advertised step and data unchanged)."""
    after = axis_snapshot(a)
    same = before == after
    what = None
    if not same:
        what = "coords" if before[0] != after[0] else ("attrs" if before[1] != after[1] else "data")
    out.expect("source_axis_unchanged", same, {"changed": what, "before_attrs": before[1], "after_attrs": after[1]},
               "the input array is not modified", {"fn": fn, "axis": "time", "kind": "input_mutated:%s" % what})


def run_resample(case):
    out = Out(case)
    src, tgt, n, ch, first = case["src"], case["tgt"], case["n"], case["ch"], case["first"]
    fn = "resample"
    try:
        a = source_array(src, n, ch, first)
    except Exception as e:  # noqa
        out.fail("no_crash_in_domain", describe(e), "a source array", exc_cls("create_time_dim_from_array", e, "crash"))
        out.klass = "resample/nosource"
        return out
    q = F(n * tgt, src)
    in_domain = n >= 2 and q >= 1
    before = axis_snapshot(a)
    st, r = call(audio.resample, a, tgt)
    source_axis_check(out, fn, a, before)
    if st != "ok":
        out.klass = "resample/%s/%s" % ("in_domain" if in_domain else ("len1" if n < 2 else "empty_target"), st)
        if not in_domain:
            out.vac("no_crash_in_domain")
        elif is_size_conflict(r):
            out.fail("coords_match_data_length", describe(r), "as many time coordinates as samples", exc_cls(fn, r, "length"))
        else:
            out.fail("no_crash_in_domain", describe(r), "an array", exc_cls(fn, r, "crash"))
        return out
    out.ok("no_crash_in_domain")
    out.klass = "resample/%s/ok" % ("up" if tgt > src else "down" if tgt < src else "same")
    out.nontrivial = src != tgt
    coords = [float(v) for v in r.coords["time"].data]
    src0 = float(a.coords["time"].data[0])
    axis_oracles(out, fn, "time", coords, step_of(r, "time"), r.shape[r.get_axis_num("time")], near(src0), src0,
                 {"fn": fn, "axis": "time", "kind": "step"})
    out.expect("coords_match_data_length", r.shape[r.get_axis_num("channel")] == ch and r.ndim == 2, list(r.shape), ch,
               {"fn": fn, "axis": "channel", "kind": "length"})
    return out


def run_spectrogram(case):
    out = Out(case)
    rate, n, ch, first = case["rate"], case["n"], case["ch"], case["first"]
    w, h = F(case["window"]), F(case["hop"])
    fn = "compute_spectrogram"
    out.nontrivial = w.denominator != 1 or h.denominator != 1
    try:
        a = source_array(rate, n, ch, first)
    except Exception as e:  # noqa
        out.fail("no_crash_in_domain", describe(e), "a source array", exc_cls("create_time_dim_from_array", e, "crash"))
        out.klass = "spectrogram/nosource"
        return out
    window_s, hop_s = float(w / rate), float(h / rate)
    before = axis_snapshot(a)
    if case.get("boundary") == "none":
        st, r = call(audio.compute_spectrogram, a, window_s, hop_s, boundary=None)
    else:
        st, r = call(audio.compute_spectrogram, a, window_s, hop_s)
    source_axis_check(out, fn, a, before)
    hk = "frac" if h.denominator != 1 else "whole"
    wk = "frac" if w.denominator != 1 else "whole"
    out.klass = "spectrogram/w_%s/h_%s/%s" % (wk, hk, st)
    if st != "ok":
        if is_size_conflict(r):
            out.fail("coords_match_data_length", describe(r), "coordinates as long as the data", exc_cls(fn, r, "length"))
        else:
            out.fail("no_crash_in_domain", describe(r), "a spectrogram", exc_cls(fn, r, "crash"))
        return out
    out.ok("no_crash_in_domain")
    src0 = float(a.coords["time"].data[0])
    tcoords = [float(v) for v in r.coords["time"].data]
    kind = "step_attr_vs_realised_hop" if h.denominator != 1 else "whole_hop_not_realised"
    start_ok, start_exp = near(src0), src0
    if case.get("boundary") == "none":
        # without boundary extension the first frame is centred half a window into the source: the statement 'starts at the source's
        # start' is read as 'within one window after the source's start' for this non-default option
        start_ok = lambda c0, step: src0 - TOL * step <= c0 <= src0 + window_s + TOL * step  # noqa: E731
        start_exp = [src0, src0 + window_s]
    axis_oracles(out, fn, "time", tcoords, step_of(r, "time"), r.shape[r.get_axis_num("time")], start_ok, start_exp,
                 {"fn": fn, "axis": "time", "kind": kind if case.get("boundary") != "none" else "boundary_none"})
    fcoords = [float(v) for v in r.coords["frequency"].data]
    axis_oracles(out, fn, "frequency", fcoords, step_of(r, "frequency"), r.shape[r.get_axis_num("frequency")], near(0.0), 0.0,
                 {"fn": fn, "axis": "frequency", "kind": "step"})
    out.expect("coords_match_data_length", r.shape[r.get_axis_num("channel")] == ch and r.ndim == 3, list(r.shape), ch,
               {"fn": fn, "axis": "channel", "kind": "length"})
    return out


# ---------------------------------------------------------------- blocks / cases
LATTICE_PARTS = {"quick": 2, "thorough": 4}


# ---------------------------------------------------------------- rewrite space (history: the file at one path is replaced)
REWRITE_PARAMS = [(8, 16, 1), (10, 24, 2), (4000, 64, 1), (8000, 64, 3)]


def run_rewrite(case):
    """Write file A at a path, build and load its recording; replace the file by B at the same path, build and load again:
    the second recording and its frames are B's (what was learnt about A must not be served for B)."""
    out = Out(case)
    a, b = tuple(case["first"]), tuple(case["second"])
    path = os.path.join(_dir(), "rw_%d_%d_%d__%d_%d_%d.wav" % (a + b))
    out.nontrivial = True
    for which, (rate, frames, ch) in (("first", a), ("second", b)):
        M.write_wav(path, rate, frames, ch)
        _, _, fr = M.read_wav(path)
        st, rec = call(data.Recording.from_file, path, compute_hash=False, uuid=U("c15:rw:%s" % which))
        out.transitions += 1
        cls = {"fn": "Recording.from_file", "kind": "rewritten_file", "which": which}
        if st != "ok":
            out.fail("no_crash_in_domain", describe(rec), "a Recording", cls)
            break
        got = [rec.samplerate, rec.channels, round(rec.duration * rate)]
        out.expect("recording_describes_file", got == [rate, ch, frames], got, [rate, ch, frames], cls)
        st, arr = call(audio.load_recording, rec)
        out.transitions += 1
        cls = {"fn": "load_recording", "kind": "rewritten_file", "which": which}
        if st != "ok":
            out.fail("no_crash_in_domain", describe(arr), "an array of %d frames" % frames, cls)
            break
        exp = M.expected_frames(fr, 0, frames, ch)
        gotv = arr.data.tolist() if arr.dims == ("time", "channel") else None
        out.expect("frame_values", gotv == exp, _head(gotv), _head(exp), cls)
        coords = [float(x) for x in arr.coords["time"].data]
        worst, at = M.times_on_lattice(coords, 0, rate) if coords else (0.0, 0)
        out.expect("frame_times", worst <= TOL, {"index": at, "off_in_steps": worst}, "i / %d" % rate, cls)
    try:
        os.remove(path)
    except OSError:
        pass
    out.validated = out.transitions
    out.klass = "rewrite/%s" % ("ok" if not out.viol else "stale")
    return out


def run_relocate(case):
    """A recording with a RELATIVE path loaded with an audio directory: the file is audio_dir/path, whatever the current working
    directory holds (here: a different file under the same relative name)."""
    from pathlib import Path
    out = Out(case)
    real, decoy = tuple(case["real"]), tuple(case["decoy"])
    root = os.path.join(_dir(), "reloc_%d_%d_%d__%d_%d_%d" % (real + decoy))
    adir, cwd = os.path.join(root, "audio"), os.path.join(root, "cwd")
    rel = os.path.join("site", "r.wav")
    for d, (rate, frames, ch) in ((adir, real), (cwd, decoy)):
        os.makedirs(os.path.join(d, "site"), exist_ok=True)
        M.write_wav(os.path.join(d, rel), rate, frames, ch)
    rate, frames, ch = real
    _, _, fr = M.read_wav(os.path.join(adir, rel))
    rec = data.Recording(uuid=U("c15:reloc"), path=rel, duration=frames / rate, samplerate=rate, channels=ch)
    clip = data.Clip(uuid=U("c15:reloc:clip"), recording=rec, start_time=0.0, end_time=frames / rate)
    ad = adir if case["dir_as"] == "str" else Path(adir)
    old = os.getcwd()
    os.chdir(cwd)
    try:
        results = [("load_recording", call(audio.load_recording, rec, audio_dir=ad)), ("load_clip", call(audio.load_clip, clip, audio_dir=ad))]
    finally:
        os.chdir(old)
    exp = M.expected_frames(fr, 0, frames, ch)
    for fn, (st, arr) in results:
        cls = {"fn": fn, "kind": "relative_path_with_audio_dir"}
        if st != "ok":
            out.fail("no_crash_in_domain", describe(arr), "an array of %d frames" % frames, cls)
            continue
        got = arr.data.tolist() if arr.dims == ("time", "channel") else None
        out.expect("frame_values", got == exp, _head(got), _head(exp), cls)
    shutil.rmtree(root, ignore_errors=True)
    out.transitions = out.validated = 2
    out.nontrivial = True
    out.klass = "relocate/%s" % ("ok" if not out.viol else "wrong_file")
    return out


def blocks(tier):
    c = cfg(tier)
    out = []
    rec_rates = c["lattice_rates"] + c["boundary_rates"]
    for rate in rec_rates:
        out.append({"space": "recording", "tier": tier, "rate": rate})
    P = LATTICE_PARTS[tier]
    for rate in c["lattice_rates"]:
        for frames in c["lattice_frames"]:
            for ch in CHANNELS:
                for te in c["te"]:
                    if te_ok(rate, te):
                        for p in range(P):
                            out.append({"space": "clip_lattice", "rate": rate, "frames": frames, "ch": ch, "te": te,
                                        "part": p, "parts": P})
    for rate in c["boundary_rates"]:
        for te in c["te"]:
            if te_ok(rate, te):
                out.append({"space": "clip_boundary", "tier": tier, "rate": rate, "te": te})
    # a file rate x expansion that is not whole (11025 Hz x 3/2 = 16537.5): the recording's samplerate is the int Recording.from_file
    # stores (16537), and every frame time / count follows THAT rate
    out.append({"space": "clip_odd_te", "tier": tier})
    # a sample format whose values do not fit single precision (32-bit PCM)
    out.append({"space": "pcm32", "tier": tier})
    out.append({"space": "rewrite", "tier": tier})
    out.append({"space": "relocate", "tier": tier})
    # one file of more than 2^20 frames read as a whole and as a clip reaching past its end
    out.append({"space": "long_file", "tier": tier})
    # one source of more than 2^20 samples per direction (beyond any plausible 'long signal' threshold of an implementation)
    out.append({"space": "resample_long", "src": 8000, "tgt": 32000})
    out.append({"space": "resample_long", "src": 8000, "tgt": 2000})
    out.append({"space": "resample_long", "src": 384000, "tgt": 44100, "n": 1920000})  # an unusual rate pair (ratio 147/1280), 5 s
    # ten seconds at rates r for which 1 / (1 / r) is one ulp below r (truncating the rate to an int then loses a whole Hz): the frame
    # times must stay within one step of first + i x step over all ~16000 frames
    for rate in (12500, 25000, 50000):
        out.append({"space": "spectrogram_long", "rate": rate})
    for src in c["resample_rates"]:
        out.append({"space": "resample", "tier": tier, "src": src})
    for rate in spec_rates(c):
        out.append({"space": "spectrogram", "tier": tier, "rate": rate})
    return out


def cases_of(block):
    sp = block["space"]
    if sp == "recording":
        c = cfg(block["tier"])
        for frames in c["recording_frames"]:
            for ch in CHANNELS:
                for te in c["te"]:
                    if te_ok(block["rate"], te):
                        yield {"space": "recording", "rate": block["rate"], "frames": frames, "ch": ch, "te": te}
    elif sp == "clip_lattice":
        rate, frames, ch, te = block["rate"], block["frames"], block["ch"], block["te"]
        pts = lattice_points(rate, frames, te)
        for idx, (i, j) in enumerate(clip_pairs(pts)):
            if idx % block["parts"] == block["part"]:
                yield clip_case(rate, frames, ch, te, pts[i], pts[j])
    elif sp == "clip_boundary":
        c = cfg(block["tier"])
        rate, te = block["rate"], block["te"]
        for frames in c["boundary_frames"]:
            pts = boundary_points(rate, frames, te)
            for ch in CHANNELS:
                for i, j in clip_pairs(pts):
                    yield clip_case(rate, frames, ch, te, pts[i], pts[j])
    elif sp == "long_file":
        rate, frames = 8000, 2 ** 20 + 4096
        yield {"space": "recording", "rate": rate, "frames": frames, "ch": 1, "te": "1"}
        yield clip_case(rate, frames, 1, "1", F(1, 8), F(frames + 64, rate))
        yield clip_case(rate, frames, 1, "1", F(2 ** 20 - 8, rate), F(frames, rate))
    elif sp == "pcm32":
        for ch in (1, 2):
            yield {"space": "pcm32", "rate": 8000, "frames": 64, "ch": ch, "clips": [[0, 64], [3, 17], [40, 80], [63, 64]]}
    elif sp == "clip_odd_te":
        rate, frames, te = 11025, 64, "3/2"
        sr = M.recording_rate(rate, TE[te])
        pts = [F(k, sr) for k in (0, 1, 7, 32, 40, 63, 64, 70)] + [F(2 * k + 1, 2 * sr) for k in (0, 7, 32, 63)]
        pts = sorted(set(pts))
        for i, j in clip_pairs(pts):
            yield clip_case(rate, frames, 1, te, pts[i], pts[j])
    elif sp == "spectrogram_long":
        yield {"space": "spectrogram", "rate": block["rate"], "n": int(10.5 * block["rate"]), "ch": 1, "first": 0, "window": "16", "hop": "8"}
    elif sp == "resample_long":
        yield {"space": "resample", "src": block["src"], "tgt": block["tgt"], "n": block.get("n", 2 ** 20 + 1), "ch": 1, "first": 0}
    elif sp == "relocate":
        for a, b in itertools.permutations(REWRITE_PARAMS[:3], 2):
            for form in ("str", "Path"):
                yield {"space": "relocate", "real": list(a), "decoy": list(b), "dir_as": form}
    elif sp == "rewrite":
        for a, b in itertools.permutations(REWRITE_PARAMS, 2):
            yield {"space": "rewrite", "first": list(a), "second": list(b)}
    elif sp == "resample":
        c = cfg(block["tier"])
        for tgt, n, ch, first in itertools.product(c["resample_rates"], c["resample_lengths"], c["resample_channels"],
                                                   c["resample_first"]):
            yield {"space": "resample", "src": block["src"], "tgt": tgt, "n": n, "ch": ch, "first": first}
    elif sp == "spectrogram":
        c = cfg(block["tier"])
        for n, first, ch, w, h in itertools.product(c["spec_frames"], c["spec_first"], c["spec_channels"],
                                                    c["spec_windows"], c["spec_hops"]):
            if F(h) <= F(w):
                yield {"space": "spectrogram", "rate": block["rate"], "n": n, "ch": ch, "first": first, "window": w, "hop": h}
                if ch == 1:
                    yield {"space": "spectrogram", "rate": block["rate"], "n": n, "ch": ch, "first": first, "window": w, "hop": h,
                           "boundary": "none"}
    else:
        raise ValueError(sp)


def _pcm32_value(i, c):
    """A 32-bit sample that needs more than 24 significant bits (not representable in single precision)."""
    return ((i + 1) * 7919 * 65537 + c * 104729 + 12345) % (2 ** 31) - 2 ** 30 | 1


def run_pcm32(case):
    """A 32-bit PCM file: the frames of load_recording and of every load_clip are the file's samples / 2^31, exactly (doubles hold
    32-bit integers exactly), and a clip's frames equal the same frames of the recording bit for bit."""
    import struct
    import wave
    out = Out(case)
    rate, n, ch = case["rate"], case["frames"], case["ch"]
    path = os.path.join(_dir(), "pcm32_r%d_n%d_c%d.wav" % (rate, n, ch))
    vals = [_pcm32_value(i, c) for i in range(n) for c in range(ch)]
    with wave.open(path, "wb") as w:
        w.setnchannels(ch)
        w.setsampwidth(4)
        w.setframerate(rate)
        w.writeframes(struct.pack("<%di" % len(vals), *vals))
    fn = "load_clip"
    out.nontrivial = True
    st, rec = call(data.Recording.from_file, path, compute_hash=False, uuid=U("c15:pcm32:%d:%d:%d" % (rate, n, ch)))
    if st != "ok":
        out.fail("no_crash_in_domain", describe(rec), "a Recording", exc_cls("Recording.from_file", rec, "crash"))
        return out
    st, full = call(audio.load_recording, rec)
    out.transitions += 1
    if st != "ok":
        out.fail("no_crash_in_domain", describe(full), "an array", exc_cls("load_recording", full, "crash"))
        return out
    want = [[vals[i * ch + c] / 2.0 ** 31 for c in range(ch)] for i in range(n)]
    got = np.asarray(full.transpose("time", "channel").data, dtype=float).tolist()
    out.expect("frames_are_file_frames", got == want, {"first_differing": next((i for i, (a, b) in enumerate(zip(got, want)) if a != b), None)},
               "the file's samples / 2^31", {"fn": "load_recording", "kind": "pcm32"})
    for a, b in case["clips"]:
        clip = data.Clip(recording=rec, start_time=a / rate, end_time=b / rate, uuid=U("c15:pcm32clip:%d:%d" % (a, b)))
        st, arr = call(audio.load_clip, clip)
        out.transitions += 1
        if st != "ok":
            out.fail("no_crash_in_domain", describe(arr), "an array", exc_cls(fn, arr, "crash"))
            continue
        g = np.asarray(arr.transpose("time", "channel").data, dtype=float).tolist()
        e = [want[i] if i < n else [0.0] * ch for i in range(a, b)]
        out.expect("clip_equals_recording", g == e, {"clip": [a, b], "first_differing": next((i for i, (x, y) in enumerate(zip(g, e)) if x != y), None),
                                                      "frames": len(g)}, "the same frames as load_recording, bit for bit",
                   {"fn": fn, "kind": "pcm32"})
    out.validated = out.transitions
    out.klass = "pcm32/ch%d" % ch
    return out


def run_case(case):
    sp = case["space"]
    if sp == "pcm32":
        return run_pcm32(case)
    if sp == "recording":
        return run_recording(case)
    if sp == "clip":
        return run_clip(case)
    if sp == "rewrite":
        return run_rewrite(case)
    if sp == "relocate":
        return run_relocate(case)
    if sp == "resample":
        return run_resample(case)
    if sp == "spectrogram":
        return run_spectrogram(case)
    raise ValueError(sp)


def run_block(block, rec):
    for case in cases_of(block):
        rec.add(run_case(case))


def replay_case(case):
    return run_case(case)
