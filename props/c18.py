"""C18 — Audio paths are stored relative to the audio directory and relocate on load.

Full product: collection type (8) x save directory A (none, or one of the
directories given as str / Path, with / without trailing slash) x tuple of
recording path shapes for 1..3 reachable recordings x load directory B (none,
A, another absolute directory, a relative directory; str / Path), on a fresh
target file; plus, for every (type, A, shapes), a pre-existing target file
(loaded without directory).  Every case is one io.save and (when the
save succeeded) one io.load through a real file.  Reference model: lexical
component arithmetic (models.audiopaths).
"""
from __future__ import annotations

import itertools
import json
import os
import subprocess
import sys
from pathlib import Path

from pydantic import BaseModel

from soundevent import data, io

from mc.runner import Out, jdump, scratch_dir
from models import audiopaths as M
from props.common import DT, U, is_rejection

ID = "C18"
RULE = (
    "full product of: collection type (8) x save directory A (none | each directory as str/Path, with/without trailing slash) x "
    "tuple of recording path shapes (quick: every 1-tuple and ordered pair over 8 shapes, every triple with <= 1 non-plain shape at "
    "each of the 3 positions; thorough: every tuple of length <= 3 over the 8 base shapes, 1-tuples/pairs over 13 shapes) x load "
    "directory B (none | A | absolute | relative; str/Path) x target file fresh / pre-existing (the pre-existing target is "
    "crossed with type x A x shapes, loaded without directory). Recording i is reachable through a "
    "different route per type (clip, sound event of a foreign recording, sequence, second clip, task clip, match). Non-trivial = a "
    "directory is given on save or on load. State = case descriptor. Environment axis: all of the above in the runner's UTF-8 process; "
    "a second, smaller product (8 types x A none/ASCII/unicode x ASCII/space/unicode/sibling shapes x B none//other x fresh/pre-existing "
    "target; thorough: A as str/Path, shape pairs, 4 load directories) is executed in a child interpreter with a fully specified POSIX "
    "C-locale environment (case descriptor key env='C-locale'), one child per block, same oracles plus failed_save_leaves_target."
)
ASSUMPTIONS = [
    "containment is lexical and component-wise on POSIX paths; '/data2/x.wav' is outside '/data'. The property does not settle what '..' means for "
    "containment, so '..' only occurs inside the spelling of one save directory whose recordings carry the same spelling as prefix",
    "a relative recording path is outside an absolute audio directory",
    "a recording whose path IS the audio directory: both outcomes are admissible (error + nothing written, or stored as '.' and "
    "relocated to B itself); each is checked for internal consistency",
    "loading an ABSOLUTE stored path (saved without directory) under a directory B is not defined by the property: executed, not judged",
    "'fails with an error' = any ValueError subclass (DESIGN section 3); stored paths are compared up to redundant separators",
    "nothing exists on disk but the JSON target; the property is locale independent (AOEF is JSON, i.e. UTF-8): the env='C-locale' "
    "cases run with LC_ALL=C LANG=C PYTHONCOERCECLOCALE=0 PYTHONUTF8=0 and must behave exactly like the UTF-8 process",
    "failed_save_leaves_target: whenever a save raises (expected or not) the target must be absent / byte-identical to its previous content",
]

KINDS = ["recording_set", "dataset", "annotation_set", "annotation_project", "evaluation_set", "prediction_set", "model_run",
         "evaluation"]
NOMINAL = "/data"  # base directory of the shapes when saving without directory

BASE_SHAPES = ["file", "sub_space", "unicode", "deep", "self", "sibling", "elsewhere", "relative", "backslash"]
EXTRA_SHAPES = ["hidden", "same_name", "redundant", "parent", "cjk_space"]
PLAIN = "file"
PREVIOUS = "PREVIOUS CONTENT OF THE TARGET\n" * 256  # 7936 bytes: longer than any document written here (largest: ~3 kB)


def dirs(tier):
    # the last directory is spelt with an up-level reference; its recordings are spelt with the same prefix, so they are inside it
    # under the lexical and under the resolving reading alike
    d = ["/data", "/data/a b", "/data/ü/深", "rel/audio", "/data/sub/../audio"]
    if tier != "quick":
        d += ["/d.wav"]
    return d


def a_forms(tier):
    """Save directory axis: None or [dir, type, trailing_slash]."""
    out = [None]
    for d in dirs(tier):
        for typ in ("str", "Path"):
            for slash in (False, True):
                out.append([d, typ, slash])
    return out


def b_forms(tier):
    out = [None]
    lits = ["same", "/other", "rel/dir"] + ([] if tier == "quick" else ["/oth er/ü", "/other/"])
    for lit in lits:
        for typ in ("str", "Path"):
            out.append([lit, typ])
    return out


def shape_tuples(tier):
    S = BASE_SHAPES
    out = [(s,) for s in S]
    out += list(itertools.product(S, S))
    if tier == "quick":
        seen = set()
        for s in S:
            for pos in range(3):
                t = tuple(s if i == pos else PLAIN for i in range(3))
                if t not in seen:
                    seen.add(t)
                    out.append(t)
    else:
        out += list(itertools.product(S, S, S))
        E = EXTRA_SHAPES
        out += [(e,) for e in E]
        out += [t for t in itertools.product(S + E, S + E) if t[0] in E or t[1] in E]
    return [list(t) for t in out]


def bounds(tier):
    return {
        "collection_types": KINDS, "directories": dirs(tier), "save_dir_forms": len(a_forms(tier)),
        "load_dir_forms": b_forms(tier), "shapes": BASE_SHAPES + ([] if tier == "quick" else EXTRA_SHAPES),
        "shape_tuples": len(shape_tuples(tier)), "max_recordings": 3,
        "target_states": ["fresh", "pre-existing (with B = none only)"],
        "routes": ROUTES,
        "environments": {"utf8": "runner process", ENV_C: LOCALE_ENV},
        "locale_cases": sum(1 for blk in locale_blocks(tier) for _ in locale_cases_of(blk)),
    }


def blocks(tier):
    return [{"tier": tier, "kind": k, "a": a} for k in KINDS for a in a_forms(tier)] + locale_blocks(tier)


# ---------------------------------------------------------------- environment axis: POSIX / C locale child process
ENV_C = "C-locale"
LOCALE_ENV = {"LC_ALL": "C", "LANG": "C", "PYTHONCOERCECLOCALE": "0", "PYTHONUTF8": "0", "PYTHONHASHSEED": "0",
              "PYTHONDONTWRITEBYTECODE": "1", "PYTHONWARNINGS": "ignore", "OMP_NUM_THREADS": "1", "OPENBLAS_NUM_THREADS": "1",
              "MKL_NUM_THREADS": "1"}
_TARGET_DIR = None  # set in the child: scratch directory handed over by the parent


def locale_blocks(tier):
    if tier == "quick":
        return [{"tier": tier, "space": "locale", "kinds": KINDS}]
    return [{"tier": tier, "space": "locale", "kinds": [k]} for k in KINDS]


def locale_cases_of(block):
    quick = block["tier"] == "quick"
    A = [None, ["/data", "str", False], ["/data/ü/深", "str", False]]
    S = [["file"], ["sub_space"], ["unicode"], ["sibling"]]
    B = [None, ["/other", "str"]]
    if not quick:
        A += [["/data", "Path", False], ["/data/ü/深", "Path", True], ["/data/a b", "str", True]]
        S = [[s] for s in BASE_SHAPES] + [list(t) for t in itertools.product(["file", "unicode", "sibling"], repeat=2)]
        B += [["same", "Path"], ["rel/dir", "str"]]
    for kind in block["kinds"]:
        for a in A:
            for shapes in S:
                for b in B:
                    for pre in (False, True):
                        yield {"env": ENV_C, "kind": kind, "a": a, "shapes": shapes, "b": b, "pre": pre}


def child_env():
    import soundevent
    verif = os.path.dirname(os.path.dirname(os.path.abspath(__file__)))
    src = os.path.dirname(os.path.dirname(os.path.abspath(soundevent.__file__)))
    env = dict(LOCALE_ENV)
    env["PATH"] = os.environ.get("PATH", "/usr/bin:/bin")
    env["PYTHONPATH"] = verif + os.pathsep + src
    return env, verif


def run_in_child(cases):
    """Execute the cases in ONE child interpreter under the C locale; returns (list of Out, locale encoding of the child)."""
    env, verif = child_env()
    tdir = os.path.join(scratch_dir(), "c18-locale")
    os.makedirs(tdir, exist_ok=True)
    payload = json.dumps({"scratch": tdir, "cases": cases}).encode("ascii")  # ensure_ascii: pure ASCII on the pipe
    p = subprocess.run([sys.executable, "-c", "from props import c18; c18.locale_worker()"], input=payload, capture_output=True,
                       env=env, cwd=verif)
    if p.returncode != 0:
        raise RuntimeError("C18 locale child failed (%d): %s" % (p.returncode, p.stderr.decode("utf-8", "replace")[-1500:]))
    doc = json.loads(p.stdout.decode("ascii"))
    outs = []
    for case, r in zip(cases, doc["results"]):
        o = Out(case)
        o.nontrivial, o.klass, o.transitions, o.validated = r["nontrivial"], r["klass"], r["transitions"], r["validated"]
        o.checks = {k: list(v) for k, v in r["checks"].items()}
        o.viol = r["viol"]
        outs.append(o)
    assert len(outs) == len(cases)
    return outs, doc["encoding"]


def locale_worker():
    """Child side: JSON {scratch, cases} on stdin -> JSON {encoding, results} on stdout (ASCII only on both pipes)."""
    global _TARGET_DIR
    import locale
    req = json.loads(sys.stdin.buffer.read().decode("ascii"))
    _TARGET_DIR = req["scratch"]
    res = []
    for case in req["cases"]:
        o = run_case_local(case)
        res.append({"nontrivial": o.nontrivial, "klass": o.klass, "transitions": o.transitions, "validated": o.validated,
                    "checks": o.checks, "viol": o.viol})
    enc = "%s utf8_mode=%d" % (locale.getpreferredencoding(False), sys.flags.utf8_mode)
    sys.stdout.buffer.write(jdump({"encoding": enc, "results": res}).encode("ascii"))
    sys.stdout.buffer.flush()


def run_case(case):
    if case.get("env") == ENV_C:
        return run_in_child([case])[0][0]
    return run_case_local(case)


def cases_of(block):
    tier = block["tier"]
    for shapes in shape_tuples(tier):
        for b in b_forms(tier):
            for pre in (False, True):
                if pre and b is not None:
                    continue  # the pre-existing target is crossed with everything but the load directory
                yield {"kind": block["kind"], "a": block["a"], "shapes": shapes, "b": b, "pre": pre}


def run_block(block, rec):
    if block.get("space") == "locale":
        outs, enc = run_in_child(list(locale_cases_of(block)))
        rec.count("locale_child_encoding:" + enc, len(outs))
        for o in outs:
            rec.add(o)
        return
    for case in cases_of(block):
        rec.add(run_case_local(case))


# ---------------------------------------------------------------- inputs
def shape_path(shape, base, i):
    """Path string of recording i for a shape, relative to the (normalised) base directory string."""
    n = "" if i == 0 else str(i)
    base = base.rstrip("/") or "/"
    j = (lambda *p: "/".join((base,) + p)) if base != "/" else (lambda *p: "/" + "/".join(p))
    if shape == "file":
        return j("x%s.wav" % n)
    if shape == "sub_space":
        # blanks inside names, at the start of the first component and at the end of the last one (a stored path string is a path,
        # not free text to be trimmed)
        return j(" sub", "x y%s.wav " % n)
    if shape == "unicode":
        # a precomposed (NFC) directory name and a decomposed (NFD, as macOS file dialogs produce) file name: path strings are
        # stored and relocated as given, never normalised
        return j("\u00fc", "e\u0301%s.wav" % n)
    if shape == "deep":
        # the first two components spell the relative load directory of the b axis ("rel/dir"): joining is unconditional
        return j("rel", "dir", "c", "d%s.wav" % n)
    if shape == "backslash":
        # a backslash is an ordinary character of a POSIX file name, not a separator
        return j("2024\\06", "unit\\7%s.wav" % n)
    if shape == "self":
        return base
    if shape == "sibling":
        return base + "2/x%s.wav" % n
    if shape == "elsewhere":
        return "/elsewhere/x%s.wav" % n
    if shape == "relative":
        return "x%s.wav" % n
    if shape == "hidden":
        return j(".h", ".x%s.wav" % n)
    if shape == "same_name":
        return j(base.rsplit("/", 1)[-1], "x%s.wav" % n)
    if shape == "redundant":
        return base + "//r/./x%s.wav" % n
    if shape == "parent":
        par = base.rsplit("/", 1)[0] if "/" in base else ""
        return (par + "/" if par or base.startswith("/") else "") + "p%s.wav" % n
    if shape == "cjk_space":
        return j("深 深", "ü é%s.wav" % n)
    raise ValueError(shape)


def as_dir(text, typ, slash=False):
    s = text + ("/" if slash and not text.endswith("/") else "")
    return Path(s) if typ == "Path" else s


def make_recordings(paths):
    return [data.Recording(uuid=U("c18:rec:%d" % i), path=p, duration=10.0 + i, samplerate=8000 * (i + 1), channels=1 + i)
            for i, p in enumerate(paths)]


ROUTES = {
    "recording_set": ["recordings[0]", "recordings[1]", "recordings[2]"],
    "dataset": ["recordings[0]", "recordings[1]", "recordings[2]"],
    "annotation_set": ["clip_annotation.clip", "sound_event_annotation.sound_event (foreign recording)",
                       "sequence_annotation.sequence.sound_event"],
    "annotation_project": ["clip_annotation.clip", "sound_event_annotation.sound_event (foreign recording)", "task.clip only"],
    "evaluation_set": ["clip_annotation.clip", "sound_event_annotation.sound_event (foreign recording)", "second clip_annotation.clip"],
    "prediction_set": ["clip_prediction.clip", "sound_event_prediction.sound_event (foreign recording)",
                       "sequence_prediction.sequence.sound_event"],
    "model_run": ["clip_prediction.clip", "sound_event_prediction.sound_event (foreign recording)", "second clip_prediction.clip"],
    "evaluation": ["clip_evaluation annotations/predictions clip", "predicted sound event + match.source (foreign recording)",
                   "annotated sound event + match.target (foreign recording)"],
}


def _se(name, rec):
    return data.SoundEvent(uuid=U("c18:se:" + name), recording=rec, geometry=data.TimeInterval(coordinates=[1.0, 2.0]))


def _clip(name, rec):
    return data.Clip(uuid=U("c18:clip:" + name), recording=rec, start_time=0.0, end_time=5.0)


def _ann(kind, R):
    """Clip annotations reaching R[0] (clip), R[1] (foreign sound event), R[2] (route depends on kind)."""
    seas, sqas, extra = [], [], []
    if len(R) > 1:
        seas.append(data.SoundEventAnnotation(uuid=U("c18:sea:1"), sound_event=_se("a1", R[1]), created_on=DT))
    if len(R) > 2 and kind in ("annotation_set",):
        seq = data.Sequence(uuid=U("c18:seq:a"), sound_events=[_se("a2", R[2])])
        sqas.append(data.SequenceAnnotation(uuid=U("c18:sqa:1"), sequence=seq, created_on=DT))
    if len(R) > 2 and kind == "evaluation":
        seas.append(data.SoundEventAnnotation(uuid=U("c18:sea:2"), sound_event=_se("a2", R[2]), created_on=DT))
    ca = data.ClipAnnotation(uuid=U("c18:ca:0"), clip=_clip("0", R[0]), sound_events=seas, sequences=sqas, created_on=DT)
    if len(R) > 2 and kind == "evaluation_set":
        extra.append(data.ClipAnnotation(uuid=U("c18:ca:1"), clip=_clip("2", R[2]), created_on=DT))
    return [ca] + extra


def _pred(kind, R):
    seps, sqps, extra = [], [], []
    if len(R) > 1:
        seps.append(data.SoundEventPrediction(uuid=U("c18:sep:1"), sound_event=_se("p1", R[1]), score=0.5))
    if len(R) > 2 and kind == "prediction_set":
        seq = data.Sequence(uuid=U("c18:seq:p"), sound_events=[_se("p2", R[2])])
        sqps.append(data.SequencePrediction(uuid=U("c18:sqp:1"), sequence=seq, score=0.25))
    cp = data.ClipPrediction(uuid=U("c18:cp:0"), clip=_clip("0", R[0]), sound_events=seps, sequences=sqps)
    if len(R) > 2 and kind == "model_run":
        extra.append(data.ClipPrediction(uuid=U("c18:cp:1"), clip=_clip("2", R[2])))
    return [cp] + extra


def build(kind, R):
    cid = U("c18:col:" + kind)
    if kind == "recording_set":
        return data.RecordingSet(uuid=cid, created_on=DT, recordings=list(R))
    if kind == "dataset":
        return data.Dataset(uuid=cid, created_on=DT, name="ds", recordings=list(R))
    if kind == "annotation_set":
        return data.AnnotationSet(uuid=cid, created_on=DT, clip_annotations=_ann(kind, R))
    if kind == "annotation_project":
        cas = _ann(kind, R)
        tasks = [data.AnnotationTask(uuid=U("c18:task:0"), clip=cas[0].clip, created_on=DT)]
        if len(R) > 2:
            tasks.append(data.AnnotationTask(uuid=U("c18:task:2"), clip=_clip("2", R[2]), created_on=DT))
        return data.AnnotationProject(uuid=cid, created_on=DT, name="proj", clip_annotations=cas, tasks=tasks)
    if kind == "evaluation_set":
        return data.EvaluationSet(uuid=cid, created_on=DT, name="evset", clip_annotations=_ann(kind, R))
    if kind == "prediction_set":
        return data.PredictionSet(uuid=cid, created_on=DT, clip_predictions=_pred(kind, R))
    if kind == "model_run":
        return data.ModelRun(uuid=cid, created_on=DT, name="run", clip_predictions=_pred(kind, R))
    if kind == "evaluation":
        ca = _ann(kind, R)[0]
        cp = _pred(kind, R)[0]
        matches = [data.Match(uuid=U("c18:match:p%d" % i), source=p, target=None, affinity=0.0) for i, p in enumerate(cp.sound_events)]
        matches += [data.Match(uuid=U("c18:match:a%d" % i), source=None, target=a, affinity=0.0) for i, a in enumerate(ca.sound_events)]
        ce = data.ClipEvaluation(uuid=U("c18:ce:0"), annotations=ca, predictions=cp, matches=matches)
        return data.Evaluation(uuid=cid, created_on=DT, evaluation_task="task_x", clip_evaluations=[ce])
    raise ValueError(kind)


def reachable_recordings(obj):
    """Every occurrence of a Recording reachable by reflection over model_fields: list of (uuid str, path str)."""
    acc, seen = [], set()

    def walk(o):
        if isinstance(o, data.Recording):
            acc.append((str(o.uuid), str(o.path)))
            return
        if isinstance(o, BaseModel):
            if id(o) in seen:
                return
            seen.add(id(o))
            for f in type(o).model_fields:
                walk(getattr(o, f))
        elif isinstance(o, (list, tuple, set, frozenset)):
            for x in o:
                walk(x)
        elif isinstance(o, dict):
            for x in o.values():
                walk(x)
    walk(obj)
    return acc


# ---------------------------------------------------------------- one case
def a_label(a):
    return "none" if a is None else a[1] + ("/" if a[2] and a[1] == "str" else "")


def b_label(b, a_none):
    if b is None:
        return "none"
    lit = b[0]
    which = "same" if lit == "same" else ("rel" if not lit.startswith("/") else "abs")
    return which + (("/" if lit.endswith("/") else "") + ":" + b[1])


def exc_repr(e):
    return "%s: %s" % (type(e).__name__, str(e)[:200])


def run_case_local(case):
    out = Out(case)
    kind, a, shapes, b, pre = case["kind"], case["a"], case["shapes"], case["b"], case["pre"]
    base = NOMINAL if a is None else a[0]
    paths = [shape_path(s, base, i) for i, s in enumerate(shapes)]
    adir = None if a is None else as_dir(a[0], a[1], a[2])
    if b is None:
        bdir, btext = None, None
    else:
        btext = base if b[0] == "same" else b[0]
        bdir = as_dir(btext, b[1])
    R = make_recordings(paths)
    x0 = build(kind, R)
    uuids = [str(r.uuid) for r in R]
    shape_of = dict(zip(uuids, shapes))
    orig = dict(zip(uuids, paths))
    got0 = {u for u, _ in reachable_recordings(x0)}
    assert got0 == set(uuids), "builder does not reach every recording: %s %s" % (kind, shapes)
    out.nontrivial = a is not None or b is not None
    al, bl = a_label(a), b_label(b, a is None)

    # ---- model of the save
    if a is None:
        outside, selfs = [], []
    else:
        outside = [u for u in uuids if not M.inside(orig[u], a[0])]
        selfs = [u for u in uuids if M.inside(orig[u], a[0]) and not M.strictly_inside(orig[u], a[0])]
    expect_save = "reject" if outside else ("either" if selfs else "ok")

    target = os.path.join(_TARGET_DIR or scratch_dir(), "c18.json")
    if pre:
        with open(target, "w", encoding="utf-8") as f:
            f.write(PREVIOUS)
    elif os.path.exists(target):
        os.unlink(target)

    # ---- save
    viol0 = len(out.viol)
    try:
        io.save(x0, target, audio_dir=adir)
        saved, err = True, None
    except Exception as e:  # noqa
        saved, err = False, e
    out.transitions = 1
    out.validated = 1
    first_bad = shape_of[(outside or selfs or uuids)[0]]
    klass = None

    if not saved:
        # whatever the reason of the failure: nothing may have been written
        if pre:
            with open(target, "rb") as f:
                content = f.read()
            untouched = content == PREVIOUS.encode("utf-8")
            state = "unchanged" if untouched else "changed (%d bytes)" % len(content)
        else:
            untouched = not os.path.exists(target)
            state = "absent" if untouched else "created"
        if expect_save == "ok":
            oracle = "passthrough" if a is None else "stored_relative"
            # classify by the first recording whose stored text is not ASCII, if any (the text that reaches the file)
            stext = {u: (orig[u] if a is None else "/".join(M.relative(orig[u], a[0]))) for u in uuids}
            culprit = shape_of[next((u for u in uuids if not stext[u].isascii()), uuids[0])]
            out.fail(oracle, {"save_raised": exc_repr(err), "target": state}, "save succeeds",
                     {"a": al, "shape": culprit, "why": "save_raised:" + type(err).__name__}, {"paths": paths})
            out.expect("failed_save_leaves_target", untouched, state, "unchanged" if pre else "absent",
                       {"a": al, "shape": culprit, "why": "target_" + state.split(" ")[0]}, {"raised": exc_repr(err), "paths": paths})
            klass = "save_crash"
        else:
            cls = {"a": al, "shape": first_bad}
            good = is_rejection(err) and untouched
            why = ("exc:" + type(err).__name__) if not is_rejection(err) else ("target_" + state.split(" ")[0])
            out.expect("outside_raises_nothing_written", good, {"raised": exc_repr(err), "target": state},
                       {"raised": "ValueError subclass", "target": "unchanged" if pre else "absent"}, dict(cls, why=why),
                       {"paths": paths, "outside": [orig[u] for u in outside]})
            out.expect("failed_save_leaves_target", untouched, state, "unchanged" if pre else "absent",
                       dict(cls, why="target_" + state.split(" ")[0]), {"raised": exc_repr(err), "paths": paths})
            klass = "rejected:" + ("outside" if outside else "self") + (":mixed" if len(outside) + len(selfs) < len(uuids) else "")
    else:
        if expect_save == "reject":
            try:
                with open(target, "rb") as f:
                    content = f.read()
            except OSError:
                content = b""
            out.fail("outside_raises_nothing_written", {"raised": None, "target_bytes": len(content), "tail": content[-160:].decode("utf-8", "replace")},
                     {"raised": "ValueError subclass", "target": "unchanged" if pre else "absent"},
                     {"a": al, "shape": first_bad, "why": "no_exception"}, {"paths": paths, "outside": [orig[u] for u in outside]})
            klass = "saved_outside"
        else:
            if expect_save == "either":
                out.vac("outside_raises_nothing_written")  # the 'directory itself' cell: saving is admissible
            # ---- the document
            stored = None
            try:
                with open(target, encoding="utf-8") as f:
                    text = f.read()
                doc = json.loads(text)["data"]
                stored = {str(r["uuid"]): r["path"] for r in doc.get("recordings") or []}
                kind_ok = doc.get("collection_type") == kind
            except Exception as e:  # noqa
                oracle = "passthrough" if a is None else "stored_relative"
                out.fail(oracle, {"document": exc_repr(e)}, "a JSON document with data.recordings[*].path",
                         {"a": al, "shape": first_bad, "why": "unreadable_document"}, {"paths": paths})
                klass = "bad_document"
            if stored is not None:
                for u in uuids:
                    sh = shape_of[u]
                    if a is None:
                        want = orig[u]
                        oracle = "passthrough"
                        cls = {"side": "save", "shape": sh}
                    else:
                        rel = M.relative(orig[u], a[0])
                        want = "/".join(rel) or "."
                        oracle = "stored_relative"
                        cls = {"a": al, "shape": sh}
                    if u not in stored:
                        out.fail(oracle, {"recording": u, "stored": None}, want, dict(cls, why="missing"), {"paths": paths})
                        continue
                    have = stored[u]
                    good = isinstance(have, str) and M.same(have, want) and M.is_absolute(have) == M.is_absolute(want)
                    why = None
                    if not good:
                        why = "absolute" if isinstance(have, str) and M.is_absolute(have) else "wrong"
                    out.expect(oracle, good, have, want, dict(cls, why=why), {"original": orig[u], "audio_dir": repr(adir)})
                    out.validated += 1
                extra = sorted(set(stored) - set(uuids))
                if extra or not kind_ok:
                    out.fail("stored_relative" if a is not None else "passthrough", {"extra_recordings": extra, "collection_type": doc.get("collection_type")},
                             "exactly the reachable recordings, collection_type " + kind,
                             {"a": al, "shape": first_bad, "why": "extra" if extra else "type"}, None)
                # ---- load
                try:
                    x1 = io.load(target, audio_dir=bdir)
                    lerr = None
                except Exception as e:  # noqa
                    x1, lerr = None, e
                out.transitions = 2
                judged_any = False
                loaded = {}
                if x1 is not None:
                    for u, p in reachable_recordings(x1):
                        loaded.setdefault(u, set()).add(p)
                for u in uuids:
                    have = stored.get(u)
                    if not isinstance(have, str):
                        continue  # already reported under stored_relative / passthrough
                    if b is None:
                        oracle, want, cls = "passthrough", M.parts(have), {"side": "load", "shape": shape_of[u]}
                    elif M.is_absolute(have):
                        out.vac("relocates")  # absolute stored path under a load directory: not defined by the property
                        continue
                    else:
                        oracle, want, cls = "relocates", M.join(btext, have), {"b": bl}
                    judged_any = True
                    if lerr is not None:
                        out.fail(oracle, {"load_raised": exc_repr(lerr)}, "/".join(want).replace("//", "/") or ".",
                                 dict(cls, why="load_raised:" + type(lerr).__name__), {"stored": have, "audio_dir": repr(bdir)})
                        continue
                    got = sorted(loaded.get(u, ()))
                    good = bool(got) and all(M.parts(g) == want for g in got)
                    out.expect(oracle, good, got, "/".join(want).replace("//", "/") or ".",
                               dict(cls, why=None if good else ("missing" if not got else "wrong")),
                               {"stored": have, "audio_dir": repr(bdir), "shape": shape_of[u]})
                    out.validated += 1
                if x1 is not None:
                    extra = sorted(set(loaded) - set(uuids))
                    if extra or type(x1) is not type(x0):
                        out.fail("relocates" if b is not None else "passthrough", {"extra_recordings": extra, "type": type(x1).__name__},
                                 "exactly the saved recordings, type " + type(x0).__name__,
                                 ({"b": bl} if b is not None else {"side": "load", "shape": first_bad}) | {"why": "extra" if extra else "type"}, None)
                # ---- load history: the same file loaded again under other directories in the same process must relocate
                # to the directory of THAT call (a result cached per document, or adapter state kept between calls, shows here)
                if x1 is not None:
                    for b2 in ("/second/dir", None):
                        try:
                            # the later loads also spell the other options out: format inferred from the file (format=None) together
                            # with a directory; format and collection type given explicitly without one
                            if b2 is not None:
                                x2 = io.load(target, audio_dir=b2, format=None)
                            else:
                                x2 = io.load(target, audio_dir=b2, format="aoef", type=kind)
                        except Exception as e:  # noqa
                            out.fail("load_history_independent", {"load_raised": exc_repr(e)}, "second load succeeds",
                                     {"b2": "none" if b2 is None else "abs:str", "why": "load_raised:" + type(e).__name__}, None)
                            continue
                        out.transitions += 1
                        got2 = {}
                        for u, p in reachable_recordings(x2):
                            got2.setdefault(u, set()).add(p)
                        bad = None
                        for u in uuids:
                            have = stored.get(u)
                            if not isinstance(have, str):
                                continue
                            if b2 is None:
                                want2 = M.parts(have)
                            elif M.is_absolute(have):
                                continue
                            else:
                                want2 = M.join(b2, have)
                            g2 = sorted(got2.get(u, ()))
                            if not g2 or any(M.parts(g) != want2 for g in g2):
                                bad = {"got": g2, "want": "/".join(want2).replace("//", "/") or ".", "first_load_dir": repr(bdir)}
                                break
                        out.expect("load_history_independent", bad is None, bad, "paths follow the directory of the second call",
                                   {"b2": "none" if b2 is None else "abs:str", "why": None if bad is None else "follows_earlier_call"})
                if klass is None:
                    if lerr is not None and not judged_any:
                        klass = "saved+load_error_unjudged"
                    else:
                        sv = "self_saved" if selfs else ("saved_rel" if a is not None else "saved_asis")
                        ld = "passthrough" if b is None else ("relocated" if judged_any else "abs_under_dir_unjudged")
                        klass = sv + "+" + ld

    # ---- per-type summary: the oracles hold for this collection type
    new = out.viol[viol0:]
    if new:
        out.fail("all_types_thread_dir", sorted({v["oracle"] for v in new}), "all oracles hold for " + kind,
                 {"kind": kind, "oracle": new[0]["oracle"]}, None)
        klass = (klass or "?") + ":VIOLATION"
    else:
        out.ok("all_types_thread_dir")
    out.klass = "%s n=%d" % (klass, len(uuids))
    env = case.get("env")
    if env:
        out.klass = env + ":" + out.klass
        for v in out.viol:
            v["cls"] = dict(v["cls"], env=env)
    return out


def replay_case(case):
    return run_case(case)
