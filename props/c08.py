"""C08 — Detection evaluation accounts for every sound event and only credits overlaps.

Exhaustive exploration of small detection problems on the real
``sound_event_detection``: one clip with every list of <= 2 annotated and <= 2
predicted sound events over (geometry x tags / score vector) alphabets, and
every presence pattern of two clip slots x content presets x list orders.
The oracles are properties of the returned evaluation, re-derived from the
inputs by an independent model (clip pairing by id, first-match class,
predicted probability vector, compute_affinity for the geometric affinity).
"""
from __future__ import annotations

import itertools
import math
import traceback

from soundevent import data
from soundevent.evaluation import compute_affinity, sound_event_detection

from mc.runner import Out
from mc.space import chunk
from props.common import U, recording, term

ID = "C08"
RULE = (
    "[representations] the three arguments are passed as tuples instead of lists in every case with an odd number of clip entries; annotations with two "
    "vocabulary tags occur in both orders. "
    "one_clip: every pair (annotated list, predicted list) with 0..2 events each; an annotated event = geometry in "
    "{none, A, B overlapping A, C disjoint} x tags; a predicted event = geometry x score vector over the 2-tag vocabulary "
    "(quick: 3 tag sets x 3 vectors; thorough: 5 x 10; both incl. out-of-vocabulary annotated and predicted tags). clips: two clip slots x "
    "{both, only annotated, only predicted, absent} x 8 content presets each x both orders of the prediction list x 3 vocabularies. "
    "Non-trivial = at least one annotated and one predicted event with geometry in an evaluated clip. State = case descriptor."
)
ASSUMPTIONS = [
    "'geometries overlap' is decided by compute_affinity(g, h, time_buffer=0.01, freq_buffer=100) > 0 (the matcher's defaults); compute_affinity is decided by C06",
    "optimality of the pairing is C07's clause and is not demanded here",
    "predicted scores of one event sum to <= 1 and a predicted tag is not repeated within an event (the quantifier's single-label presupposition)",
    "an input without any evaluated clip, or whose evaluated clips contain no sound event at all, is not judged: the run-level aggregates are undefined there (C09's quantifier requires at least one evaluated item)",
    "scores are float32-encoded by the library: values compared with 1e-6; affinities with 1e-9",
]

T0 = data.Tag(term=term("species"), value="a")
T1 = data.Tag(term=term("species"), value="b")
T2 = data.Tag(term=term("call"), value="b")
# out-of-vocabulary tags built to collide with vocabulary tags: "oov" shares its VALUE with t0 (different term), "oovt" shares
# its TERM with t0/t1 (different value); an encoder keyed too coarsely maps them into the vocabulary
OOV = data.Tag(term=term("call"), value="a")
OOVT = data.Tag(term=term("species"), value="zzz")
TAGS = {"t0": T0, "t1": T1, "t2": T2, "oov": OOV, "oovt": OOVT}
VOCABS = {"t0t1": ["t0", "t1"], "t1t0": ["t1", "t0"], "t0t1t2": ["t0", "t1", "t2"]}

GEOMS = {
    "none": None,
    "A": ("BoundingBox", [1.0, 1000.0, 2.0, 2000.0]),
    "B": ("BoundingBox", [1.5, 1500.0, 2.5, 2500.0]),
    "C": ("BoundingBox", [5.0, 3000.0, 6.0, 4000.0]),
    "I": ("TimeInterval", [1.25, 2.25]),
    # two multipoints on opposite corners of the same rectangle: identical bounds, no common point (affinity 0)
    "M1": ("MultiPoint", [[7.0, 1000.0], [9.0, 3000.0]]),
    "M2": ("MultiPoint", [[7.0, 3000.0], [9.0, 1000.0]]),
}
# an annotation with two vocabulary tags belongs to the class of the first one IN THE ANNOTATION'S ORDER (both orders present)
ANN_TAGS = {"quick": [[], ["t0"], ["oov", "t1"], ["t0", "t1"], ["t1", "t0"]],
            "thorough": [[], ["t0"], ["t1"], ["oov"], ["oovt", "t1"], ["t0", "t1"], ["t1", "t0"]]}
# predicted (tag, score) lists
VECS = {
    # the last list stays within 'vocabulary scores sum to <= 1' while all its scores together exceed 1
    "quick": [[["t0", 0.5]], [["t0", 0.25], ["t1", 0.5]], [["t1", 0.5], ["oov", 0.25]], [["t0", 0.5], ["t1", 0.25], ["oov", 0.75]],
              # vocabulary scores that sum to 1 in float32 and to slightly more than 1 in float64
              [["t0", 0.4], ["t1", 0.6]]],
    "thorough": [[], [["t0", 0.25]], [["t1", 0.25]], [["t0", 0.5]], [["t1", 0.5]], [["t0", 0.25], ["t1", 0.25]],
                 [["t0", 0.5], ["t1", 0.25]], [["t0", 0.25], ["t1", 0.5]], [["t0", 0.5], ["t1", 0.5]],
                 [["t1", 0.5], ["oovt", 0.5]], [["t0", 0.5], ["t1", 0.25], ["oov", 0.75]], [["t0", 0.4], ["t1", 0.6]]],
}
GKEYS = {"quick": ["none", "A", "B", "C"], "thorough": ["none", "A", "B", "C"]}

PRESETS = [
    {"ann": [], "pred": []},
    {"ann": [["A", ["t0"]]], "pred": [["A", [["t0", 0.5]]]]},
    {"ann": [["A", ["t1"]]], "pred": [["C", [["t1", 0.5]]]]},
    {"ann": [["none", ["t0"]]], "pred": [["B", [["t0", 0.25], ["t1", 0.5]]]]},
    {"ann": [["A", ["t0"]], ["B", []]], "pred": [["I", [["t1", 0.5]]]]},
    {"ann": [["C", ["oov"]]], "pred": [["C", []], ["A", [["t0", 0.5]]], ["none", [["t1", 0.25]]]]},
    {"ann": [["M1", ["t0"]], ["A", ["t1"]]], "pred": [["M2", [["t0", 0.5]]], ["B", [["t1", 0.5]]]]},
    # a tag that belongs to one of the three vocabularies only (out of vocabulary for the other two, whatever was evaluated before)
    {"ann": [["A", ["t2"]]], "pred": [["A", [["t2", 0.5], ["t0", 0.25]]]]},
]
PATTERNS = ["both", "ann", "pred", "absent"]

REC = recording(duration=20.0)


def bounds(tier):
    return {"geometries": GKEYS[tier], "annotation_tag_sets": ANN_TAGS[tier], "predicted_tag_lists": VECS[tier],
            "max_events_per_side": 2, "clip_slots": 2, "patterns": PATTERNS, "presets": len(PRESETS), "vocabularies": VOCABS}


def blocks(tier):
    akinds = [[g, t] for g in GKEYS[tier] for t in ANN_TAGS[tier]]
    pkinds = [[g, v] for g in GKEYS[tier] for v in VECS[tier]]
    alists = [list(x) for n in range(3) for x in itertools.product(akinds, repeat=n)]
    out = [{"space": "one_clip", "tier": tier, "alists": c} for c in chunk(alists, 96 if tier == "quick" else 256)]
    slots = list(itertools.product(PATTERNS, range(len(PRESETS))))
    pairs = list(itertools.product(slots, repeat=2))
    out += [{"space": "clips", "pairs": [[list(a), list(b)] for a, b in c]} for c in chunk(pairs, 16)]
    return out


def run_block(block, rec):
    if block["space"] == "one_clip":
        tier = block["tier"]
        pkinds = [[g, v] for g in GKEYS[tier] for v in VECS[tier]]
        plists = [list(x) for n in range(3) for x in itertools.product(pkinds, repeat=n)]
        for al in block["alists"]:
            for pl in plists:
                rec.add(run_case({"space": "one_clip", "vocab": "t0t1", "ann": al, "pred": pl}))
    else:
        for a, b in block["pairs"]:
            for order in ("same", "reversed"):
                for vocab in VOCABS:
                    rec.add(run_case({"space": "clips", "vocab": vocab, "slots": [a, b], "order": order}))


# ---------------------------------------------------------------- building inputs
def mk_geom(key):
    g = GEOMS[key]
    if g is None:
        return None
    return getattr(data, g[0])(coordinates=g[1])


def build_clip(ci, content, pattern):
    clip = data.Clip(uuid=U("clip%d" % ci), recording=REC, start_time=0.0, end_time=10.0)
    ca = cp = None
    if pattern in ("both", "ann"):
        seas = [data.SoundEventAnnotation(
            uuid=U("a%d.%d" % (ci, i)),
            sound_event=data.SoundEvent(uuid=U("sa%d.%d" % (ci, i)), recording=REC, geometry=mk_geom(g)),
            tags=[TAGS[t] for t in tags]) for i, (g, tags) in enumerate(content["ann"])]
        ca = data.ClipAnnotation(uuid=U("ca%d" % ci), clip=clip, sound_events=seas)
    if pattern in ("both", "pred"):
        seps = [data.SoundEventPrediction(
            uuid=U("p%d.%d" % (ci, i)),
            sound_event=data.SoundEvent(uuid=U("sp%d.%d" % (ci, i)), recording=REC, geometry=mk_geom(g)),
            tags=[data.PredictedTag(tag=TAGS[t], score=s) for t, s in vec]) for i, (g, vec) in enumerate(content["pred"])]
        cp = data.ClipPrediction(uuid=U("cp%d" % ci), clip=clip, sound_events=seps)
    return ca, cp


def where_of(exc):
    tb = traceback.extract_tb(exc.__traceback__)
    fr = [f for f in tb if "/soundevent/" in f.filename]
    return fr[-1].name if fr else "?"


# ---------------------------------------------------------------- model helpers
def true_class(tags, vocab):
    for t in tags:
        for i, v in enumerate(vocab):
            if t == v:
                return i
    return None


def pred_vector(ptags, vocab):
    vec = [0.0] * len(vocab)
    for pt in ptags:
        for i, v in enumerate(vocab):
            if pt.tag == v:
                vec[i] = pt.score
    return vec


def expected_score(ann, pred, vocab):
    vec = pred_vector(pred.tags, vocab)
    c = true_class(ann.tags, vocab)
    return 1.0 - sum(vec) if c is None else vec[c]


def check_clip_eval(out, ce, ca, cp, vocab, cls):
    """All per-clip oracles on one returned ClipEvaluation."""
    src = [m.source.uuid for m in ce.matches if m.source is not None]
    tgt = [m.target.uuid for m in ce.matches if m.target is not None]
    want_s = sorted(p.uuid for p in cp.sound_events)
    want_t = sorted(a.uuid for a in ca.sound_events)
    ok = sorted(src) == want_s and sorted(tgt) == want_t and all(m.source is not None or m.target is not None for m in ce.matches)
    out.expect("coverage", ok, {"sources": len(src), "targets": len(tgt), "matches": len(ce.matches)},
               {"sources": len(want_s), "targets": len(want_t)}, dict(cls, kind="coverage"))
    out.expect("clip_objects", ce.annotations.uuid == ca.uuid and ce.predictions.uuid == cp.uuid, None, "the paired inputs", cls)
    for m in ce.matches:
        if m.source is not None and m.target is not None:
            g, h = m.source.sound_event.geometry, m.target.sound_event.geometry
            if g is None or h is None:
                out.fail("pair_requires_overlap", "paired an event without geometry", "unpaired", dict(cls, kind="geometry_less_paired"))
                continue
            aff = compute_affinity(g, h, time_buffer=0.01, freq_buffer=100)
            out.expect("pair_requires_overlap", aff > 0, {"affinity_of_pair": aff, "reported": m.affinity}, "affinity > 0",
                       dict(cls, kind="paired_without_overlap"))
            out.expect("affinity_value", abs(m.affinity - aff) <= 1e-9, m.affinity, aff, dict(cls, kind="paired_affinity"))
            exp = expected_score(m.target, m.source, vocab)
            out.expect("score_value", m.score is not None and abs(m.score - exp) <= 1e-6, m.score, exp, dict(cls, kind="paired_score"))
        else:
            out.expect("affinity_value", m.affinity == 0, m.affinity, 0.0, dict(cls, kind="unpaired_affinity"))
            out.expect("score_value", m.score == 0, m.score, 0.0, dict(cls, kind="unpaired_score"))
    scores = [m.score for m in ce.matches]
    if scores and all(s is not None for s in scores):
        mean = sum(scores) / len(scores)
        out.expect("clip_mean", ce.score is not None and abs(ce.score - mean) <= 1e-6, ce.score, mean, cls)
    else:
        fin = ce.score is not None and math.isfinite(ce.score) and 0 <= ce.score <= 1
        if not scores:
            out.vac("clip_mean")
        out.expect("clip_score_in_range", fin, ce.score, "finite in [0, 1]", cls)


def run_case(case):
    out = Out(case)
    vocab = [TAGS[t] for t in VOCABS[case["vocab"]]]
    if case["space"] == "one_clip":
        slots = [("both", {"ann": case["ann"], "pred": case["pred"]})]
        order = "same"
    else:
        slots = [(p, PRESETS[i]) for p, i in case["slots"]]
        order = case["order"]
    cas, cps = [], []
    for ci, (pattern, content) in enumerate(slots):
        ca, cp = build_clip(ci, content, pattern)
        if ca is not None:
            cas.append(ca)
        if cp is not None:
            cps.append(cp)
    if order == "reversed":
        cps = cps[::-1]
    both = [c.clip.uuid for c in cps if any(a.clip.uuid == c.clip.uuid for a in cas)]
    cls = {"fn": "sound_event_detection"}
    geomless = any(e.sound_event.geometry is None for x in cas + cps if x.clip.uuid in both for e in x.sound_events)
    try:
        if (len(cps) + len(cas)) % 2:  # the three arguments are typed Sequence: tuples are as good as lists
            ev = sound_event_detection(tuple(cps), tuple(cas), tuple(vocab))
        else:
            ev = sound_event_detection(cps, cas, vocab)
    except Exception as e:  # noqa
        n_items = sum(len(x.sound_events) for x in cas + cps if x.clip.uuid in both)
        if not both or n_items == 0:
            out.vac("no_crash")
            out.klass = "no_evaluated_item:" + type(e).__name__
            return out
        out.fail("no_crash", "%s in %s: %s" % (type(e).__name__, where_of(e), str(e)[:200]), "an Evaluation",
                 dict(cls, exc=type(e).__name__, where=where_of(e), geometry_less=geomless))
        out.klass = "crash:%s:%s" % (type(e).__name__, where_of(e))
        return out
    if not both:
        out.expect("clips", len(ev.clip_evaluations) == 0, len(ev.clip_evaluations), 0, cls)
        out.klass = "no_evaluated_clip"
        return out
    got = [ce.annotations.clip.uuid for ce in ev.clip_evaluations]
    out.expect("clips", sorted(got) == sorted(both), len(got), len(both), cls)
    nontrivial = False
    for ce in ev.clip_evaluations:
        ca = next((a for a in cas if a.clip.uuid == ce.annotations.clip.uuid), None)
        cp = next((p for p in cps if p.clip.uuid == ce.predictions.clip.uuid), None)
        if ca is None or cp is None or ca.clip.uuid != cp.clip.uuid:
            out.fail("clips", "clip evaluation for a clip not in both inputs", "only shared clips", cls)
            continue
        check_clip_eval(out, ce, ca, cp, vocab, cls)
        if any(a.sound_event.geometry is not None for a in ca.sound_events) and any(p.sound_event.geometry is not None for p in cp.sound_events):
            nontrivial = True
    cs = [ce.score for ce in ev.clip_evaluations]
    if cs and all(s is not None and math.isfinite(s) for s in cs):
        mean = sum(cs) / len(cs)
        out.expect("overall_mean", ev.score is not None and abs(ev.score - mean) <= 1e-6, ev.score, mean, cls)
    out.nontrivial = nontrivial
    paired = sum(1 for ce in ev.clip_evaluations for m in ce.matches if m.source is not None and m.target is not None)
    total = sum(len(ce.matches) for ce in ev.clip_evaluations)
    out.klass = "clips=%d paired=%d unpaired=%d" % (len(ev.clip_evaluations), min(paired, 3), min(total - paired, 3))
    return out


def replay_case(case):
    return run_case(case)
