"""C02 — AOEF documents are self-contained and resolvable in a single pass.

Same object-graph exploration as C01 (mc.graphgen), but the oracle reads the
JSON document: identifiers unique per list, every reference (explicit
reference-site table + generic UUID sweep) defined exactly once, parents
before children, and the defined sets equal to the distinct objects reachable
from the saved collection (independent reflection walk).  A second space
explores save/load *histories* in one process (all ordered pairs of pole
collections): the second document must equal the one produced when saved
first (differential oracle from a non-initial state).
"""
from __future__ import annotations

import itertools
import json
import os

from soundevent import io

from mc import graphgen as G
from mc.runner import Out, scratch_dir
from models import aoef_refs as R

ID = "C02"
RULE = (
    "graphs: same case stream as C01 (every configuration within k deviations of the minimal/skeleton/maximal poles, 8 collection "
    "types, k=2 quick / 3 thorough); the 'sole reference site' matrix is part of it (skeleton pole + one or two reference-site axes, "
    "with shared or per-site distinct tags/users) and is measured: coverage.counters['sole:<site>'] counts cases in which some object "
    "is referenced from that site only. histories: every ordered pair (X, Y) of the 24 pole collections saved (and loaded) one after "
    "the other in the same process. aliases: the maximal pole and its 1-deviation neighbours with, at every tag site, a second term that "
    "shares the first term's name but not its label. subclass: the skeleton and maximal pole of every type as an instance of a user subclass of "
    "the collection class. Non-trivial = document contains at least one cross reference. State = canonical JSON of the "
    "collection + audio_dir flag."
)
ASSUMPTIONS = [
    "tags are identified by (term label, value), everything else by uuid; notes are inline objects (not a top-level list)",
    "reference sites are located by an explicit table of the AOEF format AND by a generic sweep over every UUID-shaped string",
    "objects sharing a UUID are the same object",
]


def tier_k(tier):
    return 2 if tier == "quick" else 3


def bounds(tier):
    return {"collection_types": G.KINDS, "poles": list(G.POLES),
            "deviation_bound": {p: (2 if (tier != "quick" and p == "minimal") else tier_k(tier)) for p in G.POLES},
            "axes": len(G.AXES_DECL), "history_collections": 24, "history_pairs": 576,
            "reference_sites": sorted({s for s in SITES})}


SITES = [
    "recordings.owners", "recordings.tags", "recordings.notes.created_by", "clips.recording", "sound_events.recording",
    "sequences.sound_events", "sequences.parent", "sound_event_annotations.sound_event", "sound_event_annotations.tags",
    "sound_event_annotations.created_by", "sound_event_annotations.notes.created_by", "sequence_annotations.sequence",
    "sequence_annotations.tags", "sequence_annotations.created_by", "sequence_annotations.notes.created_by",
    "clip_annotations.clip", "clip_annotations.tags", "clip_annotations.sound_events", "clip_annotations.sequences",
    "clip_annotations.notes.created_by", "sound_event_predictions.sound_event", "sound_event_predictions.tags",
    "sequence_predictions.sequence", "sequence_predictions.tags", "clip_predictions.clip", "clip_predictions.sound_events",
    "clip_predictions.sequences", "clip_predictions.tags", "matches.source", "matches.target",
    "clip_evaluations.annotations", "clip_evaluations.predictions", "clip_evaluations.matches", "tasks.clip",
    "tasks.status_badges.owner", "project_tags", "evaluation_tags",
]


def blocks(tier):
    out = []
    for kind in G.KINDS:
        for p in G.POLES:
            k = 2 if (tier != "quick" and p == "minimal") else tier_k(tier)
            n = sum(1 for _ in G.cases(kind, k, [p]))
            nchunks = max(1, min(64, n // 400))
            for i in range(nchunks):
                out.append({"space": "graphs", "kind": kind, "pole": p, "k": k, "i": i, "of": nchunks})
    for kind in G.KINDS:
        out.append({"space": "aliases", "kind": kind})
    out.append({"space": "subclass"})
    colls = [(kind, p) for kind in G.KINDS for p in G.POLES]
    for x in range(len(colls)):
        out.append({"space": "histories", "first": list(colls[x])})
    return out


def run_block(block, rec):
    if block["space"] == "graphs":
        for idx, (j, p, delta) in enumerate(G.cases(block["kind"], block["k"], [block["pole"]])):
            if idx % block["of"] != block["i"]:
                continue
            out = run_case({"space": "graphs", "kind": block["kind"], "pole": p, "delta": delta, "dev": j})
            for s in getattr(out, "_sole", ()):
                rec.count("sole:" + s)
            rec.add(out)
    elif block["space"] == "subclass":
        # the collection is an instance of a user subclass of its collection class (one extra field): same document
        for kind in G.KINDS:
            for p in ("skeleton", "maximal"):
                rec.add(run_case({"space": "graphs", "kind": kind, "pole": p, "delta": {}, "dev": 0, "subclass": 1}))
    elif block["space"] == "aliases":
        # terms that share their name but not their label (two tags per site): the maximal pole and its 1-deviation neighbours
        for j, p, delta in G.cases(block["kind"], 1, ["maximal"]):
            rec.add(run_case({"space": "graphs", "kind": block["kind"], "pole": p, "delta": delta, "dev": j, "alias": 1}))
    else:
        for kind in G.KINDS:
            for p in G.POLES:
                rec.add(run_case({"space": "histories", "first": block["first"], "second": [kind, p]}))


_SUB = {}


def as_subclass(obj):
    """The same collection as an instance of a trivial user subclass (one extra field with a default)."""
    base = type(obj)
    if base not in _SUB:
        _SUB[base] = type("Lab" + base.__name__, (base,), {"__annotations__": {"site": str}, "site": "unknown", "__module__": __name__})
    return _SUB[base](**{f: getattr(obj, f) for f in base.model_fields})


class _Out(Out):
    __slots__ = ("_sole",)


def check_document(out, kind, obj, doc):
    """All document-level oracles on one saved document."""
    cls = {"kind": kind}
    defs = R.definitions(doc)
    # ids unique within their list
    for lst, ids in defs.items():
        if not ids:
            continue
        dup = sorted({str(i) for i in ids if ids.count(i) > 1})
        out.expect("ids_unique", not dup, {"list": lst, "duplicates": dup[:3]}, "unique", dict(cls, list=lst))
    if doc.get("tags"):
        kv = [(t["key"], t["value"]) for t in doc["tags"]]
        out.expect("ids_unique", len(kv) == len(set(kv)), {"list": "tags(key,value)", "n": len(kv)}, "unique", dict(cls, list="tags.key_value"))
    defsets = {lst: set(map(str, ids)) for lst, ids in defs.items()}
    # every reference of the explicit site table is defined (exactly once: uniqueness is checked above)
    refsites = {}
    nrefs = 0
    for site, target, ident in R.references(doc):
        nrefs += 1
        refsites.setdefault((target, str(ident)), set()).add(site)
        if str(ident) not in defsets[target]:
            out.fail("refs_defined", {"site": site, "id": ident, "target_list": target}, "defined in data." + target,
                     dict(cls, site=site))
    if nrefs:
        out.ok("refs_defined", nrefs)
    # generic sweep: every UUID-shaped string that is not a definition must be defined somewhere
    all_defined = set().union(*[s for lst, s in defsets.items() if lst != "tags"])
    nm = 0
    for path, val, is_def in R.uuid_mentions(doc):
        if is_def:
            continue
        nm += 1
        if val not in all_defined:
            out.fail("refs_defined_generic", {"path": path, "id": val}, "defined in some top-level list",
                     dict(cls, path=path.replace("[]", "")))
    if nm:
        out.ok("refs_defined_generic", nm)
    # parents first
    seq_ids = [str(s["uuid"]) for s in doc.get("sequences") or []]
    for i, s in enumerate(doc.get("sequences") or []):
        if s.get("parent") is not None:
            p = str(s["parent"])
            out.expect("parent_first", p in seq_ids and seq_ids.index(p) < i, {"child": s["uuid"], "parent": p, "order": seq_ids},
                       "parent listed before child", cls)
    # defined == reachable
    reach = R.reachable(obj)
    for lst in R.LISTS:
        if lst == "tags":
            got = {(t["key"], t["value"]) for t in doc.get("tags") or []}
            want = reach["tags"]
        else:
            got, want = defsets[lst], reach[lst]
        if got == want:
            if want:
                out.ok("exactly_reachable")
            continue
        missing, extra = sorted(map(str, want - got)), sorted(map(str, got - want))
        out.fail("exactly_reachable", {"list": lst, "missing": missing[:3], "extra": extra[:3]}, "defined set == reachable set",
                 dict(cls, list=lst, dir="missing" if missing else "extra"))
    # sole reference sites (evidence of non-vacuity of the site matrix)
    out._sole = sorted({next(iter(s)) for s in refsites.values() if len(s) == 1})
    return nrefs


def counts(obj):
    return {lst: len(ids) for lst, ids in R.reachable(obj).items() if ids}


def run_case(case):
    out = _Out(case)
    out._sole = ()
    path = os.path.join(scratch_dir(), "c02.json")
    if case["space"] == "graphs":
        kind = case["kind"]
        cfg = G.config(case["pole"], case["delta"])
        if case.get("alias"):
            cfg["_term_alias"] = 1
        adir = G.AUDIO_DIR if cfg["audio_dir"] else None
        x0 = G.build(kind, cfg)
        if case.get("subclass"):
            x0 = as_subclass(x0)
        out.key = [kind, bool(adir), bool(case.get("subclass")), x0.model_dump_json()]
        try:
            io.save(x0, path, audio_dir=adir)
            with open(path) as f:
                doc = json.loads(f.read())["data"]
        except Exception as e:  # noqa
            out.fail("no_crash", "%s: %s" % (type(e).__name__, str(e)[:300]), "save succeeds", {"kind": kind, "step": "save"})
            out.klass = "crash"
            return out
        out.expect("collection_type", doc.get("collection_type") == kind, doc.get("collection_type"), kind, {"kind": kind})
        nrefs = check_document(out, kind, x0, doc)
        out.nontrivial = nrefs > 0
        try:
            x1 = io.load(path, audio_dir=adir)
            c0, c1 = counts(x0), counts(x1)
            out.expect("single_pass", c0 == c1, c1, c0, {"kind": kind})
        except Exception as e:  # noqa
            out.fail("single_pass", "%s: %s" % (type(e).__name__, str(e)[:300]), "fresh load succeeds", {"kind": kind, "exc": type(e).__name__})
        out.transitions = 2
        out.klass = "%s:%s" % (kind, "closed" if not out.viol else "open")
        return out
    # histories: save X then Y in the same process; Y's document must equal Y saved first (reference computed by the same
    # worker before X is touched is impossible, so the reference is Y saved twice in a row being equal AND equal to the
    # document obtained after an intervening X)
    (k1, p1), (k2, p2) = case["first"], case["second"]
    X = G.build(k1, G.pole(p1))
    Y = G.build(k2, G.pole(p2))
    adx = G.AUDIO_DIR if G.pole(p1)["audio_dir"] else None
    ady = G.AUDIO_DIR if G.pole(p2)["audio_dir"] else None
    try:
        io.save(Y, path, audio_dir=ady)
        ref = json.loads(open(path).read())["data"]
        refobj = io.load(path, audio_dir=ady)
        io.save(X, path, audio_dir=adx)
        io.load(path, audio_dir=adx)
        io.save(Y, path, audio_dir=ady)
        doc = json.loads(open(path).read())["data"]
        obj = io.load(path, audio_dir=ady)
    except Exception as e:  # noqa
        out.fail("no_crash", "%s: %s" % (type(e).__name__, str(e)[:300]), "save/load succeeds", {"kind": k2, "step": "history"})
        return out
    out.transitions = 6
    out.validated = 2
    out.nontrivial = (k1, p1) != (k2, p2) and p1 != "minimal" and p2 != "minimal"
    if doc == ref:
        out.ok("history_independent_doc")
    else:
        keys = sorted(k for k in set(doc) | set(ref) if doc.get(k) != ref.get(k))
        out.fail("history_independent_doc", keys, "same document as when saved first", {"kind": k2, "section": keys[0]})
    out.expect("history_independent_load", obj == refobj, "differs", "same object as when loaded first", {"kind": k2})
    check_document(out, k2, Y, doc)
    out.klass = "history:%s" % ("same" if not out.viol else "differs")
    return out


def replay_case(case):
    return run_case(case)
