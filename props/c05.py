"""C05 — Bounds, geometric features and anchor points agree with the coordinates.

Exhaustive over every geometry of every type on a small dyadic lattice (all
stamps / intervals / points / boxes, all line strings and multi-points up to a
length, all 3-point rings, a catalogue of rectangles / L-shapes / holed
rectangles in every lattice placement, multi-geometries with 1-3 members) and,
for each geometry, every named position of ``get_geometry_point`` plus a list
of invalid names.  Reference model: min/max walk over the raw coordinates
(models.geometry.extent / points / num_parts); nothing of shapely is used on
the model side.
"""
from __future__ import annotations

import itertools
import math
from fractions import Fraction as F

from soundevent import terms
from soundevent.geometry import (
    compute_bounds,
    compute_geometric_features,
    geometry_to_shapely,
    get_geometry_point,
)

from mc.runner import Out
from models import geometry as gm
from props.common import MAXF, is_rejection, mkgeom

ID = "C05"
RULE = (
    "case = one geometry (type + coordinates); per case: geometry_to_shapely, compute_bounds, "
    "compute_geometric_features, get_geometry_point for the default, each of the 11 named positions and each of "
    "the invalid names. Geometries: every TimeStamp/TimeInterval/Point/BoundingBox (boxes also unsorted and "
    "zero-extent) over the lattice; every LineString and MultiPoint sequence (repeats included) up to the length "
    "bound; every 3-point ring (repeated and collinear points included); every placement/vertex order of "
    "rectangles and L-shapes; rectangles with every admissible triangular/rectangular hole; MultiLineStrings and "
    "MultiPolygons with 1-3 members from the stated pools; an off-lattice family (17-digit coordinates, extents tiny relative to "
    "the coordinates, shells not starting at their earliest vertex, self-crossing rings, 33/129/1025-vertex lines and outlines) "
    "judged with a 1e-9 tolerance on features / anchor points and exactly on bounds and conversion. A case is non-trivial when the model bounds have "
    "positive extent in time and in frequency (the nine anchor points are then pairwise distinct); distinct = "
    "distinct (type, coordinates)."
)
ASSUMPTIONS = [
    "coordinates on a dyadic lattice (times multiples of 1/2 s, frequencies multiples of 500 Hz and MAX_FREQUENCY): "
    "bounds, differences and midpoints are exact in float, so bounds/features/positions are compared exactly",
    "the model walks the coordinates held by the validated geometry object (normalisation by the validators is C03's subject)",
    "holes lie inside their shell (at most one hole vertex on the shell boundary); self-intersecting rings are out of the alphabet; "
    "multi-polygon members may overlap (bounds, features and anchor points are still defined by the coordinates)",
    "centroid / point_on_surface are only required to lie in the closed bounds box, 1e-9 relative tolerance; their exact value is shapely's",
    "error class for an unknown position name: any ValueError subclass",
]

POSITIONS = [
    "bottom-left", "bottom-right", "top-left", "top-right", "center-left", "center-right",
    "top-center", "bottom-center", "center",
]
SHAPELY_POSITIONS = ["centroid", "point_on_surface"]
INVALID = ["", "middle", "left-bottom", "center-center", "top", "TOP-LEFT", "top_left", "centroid ", "point-on-surface", None]

KIND = {
    "TimeStamp": "LineString", "TimeInterval": "Polygon", "Point": "Point", "LineString": "LineString",
    "Polygon": "Polygon", "BoundingBox": "Polygon", "MultiPoint": "MultiPoint",
    "MultiLineString": "MultiLineString", "MultiPolygon": "MultiPolygon",
}

TERMS = [("duration", terms.duration), ("low_freq", terms.low_freq), ("high_freq", terms.high_freq),
         ("bandwidth", terms.bandwidth), ("num_segments", terms.num_segments)]


# ---------------------------------------------------------------- lattice and enumeration
def lattice(tier):
    if tier == "quick":
        return [0, 1, 2, 3], [0, 1000, 2000, MAXF]
    return [0, 0.5, 1, 2, 3], [0, 500, 1000, 2000, MAXF]


def sublattice(tier):
    """Smaller lattice used for the members of 3-member multi-geometries."""
    if tier == "quick":
        return [0, 1, 3], [0, 2000, MAXF]
    return [0, 1, 2, 3], [0, 2000, MAXF]


def max_len(tier):
    return {"line": 3, "mpoint": 3} if tier == "quick" else {"line": 4, "mpoint": 4}


def lat_points(T, Fq):
    return [[t, f] for t in T for f in Fq]


def cross(p, q, r):
    return (F(q[0]) - F(p[0])) * (F(r[1]) - F(p[1])) - (F(q[1]) - F(p[1])) * (F(r[0]) - F(p[0]))


def rect_corners(t0, t1, f0, f1):
    return [[t0, f0], [t1, f0], [t1, f1], [t0, f1]]


def rects(T, Fq):
    for t0, t1 in itertools.combinations(T, 2):
        for f0, f1 in itertools.combinations(Fq, 2):
            yield (t0, t1, f0, f1)


def ring_orders(ring):
    """Every rotation of the ring in both orientations."""
    n = len(ring)
    for r in (ring, ring[::-1]):
        for k in range(n):
            yield r[k:] + r[:k]


def l_shapes(T, Fq):
    for t0, tm, t1 in itertools.combinations(T, 3):
        for f0, fm, f1 in itertools.combinations(Fq, 3):
            for ta, tb in ((t0, t1), (t1, t0)):
                for fa, fb in ((f0, f1), (f1, f0)):
                    # notch at the (tb, fb) corner
                    yield [[ta, fa], [tb, fa], [tb, fm], [tm, fm], [tm, fb], [ta, fb]]


def holes_of(shell, T, Fq):
    """Triangular and rectangular holes inside a rectangular shell, at most one vertex on its boundary."""
    t0, t1, f0, f1 = shell
    inside = [p for p in lat_points(T, Fq) if t0 <= p[0] <= t1 and f0 <= p[1] <= f1]

    def on_boundary(p):
        return p[0] in (t0, t1) or p[1] in (f0, f1)

    for tri in itertools.combinations(inside, 3):
        if cross(*tri) != 0 and sum(on_boundary(p) for p in tri) <= 1:
            yield list(tri)
    for r in rects([t for t in T if t0 <= t <= t1], [f for f in Fq if f0 <= f <= f1]):
        c = rect_corners(*r)
        if sum(on_boundary(p) for p in c) <= 1:
            yield c


def separated(h1, h2, axis):
    """h1 lies before h2 on the axis; they may share the dividing coordinate only in one vertex each
    (so two holes touch in at most one point)."""
    hi, lo = max(p[axis] for p in h1), min(p[axis] for p in h2)
    if hi < lo:
        return True
    return hi == lo and sum(p[axis] == hi for p in h1) == 1 and sum(p[axis] == lo for p in h2) == 1


def holed_polygons(T, Fq, two_holes):
    for i0, i1 in itertools.combinations(range(len(T)), 2):
        for j0, j1 in itertools.combinations(range(len(Fq)), 2):
            if i1 - i0 < 2 or j1 - j0 < 2:
                continue
            shell = (T[i0], T[i1], Fq[j0], Fq[j1])
            sc = rect_corners(*shell)
            hs = list(holes_of(shell, T, Fq))
            for h in hs:
                yield [sc, h]
                yield [sc[::-1], h[::-1]]
            if two_holes and i0 == 0 and j0 == 0 and i1 == len(T) - 1 and j1 == len(Fq) - 1:
                for h1, h2 in itertools.permutations(hs, 2):
                    strictly_inside = all(shell[0] < p[0] < shell[1] and shell[2] < p[1] < shell[3] for p in h1 + h2)
                    if strictly_inside and (separated(h1, h2, 0) or separated(h1, h2, 1)):
                        yield [sc, h1, h2]


def polygon_catalogue(T, Fq, two_holes):
    for r in rects(T, Fq):
        for ring in ring_orders(rect_corners(*r)):
            yield [ring]
    for ring in l_shapes(T, Fq):
        yield [ring]
        yield [ring[::-1]]
    yield from holed_polygons(T, Fq, two_holes)


def right_triangles(T, Fq):
    for r in rects(T, Fq):
        c = rect_corners(*r)
        for k in range(4):
            yield [c[:k] + c[k + 1:]]


def forward_lines(T, Fq, n):
    """All n-point lines whose last time is strictly after the first (MultiLineString members)."""
    pts = lat_points(T, Fq)
    for seq in itertools.product(pts, repeat=n):
        if seq[0][0] < seq[-1][0]:
            yield list(seq)


def first_holed(T, Fq):
    for p in holed_polygons(T, Fq, False):
        return p


def mpoly_pool2(T, Fq, tier):
    tris = list(right_triangles(T, Fq))
    if tier == "quick":  # two of the four right triangles of every rectangle, the omitted corner alternating
        tris = [t for i, t in enumerate(tris) if (i % 4) % 2 == (i // 4) % 2]
    pool = [[rect_corners(*r)] for r in rects(T, Fq)] + tris
    pool.append(first_holed(T, Fq))
    return pool


def mpoly_pool3(tier):
    T, Fq = sublattice(tier)
    if tier == "quick":
        pool = []
        for i, r in enumerate(rects(T, Fq)):
            c = rect_corners(*r)
            pool.append([c])
            pool.append([c[: i % 4] + c[i % 4 + 1:]])
        return pool
    Tq, Fqq = sublattice("quick")
    return [[rect_corners(*r)] for r in rects(Tq, Fqq)] + list(right_triangles(Tq, Fqq)) + [first_holed(*lattice(tier))]


FAMILIES = ["flat", "line", "mpoint", "ring3", "poly", "mline1", "mline2", "mline3", "mpoly1", "mpoly2", "mpoly3", "regroup", "odd"]
# measured relative cost per geometry (ms on the reference machine); only used to balance the blocks
WEIGHT = {"flat": 0.8, "line": 0.55, "mpoint": 1.7, "ring3": 0.8, "poly": 0.9, "mline1": 0.85, "mline2": 1.15, "mline3": 1.4,
          "mpoly1": 1.2, "mpoly2": 1.7, "mpoly3": 2.0, "regroup": 1.5, "odd": 1.5}


def family(fam, tier):
    """Deterministic enumeration of (type, coordinates) of one family, simplest first."""
    T, Fq = lattice(tier)
    pts = lat_points(T, Fq)
    ml = max_len(tier)
    if fam == "flat":
        for t in T:
            yield "TimeStamp", t
        for a, b in itertools.combinations_with_replacement(T, 2):
            yield "TimeInterval", [a, b]
        for p in pts:
            yield "Point", list(p)
        for t0, f0, t1, f1 in itertools.product(T, Fq, T, Fq):
            yield "BoundingBox", [t0, f0, t1, f1]
    elif fam == "line":
        for n in range(2, ml["line"] + 1):
            for seq in itertools.product(pts, repeat=n):
                yield "LineString", [list(p) for p in seq]
    elif fam == "mpoint":
        for n in range(1, ml["mpoint"] + 1):
            for seq in itertools.product(pts, repeat=n):
                yield "MultiPoint", [list(p) for p in seq]
    elif fam == "ring3":
        for seq in itertools.product(pts, repeat=3):
            yield "Polygon", [[list(p) for p in seq]]
    elif fam == "poly":
        for c in polygon_catalogue(T, Fq, tier != "quick"):
            yield "Polygon", c
    elif fam == "mline1":
        for n in (2, 3):
            for l in forward_lines(T, Fq, n):
                yield "MultiLineString", [l]
    elif fam == "mline2":
        pool = list(forward_lines(T, Fq, 2))
        for a, b in itertools.product(pool, repeat=2):
            yield "MultiLineString", [a, b]
    elif fam == "mline3":
        pool = list(forward_lines(*sublattice(tier), 2))
        for a, b, c in itertools.product(pool, repeat=3):
            yield "MultiLineString", [a, b, c]
    elif fam == "mpoly1":
        for c in polygon_catalogue(T, Fq, tier != "quick"):
            yield "MultiPolygon", [c]
        for tri in itertools.combinations(pts, 3):
            yield "MultiPolygon", [[[list(p) for p in tri]]]
    elif fam == "mpoly2":
        pool = mpoly_pool2(T, Fq, tier)
        for a, b in itertools.product(pool, repeat=2):
            yield "MultiPolygon", [a, b]
    elif fam == "mpoly3":
        pool = mpoly_pool3(tier)
        for a, b, c in itertools.product(pool, repeat=3):
            yield "MultiPolygon", [a, b, c]
    elif fam == "regroup":
        # consecutive geometries of one type made of the SAME numbers in the same order, grouped differently: the conversion
        # must follow the nesting, not the flattened coordinate list (kept in a single block so that they stay consecutive)
        two = list(forward_lines(T, Fq, 2))
        k = 0
        for a in two:
            for b in two:
                if a[0][0] < b[-1][0]:  # the concatenation is itself a forward line
                    k += 1
                    if k % 7:
                        continue  # every 7th pair keeps the family small
                    first, second = [a, b], [a + b]
                    if k % 2:
                        first, second = second, first
                    yield "MultiLineString", first
                    yield "MultiLineString", second
        for j, c in enumerate(polygon_catalogue(T, Fq, tier != "quick")):
            if len(c) == 2:  # shell with one hole
                first, second = [c], [[c[0]], [c[1]]]
                if j % 2:
                    first, second = second, first
                yield "MultiPolygon", first
                yield "MultiPolygon", second
    elif fam == "odd":
        # off-lattice: coordinates that need all 53 bits of a double (conversion and bounds must hand them on untouched; features and
        # anchor points are compared to 1e-9 here), a shell that does not start at its earliest vertex, and self-crossing rings
        # (the conversion is still defined by the coordinates; centroid / point-on-surface are not judged for those)
        Tp = [0.1234567891, 1.00000012345, 86399.999999999]
        Fp = [0.123456789, 12345.678901234, 4999999.999999999]
        P = [[t, f] for t in Tp for f in Fp]
        for t in Tp:
            yield "TimeStamp", t
        for a, b in itertools.combinations_with_replacement(Tp, 2):
            yield "TimeInterval", [a, b]
        for p in P:
            yield "Point", list(p)
        for t0, t1 in itertools.combinations(Tp, 2):
            for f0, f1 in itertools.combinations(Fp, 2):
                yield "BoundingBox", [t0, f0, t1, f1]
        for a, b, c in itertools.permutations(P[::2], 3):
            yield "LineString", [a, b, c]
            yield "MultiPoint", [a, b, c]
            yield "Polygon", [[a, b, c]]
            if a[0] < c[0]:
                yield "MultiLineString", [[a, b, c], [a, c]]
            yield "MultiPolygon", [[[a, b, c]], [[c, b, a]]]
        shell = rect_corners(Tp[0], Tp[2], Fp[0], Fp[2])
        hole = [[1.00000012345, 12345.678901234], [2.5, 12345.678901234], [2.5, 20000.5]]
        for k in range(4):
            yield "Polygon", [shell[k:] + shell[:k], hole]
            yield "MultiPolygon", [[shell[k:] + shell[:k], hole], [[P[0], P[4], P[8]]]]
        # extents that are tiny relative to the magnitude of the coordinates (a 100 us click two days into a deployment, a 2 mHz
        # band at 4 MHz): duration / bandwidth must still be the differences
        yield "TimeInterval", [172800.0, 172800.0001]
        yield "BoundingBox", [172800.0, 4000000.0, 172800.0001, 4000000.002]
        yield "LineString", [[172800.0, 4000000.0], [172800.0001, 4000000.002]]
        yield "MultiPoint", [[172800.0001, 4000000.002], [172800.0, 4000000.0]]
        yield "Polygon", [[[172800.0, 4000000.0], [172800.0001, 4000000.0], [172800.0001, 4000000.002]]]
        # many vertices (33 / 129 / 1025: beyond any plausible 'small geometry' threshold), first <= last in time but the earliest and
        # the latest vertex in the interior; dense outlines of a rectangle (collinear vertices) for the polygonal types
        for n in (33, 129, 1025):
            zig = [[3.0, 1000.0]] + [[3.0 + ((i * 37) % 64 - 23) / 8.0, float((i * 97) % 4001)] for i in range(1, n - 1)] + [[5.0, 2000.0]]
            yield "LineString", zig
            yield "MultiPoint", zig
            yield "MultiLineString", [zig, [[0.0, 0.0], [1.0, 125.0]]]
            k = (n - 1) // 4
            ring = ([[8.0 * i / k, 0.0] for i in range(k)] + [[8.0, 4000.0 * i / k] for i in range(k)]
                    + [[8.0 - 8.0 * i / k, 4000.0] for i in range(k)] + [[0.0, 4000.0 - 4000.0 * i / k] for i in range(k)])
            yield "Polygon", [ring]
            yield "MultiPolygon", [[ring], [[[9.0, 0.0], [10.0, 0.0], [10.0, 125.0]]]]
        # rings and lines that pass through an earlier vertex again (six-vertex rings through their first vertex, closed contours and
        # figure-eights drawn as line strings): every listed vertex is part of the shape, in order
        a, b, c, d, e = [0.0, 0.0], [1.0, 1000.0], [2.0, 0.0], [0.25, 2000.0], [0.5, 4000.0]
        yield "Polygon", [[a, b, c, a, d, e]]
        yield "Polygon", [[[0.0, 0.0], [3.0, 0.0], [3.0, 5000.0], [0.0, 5000.0]], [[1.0, 1000.0], [2.0, 1000.0], [2.0, 2000.0], [1.0, 1000.0], [1.5, 3000.0], [1.25, 3500.0]]]
        yield "MultiPolygon", [[[a, b, c, a, d, e]], [[[5.0, 0.0], [6.0, 0.0], [6.0, 125.0]]]]
        yield "LineString", [[1.0, 1000.0], [3.0, 1000.0], [2.0, 3000.0], [1.0, 1000.0]]
        yield "LineString", [[1.0, 1000.0], [2.0, 2000.0], [1.0, 3000.0], [2.0, 2000.0], [3.0, 1000.0]]
        yield "LineString", [[1.0, 1000.0], [2.0, 2000.0], [1.0, 1000.0], [3.0, 500.0]]
        yield "MultiLineString", [[[1.0, 1000.0], [3.0, 1000.0], [2.0, 3000.0], [1.0, 1000.0], [4.0, 1000.0]]]
        # outlines with a zero-width 'whisker' (out to a tip and back along the same path) that carries the extreme time or
        # frequency: the bounds are those of the coordinates, whisker included
        for tip in ([3.0, 1000.0], [1.0, 2500.0], [-0.0, 500.0]):
            wring = [[0.5, 0.0], [2.0, 0.0], [2.0, 1000.0], tip, [2.0, 1000.0], [0.5, 1000.0]]
            yield "Polygon", [wring]
            yield "MultiPolygon", [[wring], [[[5.0, 0.0], [6.0, 0.0], [6.0, 125.0]]]]
        T, Fq = lattice("quick")
        for t0, t1, f0, f1 in rects(T, Fq):
            c = rect_corners(t0, t1, f0, f1)
            bow = [c[0], c[2], c[1], c[3]]
            yield "Polygon", [bow]
            yield "MultiPolygon", [[bow], [c]]
    else:
        raise ValueError(fam)


def self_crossing(gtype, coords):
    """True for the 'bow tie' rings of the odd family (4 vertices, the two diagonals used as edges) and for rings that revisit a
    vertex (whiskers): centroid / point-on-surface are shapely's business there."""
    rings = coords if gtype == "Polygon" else [r for poly in coords for r in poly] if gtype == "MultiPolygon" else []
    for r in rings:
        if len({tuple(p) for p in r}) < len(r):
            return True
        if len(r) == 4 and r[0][0] == r[3][0] and r[1][0] == r[2][0] and r[0][1] == r[2][1] and r[1][1] == r[3][1] \
                and r[0][0] != r[1][0] and r[0][1] != r[1][1]:
            return True
    return False


_COUNTS = {}


def family_counts(tier):
    if tier not in _COUNTS:
        _COUNTS[tier] = {fam: sum(1 for _ in family(fam, tier)) for fam in FAMILIES}
    return _COUNTS[tier]


def bounds(tier):
    T, Fq = lattice(tier)
    T3, F3 = sublattice(tier)
    return {
        "times": T, "frequencies": Fq, "sublattice_for_3_members": {"times": T3, "frequencies": F3},
        "max_points_per_line": max_len(tier)["line"], "max_points_per_multipoint": max_len(tier)["mpoint"],
        "multi_members": [1, 2, 3], "holes_per_polygon": [0, 1] if tier == "quick" else [0, 1, 2],
        "mpoly_pool_sizes": {"k2": len(mpoly_pool2(T, Fq, tier)), "k3": len(mpoly_pool3(tier))},
        "geometries_per_family": family_counts(tier),
        "orders": "every part of every family is walked twice in one process: in enumeration order and reversed",
        "positions": POSITIONS + SHAPELY_POSITIONS, "invalid_positions": INVALID,
    }


def blocks(tier):
    counts = family_counts(tier)
    total = sum(counts[f] * WEIGHT[f] for f in FAMILIES)
    out = []
    for fam in FAMILIES:
        parts = 1 if fam == "regroup" else max(1, min(48, round(112 * counts[fam] * WEIGHT[fam] / total)))
        for i in range(parts):
            n = len(range(i, counts[fam], parts))
            out.append({"fam": fam, "tier": tier, "part": i, "of": parts, "n": n})
    # every part once more, from its last geometry back to its first: the functions under test are specified as
    # functions of the geometry alone, so a value remembered from an earlier call (a conversion cache, say) must
    # not show in either order of any two geometries of a part
    return out + [dict(b, order="reversed") for b in out]


def run_block(block, rec):
    fam = block["fam"]
    n = 0
    members = itertools.islice(family(fam, block["tier"]), block["part"], None, block["of"])
    if block.get("order") == "reversed":
        members = reversed(list(members))
    for gtype, coords in members:
        rec.add(run_case({"fam": fam, "type": gtype, "coordinates": coords}))
        n += 1
    if block.get("order") == "reversed":
        rec.count("geometries_walked_in_reverse", n)
    if n != block["n"]:
        raise AssertionError("enumeration of %r gave %d cases, %d announced" % (block, n, block["n"]))


# ---------------------------------------------------------------- model side
def plain(c):
    """Coordinates held by a geometry object as nested lists of numbers."""
    if isinstance(c, (list, tuple)):
        return [plain(x) for x in c]
    return c


def model_positions(ext):
    t0, f0, t1, f1 = (F(x) for x in ext)
    tm, fm = (t0 + t1) / 2, (f0 + f1) / 2
    return {
        "bottom-left": (t0, f0), "bottom-right": (t1, f0), "top-left": (t0, f1), "top-right": (t1, f1),
        "center-left": (t0, fm), "center-right": (t1, fm), "top-center": (tm, f1), "bottom-center": (tm, f0),
        "center": (tm, fm),
    }


def model_features(gtype, coords, ext):
    t0, f0, t1, f1 = (F(x) for x in ext)
    feats = {"duration": t1 - t0}
    if not gm.is_time_only(gtype):
        feats.update(low_freq=f0, high_freq=f1, bandwidth=f1 - f0)
    if gtype.startswith("Multi"):
        feats["num_segments"] = F(gm.num_parts(gtype, coords))
    return feats


def closed(ring):
    ring = [tuple(p) for p in ring]
    return ring if ring[0] == ring[-1] and len(ring) > 3 else ring + [ring[0]]


def model_struct(gtype, coords, ext):
    """Expected coordinate structure of the converted shape (None where only a set of corners is prescribed)."""
    if gtype == "Point":
        return [tuple(coords)]
    if gtype == "LineString":
        return [tuple(p) for p in coords]
    if gtype == "Polygon":
        return [closed(r) for r in coords]
    if gtype == "MultiPoint":
        return [[tuple(p)] for p in coords]
    if gtype == "MultiLineString":
        return [[tuple(p) for p in l] for l in coords]
    if gtype == "MultiPolygon":
        return [[closed(r) for r in poly] for poly in coords]
    return None


# ---------------------------------------------------------------- observation of the implementation
def call(fn, *a):
    try:
        return ("ok", fn(*a))
    except Exception as e:  # noqa
        return ("reject" if is_rejection(e) else "crash", type(e).__name__)


def tup(seq):
    return [tuple(float(x) for x in p) for p in seq]


def poly_struct(p):
    return [tup(p.exterior.coords)] + [tup(r.coords) for r in p.interiors]


def shapely_struct(shp):
    k = shp.geom_type
    if k in ("Point", "LineString"):
        return tup(shp.coords)
    if k == "Polygon":
        return poly_struct(shp)
    if k in ("MultiPoint", "MultiLineString"):
        return [tup(g.coords) for g in shp.geoms]
    if k == "MultiPolygon":
        return [poly_struct(g) for g in shp.geoms]
    return None


def is_pair(r):
    return isinstance(r, tuple) and len(r) == 2 and all(isinstance(x, (int, float)) and not isinstance(x, bool) for x in r)


def tol(lo, hi):
    return 1e-9 * max(1.0, abs(float(lo)), abs(float(hi)))


def run_case(case):
    gtype, raw = case["type"], case["coordinates"]
    out = Out(case, key=[gtype, raw])
    n_calls = n_val = 0
    try:
        g = mkgeom(gtype, raw)
    except Exception as e:  # construction is C03's subject; a geometry that does not exist is not judged here
        out.vac("bounds_exact")
        out.klass = "%s:not_constructed:%s" % (gtype, type(e).__name__)
        out.transitions = out.validated = 0
        return out
    coords = plain(g.coordinates)
    exact = case.get("fam") != "odd"
    ext = gm.extent(gtype, coords)
    t0, f0, t1, f1 = ext
    exp_bounds = tuple(float(x) for x in ext)

    # --- geometry_to_shapely
    cls = {"fn": "geometry_to_shapely", "type": gtype}
    r = call(geometry_to_shapely, g)
    n_calls += 1
    n_val += 1
    if r[0] != "ok":
        out.fail("shapely_kind", r, KIND[gtype], cls)
        out.vac("shapely_coords")
    else:
        shp = r[1]
        kind = getattr(shp, "geom_type", type(shp).__name__)
        if out.expect("shapely_kind", kind == KIND[gtype], kind, KIND[gtype], cls):
            got = shapely_struct(shp)
            want = model_struct(gtype, coords, ext)
            if gtype == "TimeStamp":
                want = sorted([(t0, 0), (t0, MAXF)])
                out.expect("shapely_coords", sorted(got) == want, got, want, cls, "full-band vertical line")
            elif gtype in ("TimeInterval", "BoundingBox"):
                # the vertex order of a box is not prescribed by the input, and a zero-extent box may come back
                # with coincident corners merged: closed ring, no holes, vertex set == corner set
                corners = sorted({(t0, f0), (t0, f1), (t1, f0), (t1, f1)})
                okb = (len(got) == 1 and 4 <= len(got[0]) <= 5 and got[0][0] == got[0][-1]
                       and sorted(set(got[0])) == corners)
                out.expect("shapely_coords", okb, got, corners, cls, "closed ring over the four corners, no holes")
            else:
                out.expect("shapely_coords", got == want, got, want, cls, "input coordinates in order, rings closed")
        else:
            out.vac("shapely_coords")

    # --- compute_bounds
    cls = {"fn": "compute_bounds", "type": gtype}
    r = call(compute_bounds, g)
    n_calls += 1
    n_val += 1
    okb = r[0] == "ok" and isinstance(r[1], tuple) and len(r[1]) == 4 and tuple(r[1]) == exp_bounds
    out.expect("bounds_exact", okb, r, exp_bounds, cls)

    # --- compute_geometric_features
    cls = {"fn": "compute_geometric_features", "type": gtype}
    want = model_features(gtype, coords, ext)
    r = call(compute_geometric_features, g)
    n_calls += 1
    n_val += 1
    if r[0] != "ok" or not isinstance(r[1], list):
        out.fail("features", r, {k: float(v) for k, v in want.items()}, dict(cls, feature="<call>"))
    else:
        names = []
        values = {}
        for ft in r[1]:
            name = next((k for k, t in TERMS if ft.term == t), "?" + str(getattr(ft.term, "name", ft.term)))
            names.append(name)
            values.setdefault(name, ft.value)
        out.expect("features", len(names) == len(set(names)) and set(names) == set(want), sorted(names), sorted(want),
                   dict(cls, feature="<set>"), "exactly one feature per applicable term")
        for k, v in want.items():
            if k in values:
                got = values[k]
                okv = isinstance(got, (int, float)) and not isinstance(got, bool) and (
                    got == v if exact else abs(got - float(v)) <= 1e-9 * max(1.0, abs(float(v))))
                out.expect("features", okv, got, float(v), dict(cls, feature=k))

    # --- get_geometry_point: the nine anchor points and the default
    mp = model_positions(ext)
    for pos in [None] + POSITIONS:
        if pos is None:
            r = call(get_geometry_point, g)
            want, label = mp["bottom-left"], "<default>"
        else:
            r = call(get_geometry_point, g, pos)
            want, label = mp[pos], pos
        n_calls += 1
        n_val += 1
        if exact:
            okp = r[0] == "ok" and is_pair(r[1]) and r[1][0] == want[0] and r[1][1] == want[1]
        else:
            okp = r[0] == "ok" and is_pair(r[1]) and all(abs(r[1][i] - float(want[i])) <= 1e-9 * max(1.0, abs(float(want[i]))) for i in (0, 1))
        out.expect("positions", okp, r, (float(want[0]), float(want[1])), {"fn": "get_geometry_point", "position": label})

    # --- centroid and point on surface lie in the closed bounds
    tt, tf = tol(t0, t1), tol(f0, f1)
    for pos in SHAPELY_POSITIONS:
        if not exact and self_crossing(gtype, coords):
            out.vac("inside_bounds")
            continue
        r = call(get_geometry_point, g, pos)
        n_calls += 1
        n_val += 1
        okp = (r[0] == "ok" and is_pair(r[1]) and all(math.isfinite(x) for x in r[1])
               and t0 - tt <= r[1][0] <= t1 + tt and f0 - tf <= r[1][1] <= f1 + tf)
        out.expect("inside_bounds", okp, r, exp_bounds, {"fn": "get_geometry_point", "position": pos, "type": gtype})

    # --- unknown names
    for name in INVALID:
        r = call(get_geometry_point, g, name)
        n_calls += 1
        n_val += 1
        outcome = "returned" if r[0] == "ok" else ("%s:%s" % r)
        out.expect("invalid_position_rejected", r[0] == "reject", r, "ValueError",
                   {"fn": "get_geometry_point", "outcome": outcome}, {"name": name})

    # --- none of the calls above may have touched the geometry it was given
    now = plain(g.coordinates)
    out.expect("input_unmodified", now == coords, now, coords, {"type": gtype})

    out.transitions = n_calls
    out.validated = n_val
    dt, df = t1 > t0, f1 > f0
    out.nontrivial = dt and df
    shape = "area" if dt and df else "vline" if df else "hline" if dt else "dot"
    out.klass = "%s:%s%s" % (gtype, shape, ":viol" if out.viol else "")
    return out


def replay_case(case):
    return run_case(case)
