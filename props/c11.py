"""C11 — Buffering grows a geometry and never leaves the valid domain.

Explicit-state BFS over chains of ``buffer_geometry`` calls.  A *state* is a
geometry: a pooled geometry (depth 0) or the result of a chain of bufferings of
one (depth >= 1, non-initial states).  Expanding a state calls the real
``buffer_geometry`` with every enabled buffer vector (componentwise >= the last
one applied on the path) and judges every result against the reference model:
raw-coordinate re-validation (models.geometry.valid), set inclusion and extents
computed from raw coordinates (shapely is used as a computational-geometry
library on structures built here from raw coordinates; the function under test
and its helpers are never called by the oracle), Fraction closed forms for
TimeStamp / TimeInterval / BoundingBox.  ``monotone`` is judged for every
ordered pair b <= b' (b != b') of enabled buffer vectors of every state.

F11 (DESIGN.md section 5): the three known departures are judged literally.  The
violation classifier carries a ``kind`` decided from the INPUTS of the failing
call(s) (cap_polygonised | scale_precision | aspect_ratio | thin_input | other),
the pool identifier of the geometry ("<root>~<depth>" for chained states) and
the measured excess (in units of the buffer) rounded up on the 1-2-5 grid, so a
known-finding entry can pin {geom, kind, excess <= max}; nothing is tolerated by
the oracle itself.
"""
from __future__ import annotations

import math
from collections import deque
from fractions import Fraction as F

import numpy as np
import shapely
from shapely.errors import GEOSException

from soundevent.geometry import buffer_geometry

from mc.runner import Out
from models import geometry as gm
from props.common import GEOM_CLASSES, MAXF, is_rejection, mkgeom

ID = "C11"
RULE = (
    "[twins / representations / environment] two geometries of different type with the same coordinate numbers buffered one after the other; the buffers "
    "given as int / numpy int64 / uint16 / float32 / float64 (same result as for Python floats); every pooled geometry x buffer vector once more under "
    "numpy.errstate(all='raise') with warnings as errors (same result as in the default environment). "
    "BFS per pooled geometry over chains of buffer_geometry calls: a state is (geometry, last buffer vector); "
    "expanding a state executes every buffer vector (tb, fb) >= the last one componentwise (all 25 at depth 0) "
    "plus 24 vectors with a negative component, judges each result (valid_result, contains_original, "
    "bounds_extend, closed_form) and every ordered pair b <= b', b != b' of the enabled vectors (monotone); every "
    "accepted result is a new state (deduplicated on coordinates + last vector) expanded in turn while its depth "
    "is below the bound. One evaluation = one expanded state. A state is non-trivial when at least one monotone "
    "pair was judged on it and at least one of its results differs from the state's own coordinates; distinct = "
    "distinct (type, coordinates, last buffer vector). Failing contains_original / bounds_extend / monotone "
    "judgements of one state are reported as ONE violation per (oracle, kind) carrying the worst excess of the state "
    "(in buffer units, rounded up on the grid {1,2,5}x10^k with floor 1e-6); kind is decided from the inputs: "
    "scale_precision (a buffer is 0 and coordinates on that axis >= 1e5), cap_polygonised (point-/line-like input), "
    "thin_input (polygonal input with a part thinner than 1e-6 buffer units, 2*area/perimeter in the scaled metric), "
    "aspect_ratio (monotone pair of non-proportional vectors), other. Chained states carry the geom id '<root>~<depth>'."
)
ASSUMPTIONS = [
    "pool coordinates are dyadic (times multiples of 1/128 s, frequencies integers) and buffers are the fixed "
    "lists below; nothing is claimed off this lattice or for chains longer than the depth bound",
    "chained buffers are componentwise >= the previous ones (as the property's 'larger buffers' clause is stated); "
    "decreasing chains are not explored",
    "containment / monotone are judged as: exact shapely `covers`, else the uncovered part must lie within 1e-9 of "
    "the covering set in the metric scaled by the (larger) buffer vector (unit 1 s / 1 Hz on an axis whose buffer is 0); "
    "bounds are judged with a tolerance of 1e-9 relative to max(|original bound|, buffer) and no absolute floor",
    "shapely/GEOS (version in /venv) is part of the executed system and is also the oracle's set-algebra engine; "
    "inputs are valid, non-self-intersecting geometries",
    "extra **kwargs of buffer_geometry (forwarded to shapely.buffer) are not enumerated",
]

TB = [0.0, 2.0 ** -7, 0.5, 4.0, 1e9]
FB = [0.0, 1.0, 125.0, 1e4, 1e7]
ALPHABETS = {
    "quick": (list(TB), list(FB)),
    # thorough: the matcher's default buffers (0.01 s, 100 Hz) and two more regular values per axis
    "thorough": (sorted(TB + [0.01, 1.0]), sorted(FB + [100.0, 1000.0])),
}


def use_tier(tier):
    """Select the buffer alphabet of a tier (a run explores one tier; replays carry the tier in the case)."""
    global TB, FB, NEGATIVES
    TB, FB = ALPHABETS[tier or "quick"]
    NEGATIVES = negatives()
NEG = [-1.0, -(2.0 ** -20)]
REGULAR_TB = (2.0 ** -7, 4.0)  # buffer vectors whose results are fed to a further buffering (chains)
REGULAR_FB = (1.0, 1e4)
DEPTH = {"quick": 2, "thorough": 3}
TOL = 1e-9
LARGE = 1e5  # a coordinate x counts as "large" on a zero-buffer axis when x >= 1e5: x * 1e9 >= 1e14, where a double resolves no better than 1/64 of the unit buffer

THIN = 1e-6  # a polygon part is "thin" when 2*area/perimeter, in the metric scaled by the buffer vector, is below this many buffer units
GRID_FLOOR = 1e-6  # excess values below this share one bucket
LINELIKE = ("Point", "MultiPoint", "LineString", "MultiLineString")
POLYGONAL = ("Polygon", "MultiPolygon")
TIME_ONLY = ("TimeStamp", "TimeInterval")
CLOSED = ("TimeStamp", "TimeInterval", "BoundingBox")
M = MAXF

# --------------------------------------------------------------------------- pool
POOL = [
    # TimeStamp
    ("ts_0", "TimeStamp", 0), ("ts_128th", "TimeStamp", 2.0 ** -7), ("ts_half", "TimeStamp", 0.5),
    ("ts_3", "TimeStamp", 3), ("ts_4", "TimeStamp", 4), ("ts_4e", "TimeStamp", 4.125),
    ("ts_64", "TimeStamp", 64), ("ts_2p20", "TimeStamp", 1048576.5),
    # TimeInterval
    ("ti_00", "TimeInterval", [0, 0]), ("ti_01", "TimeInterval", [0, 1]), ("ti_22", "TimeInterval", [2, 2]),
    ("ti_half", "TimeInterval", [0.5, 1.5]), ("ti_35", "TimeInterval", [3, 5]), ("ti_4_4e", "TimeInterval", [4, 4.125]),
    ("ti_long", "TimeInterval", [1, 1000]), ("ti_8th", "TimeInterval", [0.125, 0.25]),
    # Point
    ("pt_00", "Point", [0, 0]), ("pt_0max", "Point", [0, M]), ("pt_f0", "Point", [1, 0]), ("pt_fmax", "Point", [1, M]),
    ("pt_mid", "Point", [1.5, 1000]), ("pt_near0", "Point", [0.125, 125]), ("pt_nearmax", "Point", [2, M - 125]),
    ("pt_tbig", "Point", [1048576, 1000]),
    # LineString
    ("ls_diag", "LineString", [[1, 1000], [2, 2000]]), ("ls_horiz", "LineString", [[1, 1000], [3, 1000]]),
    ("ls_vert", "LineString", [[1, 1000], [1, 3000]]), ("ls_bend", "LineString", [[1, 1000], [2, 2000], [3, 1250]]),
    ("ls_0max", "LineString", [[0, 0], [2, M]]), ("ls_floor", "LineString", [[0, 0], [2, 0]]),
    ("ls_ceil", "LineString", [[1, M], [3, M]]), ("ls_t0", "LineString", [[0, 500], [0, 2500]]),
    ("ls_zig", "LineString", [[0.5, 250], [1, 4000], [1.5, 250], [2, 4000]]),
    # Polygon
    ("poly_sq", "Polygon", [[[1, 1000], [2, 1000], [2, 2000], [1, 2000]]]),
    ("poly_tri", "Polygon", [[[1, 1000], [2, 1000], [2, 2000]]]),
    ("poly_acute", "Polygon", [[[1, 1000], [4, 1125], [1, 1250]]]),
    ("poly_hole", "Polygon", [[[1, 1000], [3, 1000], [3, 3000], [1, 3000]], [[1.5, 1500], [2.5, 1500], [2.5, 2500], [1.5, 2500]]]),
    ("poly_bighole", "Polygon", [[[0, 0], [40, 0], [40, 400000], [0, 400000]], [[10, 100000], [30, 100000], [30, 300000], [10, 300000]]]),
    ("poly_origin", "Polygon", [[[0, 0], [1, 0], [1, 1000], [0, 1000]]]),
    ("poly_top", "Polygon", [[[1, M - 1000], [2, M - 1000], [2, M], [1, M]]]),
    ("poly_band", "Polygon", [[[0, 0], [2, 0], [2, M], [0, M]]]),
    ("poly_concave", "Polygon", [[[1, 1000], [3, 1000], [3, 3000], [2, 1500], [1, 3000]]]),
    # BoundingBox
    ("bb_mid", "BoundingBox", [1, 1000, 2, 2000]), ("bb_origin", "BoundingBox", [0, 0, 1, 1000]),
    ("bb_top", "BoundingBox", [1, M - 1000, 2, M]), ("bb_full", "BoundingBox", [0, 0, 4, M]),
    ("bb_degen", "BoundingBox", [2, 1000, 2, 1000]), ("bb_line", "BoundingBox", [1, 1000, 3, 1000]),
    ("bb_edge", "BoundingBox", [4, 125, 4.5, M - 10000]), ("bb_near", "BoundingBox", [0.5, 1, 1.5, M - 1]),
    # MultiPoint
    ("mp_two", "MultiPoint", [[1, 1000], [2, 2000]]), ("mp_one", "MultiPoint", [[1.5, 1000]]),
    ("mp_corners", "MultiPoint", [[0, 0], [0, M], [2, 0], [2, M]]),
    ("mp_close", "MultiPoint", [[1, 1000], [1.0078125, 1001]]), ("mp_far", "MultiPoint", [[1, 1000], [100, 400000]]),
    ("mp_dup", "MultiPoint", [[1, 1000], [1, 1000]]), ("mp_t0", "MultiPoint", [[0, 500], [0, 1500]]),
    ("mp_three", "MultiPoint", [[1, 1000], [2, 2000], [3, 3000]]),
    # MultiLineString (every line must start strictly before it ends)
    ("ml_two", "MultiLineString", [[[1, 1000], [2, 2000]], [[1, 3000], [2, 2500]]]),
    ("ml_one", "MultiLineString", [[[1, 1000], [2, 2000]]]),
    ("ml_cross", "MultiLineString", [[[1, 1000], [3, 3000]], [[1, 3000], [3, 1000]]]),
    ("ml_far", "MultiLineString", [[[0, 0], [1, 125]], [[50, 400000], [51, 400125]]]),
    ("ml_floor", "MultiLineString", [[[0, 0], [2, 0]], [[3, 0], [4, 125]]]),
    ("ml_ceil", "MultiLineString", [[[0, M], [2, M]], [[1, M - 125], [3, M - 250]]]),
    ("ml_touch", "MultiLineString", [[[1, 1000], [2, 2000]], [[2, 2000], [3, 1250]]]),
    ("ml_zig", "MultiLineString", [[[0.5, 250], [1, 4000], [1.5, 250]], [[2, 250], [2.5, 4000]]]),
    # MultiPolygon
    ("mpoly_two", "MultiPolygon", [[[[1, 1000], [2, 1000], [2, 2000], [1, 2000]]], [[[3, 1000], [4, 1000], [4, 2000]]]]),
    ("mpoly_one", "MultiPolygon", [[[[1, 1000], [2, 1000], [2, 2000], [1, 2000]]]]),
    ("mpoly_hole", "MultiPolygon", [
        [[[1, 1000], [3, 1000], [3, 3000], [1, 3000]], [[1.5, 1500], [2.5, 1500], [2.5, 2500], [1.5, 2500]]],
        [[[5, 1000], [6, 1000], [6, 2000]]]]),
    ("mpoly_far", "MultiPolygon", [[[[0, 0], [1, 0], [1, 125]]], [[[50, 400000], [51, 400000], [51, 400125], [50, 400125]]]]),
    ("mpoly_near", "MultiPolygon", [[[[1, 1000], [2, 1000], [2, 2000], [1, 2000]]], [[[2.25, 1000], [3, 1000], [3, 2000], [2.25, 2000]]]]),
    ("mpoly_corners", "MultiPolygon", [[[[0, 0], [1, 0], [0, 1000]]], [[[1, M], [2, M], [2, M - 1000]]]]),
    ("mpoly_nested", "MultiPolygon", [
        [[[0, 0], [40, 0], [40, 400000], [0, 400000]], [[10, 100000], [30, 100000], [30, 300000], [10, 300000]]],
        [[[19, 190000], [21, 190000], [21, 210000], [19, 210000]]]]),
    # two members that partially overlap (the union is what is buffered: the doubly covered region belongs to the geometry)
    ("mpoly_overlap", "MultiPolygon", [[[[1, 1000], [3, 1000], [3, 3000], [1, 3000]]], [[[2, 2000], [4, 2000], [4, 4000], [2, 4000]]]]),
    ("mpoly_acute", "MultiPolygon", [[[[1, 1000], [4, 1125], [1, 1250]]], [[[1, 3000], [1.125, 1500], [1.25, 3000]]]]),
]
POOL_IDS = [p[0] for p in POOL]
POOL_BY_ID = {p[0]: (p[1], p[2]) for p in POOL}
assert len(POOL_BY_ID) == len(POOL)
for _pid, _t, _c in POOL:
    assert gm.valid(_t, _c), _pid


def bounds(tier):
    return {
        "pool": {t: [p[0] for p in POOL if p[1] == t] for t in gm.TYPES},
        "time_buffers": ALPHABETS[tier][0], "freq_buffers": ALPHABETS[tier][1], "negative_buffers": NEG,
        "chain_depth": DEPTH[tier], "containment_tolerance_scaled": TOL, "bounds_tolerance_relative": TOL,
        "large_coordinate_threshold_on_zero_buffer_axis": LARGE,
        "thin_polygon_threshold_buffer_units": THIN, "excess_grid": "{1,2,5}x10^k rounded up, floor %g" % GRID_FLOOR,
    }


# --------------------------------------------------------------------------- raw structures
def raw(x):
    """Plain nested lists / numbers of a pydantic geometry's coordinates."""
    if isinstance(x, (list, tuple)):
        return [raw(y) for y in x]
    return x


def to_shape(gtype, c):
    """Shapely object from raw coordinates (2-D types only); written here, not via soundevent."""
    if gtype == "Point":
        return shapely.Point(c)
    if gtype == "MultiPoint":
        return shapely.MultiPoint(c)
    if gtype == "LineString":
        return shapely.LineString(c)
    if gtype == "MultiLineString":
        return shapely.MultiLineString(c)
    if gtype == "Polygon":
        return shapely.Polygon(c[0], c[1:])
    if gtype == "MultiPolygon":
        polys = [shapely.Polygon(p[0], p[1:]) for p in c]
        mp = shapely.MultiPolygon(polys)
        # members may overlap: the point set of the geometry is the union of its members (an overlapping collection is not a valid
        # GEOS geometry and could not be compared)
        return mp if mp.is_valid else shapely.union_all(polys)
    if gtype == "BoundingBox":
        return shapely.box(c[0], c[1], c[2], c[3])
    raise ValueError(gtype)


def grid_up(x):
    """Smallest value of the grid {1, 2, 5} x 10^k that is >= x (x > 0); 'inf' when not finite."""
    if not (x == x) or x == math.inf:
        return "inf"
    if x <= GRID_FLOOR:
        return GRID_FLOOR
    k = math.floor(math.log10(x))
    for kk in (k - 1, k, k + 1):
        for m in (1, 2, 5):
            g = float("%de%d" % (m, kk))
            if x <= g:
                return g
    return float("1e%d" % (k + 2))


def units(b):
    return (b[0] if b[0] > 0 else 1.0, b[1] if b[1] > 0 else 1.0)


def _probe_points(d):
    """Vertices of d plus one interior probe per part (midpoint of a line part, centre of the largest
    inscribed circle of a polygon part) so that an uncovered region whose vertices all lie on the covering
    set's boundary (a hole, a chord across a notch) is still measured."""
    pts = [shapely.get_coordinates(d)]
    for part in shapely.get_parts(d).tolist():
        tid = shapely.get_type_id(part)
        if tid in (1, 2):  # LineString / LinearRing
            pts.append(shapely.get_coordinates(part.interpolate(0.5, normalized=True)))
        elif tid == 3:
            try:
                x0, y0, x1, y1 = part.bounds
                mic = shapely.maximum_inscribed_circle(part, tolerance=max(x1 - x0, y1 - y0) / 64.0)
                pts.append(shapely.get_coordinates(mic)[:1])
            except GEOSException:
                pts.append(shapely.get_coordinates(part.representative_point()))
    return np.concatenate(pts) if pts else np.zeros((0, 2))


def cover_excess(small, big, u):
    """0.0 when `big` covers `small`; otherwise how far (in the metric in which u = (ut, uf) is the unit on
    each axis) the uncovered part of `small` reaches beyond `big`.  None when GEOS cannot compute it."""
    try:
        if big.is_empty:
            return 0.0 if small.is_empty else math.inf
        if big.covers(small):
            return 0.0
        f = np.array([1.0 / u[0], 1.0 / u[1]])
        S = shapely.transform(small, lambda x: x * f)
        B = shapely.transform(big, lambda x: x * f)
        d = S.difference(B)
        if d.is_empty:
            return 0.0
        p = _probe_points(d)
        if len(p) == 0:
            return 0.0
        dist = shapely.distance(shapely.points(p), B)
        return float(np.nanmax(dist))
    except GEOSException:
        return None


# --------------------------------------------------------------------------- model pieces
def model_closed(gtype, c, tb, fb):
    tb, fb = F(tb), F(fb)
    if gtype == "TimeStamp":
        return "TimeInterval", [max(F(c) - tb, F(0)), F(c) + tb]
    if gtype == "TimeInterval":
        return "TimeInterval", [max(F(c[0]) - tb, F(0)), F(c[1]) + tb]
    t0, f0, t1, f1 = (F(x) for x in c)
    return "BoundingBox", [max(t0 - tb, F(0)), max(f0 - fb, F(0)), t1 + tb, min(f1 + fb, F(M))]


def large_on_zero_axis(ext, b):
    return (b[0] == 0 and ext[2] >= LARGE) or (b[1] == 0 and ext[3] >= LARGE)


def proportional(b, b2):
    """b2 = k * b for some k > 0 (same tb : fb ratio)."""
    if (b[0] == 0 and b[1] == 0) or (b2[0] == 0 and b2[1] == 0):
        return b == b2
    return F(b[0]) * F(b2[1]) == F(b2[0]) * F(b[1]) and (b[0] > 0) == (b2[0] > 0) and (b[1] > 0) == (b2[1] > 0)


def thickness(gtype, c, b):
    """Smallest 2*area/perimeter over the polygon parts of (gtype, c), in units of the buffer vector b
    (unit 1 on an axis whose buffer is 0).  Computed from the raw coordinates with the shoelace formula."""
    u = units(b)
    polys = [c] if gtype == "Polygon" else c
    best = math.inf
    for poly in polys:
        ring = [(p[0] / u[0], p[1] / u[1]) for p in poly[0]]
        if ring[0] != ring[-1]:
            ring.append(ring[0])
        a = 0.0
        per = 0.0
        for (x0, y0), (x1, y1) in zip(ring, ring[1:]):
            a += x0 * y1 - x1 * y0
            per += math.hypot(x1 - x0, y1 - y0)
        best = min(best, abs(a) / per if per > 0 else 0.0)
    return best


def kind_single(gtype, c, ext, b):
    """Input class of a failing single call (contains_original / bounds_extend), decided from the inputs only:
    scale_precision  a buffer is 0 and the coordinates on that axis are >= LARGE (x * 1e9 loses the unit buffer);
    cap_polygonised  point-like / line-like input (the only inputs that get round caps);
    thin_input       polygonal input with a part thinner than THIN buffer units (degenerate at the buffer's scale);
    other            everything else."""
    if gtype in CLOSED:
        return "other"
    if large_on_zero_axis(ext, b):
        return "scale_precision"
    if gtype in LINELIKE:
        return "cap_polygonised"
    if gtype in POLYGONAL and thickness(gtype, c, b) < THIN:
        return "thin_input"
    return "other"


def kind_pair(gtype, c, ext, b, b2):
    """Input class of a failing monotone pair b <= b2: as kind_single for either vector, then
    aspect_ratio when the two vectors are not proportional (different tb : fb ratio)."""
    if gtype in CLOSED:
        return "other"
    if large_on_zero_axis(ext, b) or large_on_zero_axis(ext, b2):
        return "scale_precision"
    if gtype in POLYGONAL and min(thickness(gtype, c, b), thickness(gtype, c, b2)) < THIN:
        return "thin_input"
    if not proportional(b, b2):
        return "aspect_ratio"
    if gtype in LINELIKE:
        return "cap_polygonised"
    return "other"


def enabled(last):
    return [(tb, fb) for tb in TB if tb >= last[0] for fb in FB if fb >= last[1]]


def negatives():
    out = []
    for n in NEG:
        for fb in FB + NEG:
            out.append((n, fb))
        for tb in TB:
            out.append((tb, n))
    return out


NEGATIVES = negatives()


def call(g, tb, fb):
    try:
        return ("ok", buffer_geometry(g, time_buffer=tb, freq_buffer=fb))
    except Exception as e:  # noqa
        return ("reject" if is_rejection(e) else "crash", "%s: %s" % (type(e).__name__, str(e)[:160]))


class Worst:
    """Aggregates the failing judgements of one state per (oracle, kind): count, worst excess, examples."""

    def __init__(self):
        self.groups = {}

    def add(self, oracle, kind, excess, example):
        g = self.groups.setdefault((oracle, kind), {"n": 0, "excess": -1.0, "worst": None, "first": []})
        g["n"] += 1
        e = math.inf if (excess is None or excess != excess) else excess
        if e > g["excess"]:
            g["excess"] = e
            g["worst"] = example
        if len(g["first"]) < 3:
            g["first"].append(example)


def geom_id(root, depth):
    return root if depth == 0 else "%s~%d" % (root, depth)


# --------------------------------------------------------------------------- one state
def eval_state(root, chain, g):
    """Expand one state: execute every enabled buffer vector on the real implementation and judge.

    Returns (Out, successors, extra counters); successors = [(buffer vector, result geometry)].
    """
    depth = len(chain)
    last = tuple(chain[-1]) if chain else (0.0, 0.0)
    gtype = g.type
    c = raw(g.coordinates)
    case = {"geom": root, "chain": [list(b) for b in chain]}
    if TB is not ALPHABETS["quick"][0]:
        case["tier"] = "thorough"
    out = Out(case, key=[gtype, c, list(last)])
    gid = geom_id(root, depth)
    base_cls = {"fn": "buffer_geometry", "geom": gid, "root": root, "depth": depth}
    if TB is not ALPHABETS["quick"][0]:
        base_cls["alphabet"] = "thorough"
    ext = gm.extent(gtype, c)
    time_only = gtype in TIME_ONLY
    shp0 = None if time_only else to_shape(gtype, c)
    worst = Worst()
    extra = {}
    ops = enabled(last)
    results = {}
    succ = []
    ncalls = 0
    nval = 0
    rtypes = set()
    clamp = set()
    changed = False

    for b in ops:
        tb, fb = b
        st, r = call(g, tb, fb)
        ncalls += 1
        # ---- valid_result
        if st != "ok":
            out.fail("valid_result", [st, r], "a valid geometry", dict(base_cls, kind="exception", exc=r.split(":")[0], type=gtype),
                     {"tb": tb, "fb": fb})
            continue
        if not isinstance(r, tuple(GEOM_CLASSES.values())) or getattr(r, "type", None) not in GEOM_CLASSES \
                or not isinstance(r, GEOM_CLASSES[r.type]):
            out.fail("valid_result", repr(r)[:200], "a soundevent geometry object", dict(base_cls, kind="not_a_geometry", type=gtype),
                     {"tb": tb, "fb": fb})
            continue
        rt = r.type
        rc = raw(r.coordinates)
        nval += 1
        if gm.valid(rt, rc):
            out.ok("valid_result")
        else:
            out.fail("valid_result", {"type": rt, "why": gm.why_invalid(rt, rc)}, "all t >= 0, all f in [0, MAX]",
                     dict(base_cls, kind="invalid_coordinates", type=gtype),
                     {"tb": tb, "fb": fb, "coordinates": rc if len(repr(rc)) < 600 else repr(rc)[:600]})
            continue
        rtypes.add(rt)
        rext = gm.extent(rt, rc)
        if rc != c:
            changed = True
        # ---- closed_form
        if gtype in CLOSED:
            et, ec = model_closed(gtype, c, tb, fb)
            got = rc if isinstance(rc, list) else [rc]
            okc = rt == et and len(got) == len(ec) and all(float(x) == float(y) for x, y in zip(got, ec))
            out.expect("closed_form", okc, {"type": rt, "coordinates": rc}, {"type": et, "coordinates": [float(x) for x in ec]},
                       dict(base_cls, kind="closed_form", type=gtype), {"tb": tb, "fb": fb})
        else:
            out.vac("closed_form")  # no closed form is stated for the six shapely-backed types
        # ---- bounds_extend (relative tolerance only, measured against the operands' magnitude)
        want = [
            ("t0", max(ext[0] - tb, 0.0), ext[0], tb, -1),
            ("f0", max(ext[1] - fb, 0.0), ext[1], fb, -1),
            ("t1", ext[2] + tb, ext[2], tb, +1),
            ("f1", min(ext[3] + fb, float(M)), ext[3], fb, +1),
        ]
        for i, (name, w, o, bb, sign) in enumerate(want):
            if time_only and name[0] == "f":
                out.vac("bounds_extend")
                continue
            if (name == "t0" and ext[0] - tb <= 0) or (name == "f0" and ext[1] - fb <= 0) or (name == "f1" and ext[3] + fb >= M):
                clamp.add(name)
            gotv = rext[i]
            short = (gotv - w) if sign < 0 else (w - gotv)  # > 0: the bound falls short of the requested one
            tol = TOL * max(abs(o), abs(bb))
            if short <= tol:
                out.ok("bounds_extend")
            else:
                u = bb if bb > 0 else 1.0
                worst.add("bounds_extend", kind_single(gtype, c, ext, b), short / u,
                          {"tb": tb, "fb": fb, "bound": name, "got": gotv, "want": w, "shortfall_in_buffers": short / u})
        # ---- contains_original
        if time_only:
            out.expect("contains_original", rext[0] <= ext[0] and rext[2] >= ext[2], [rext[0], rext[2]], [ext[0], ext[2]],
                       dict(base_cls, kind="other", excess="inf"), {"tb": tb, "fb": fb})
            shp = None
        else:
            shp = to_shape(rt, rc)
            ex = cover_excess(shp0, shp, units(b))
            if ex is None:
                out.vac("contains_original")
                extra["geos_failure"] = extra.get("geos_failure", 0) + 1
            elif ex <= TOL:
                out.ok("contains_original")
            else:
                worst.add("contains_original", kind_single(gtype, c, ext, b), ex,
                          {"tb": tb, "fb": fb, "uncovered_reach_in_buffers": ex})
        results[b] = (rt, rc, rext, shp)
        succ.append((b, r))

    # ---- monotone: every ordered pair b <= b' (b != b') of enabled vectors with two accepted results
    npairs = 0
    for b in ops:
        if b not in results:
            continue
        for b2 in ops:
            if b2 == b or not (b[0] <= b2[0] and b[1] <= b2[1]) or b2 not in results:
                continue
            npairs += 1
            rt, rc, rext, shp = results[b]
            rt2, rc2, rext2, shp2 = results[b2]
            if time_only:
                out.expect("monotone", rext2[0] <= rext[0] and rext2[2] >= rext[2], [rext, rext2], "larger buffer gives superset",
                           dict(base_cls, kind="other", excess="inf"), {"b": list(b), "b2": list(b2)})
                continue
            ex = cover_excess(shp, shp2, units(b2))
            if ex is None:
                out.vac("monotone")
                extra["geos_failure"] = extra.get("geos_failure", 0) + 1
            elif ex <= TOL:
                out.ok("monotone")
            else:
                worst.add("monotone", kind_pair(gtype, c, ext, b, b2), ex,
                          {"b": list(b), "b2": list(b2), "protrusion_in_larger_buffers": ex})

    # ---- negative_rejected
    for tb, fb in NEGATIVES:
        st, r = call(g, tb, fb)
        ncalls += 1
        nval += 1
        out.expect("negative_rejected", st == "reject", [st, r if st != "ok" else type(r).__name__], "ValueError",
                   dict(base_cls, kind="negative_accepted" if st == "ok" else "wrong_exception", type=gtype), {"tb": tb, "fb": fb})

    # ---- aggregated literal failures (F11 classes): one violation per (oracle, kind) of this state
    for (oracle, kind), grp in sorted(worst.groups.items()):
        cls = dict(base_cls, kind=kind, excess=grid_up(grp["excess"]))
        out.fail(oracle, {"failing_judgements": grp["n"], "worst_excess_in_buffers": grp["excess"], "worst": grp["worst"]},
                 "covered / reached within 1e-9 (scaled)", cls, {"first": grp["first"], "state_type": gtype})
        extra["failing_%s_%s" % (oracle, kind)] = extra.get("failing_%s_%s" % (oracle, kind), 0) + grp["n"]

    out.transitions = ncalls
    out.validated = nval
    out.nontrivial = npairs > 0 and changed
    out.klass = "d%d:%s->%s%s" % (depth, gtype, "+".join(sorted(rtypes)) or "none",
                                 (" clamp:" + ",".join(sorted(clamp))) if clamp else "")
    extra["monotone_pairs"] = npairs
    return out, succ, extra


# --------------------------------------------------------------------------- blocks / BFS
# --------------------------------------------------------------------------- twins: same numbers, different type
# Geometries of two types whose coordinate lists are literally the same numbers, buffered one after the other in the same process.
# The second result is compared with the result for the same geometry moved by SHIFT seconds (a translation no other call of this
# check uses): same area, bounds moved by SHIFT.  Every (pair, order, buffer) uses coordinates of its own.
TWINS = [
    ("MultiPoint", "LineString", [[1.0, 1000.0], [2.0, 2000.0]]),
    ("MultiLineString", "Polygon", [[[1.0, 1000.0], [3.0, 1000.0], [3.0, 3000.0]]]),
]
TWIN_BUFFERS = [(0.5, 125.0), (2.0 ** -7, 1.0), (4.0, 1e4)]
SHIFT = 16.0


def _moved(c, dt, df):
    if isinstance(c[0], list):
        return [_moved(y, dt, df) for y in c]
    return [c[0] + dt, c[1] + df]


def twin_cases():
    k = 0
    for ta, tb_, coords in TWINS:
        for first, second in ((ta, tb_), (tb_, ta)):
            for b in TWIN_BUFFERS:
                k += 1
                yield {"twin": k, "first": first, "second": second, "coords": _moved(coords, 32.0 * k, 7.0 * k), "buffer": list(b)}


def run_twin(case):
    out = Out(case)
    c, (tb, fb) = case["coords"], case["buffer"]
    cls = {"kind": "twin", "first": case["first"], "second": case["second"], "geom": "twin", "root": "twin", "depth": 0}
    try:
        ga, gb, gref = mkgeom(case["first"], c), mkgeom(case["second"], c), mkgeom(case["second"], _moved(c, SHIFT, 0.0))
    except Exception as e:  # noqa
        out.fail("pool_constructible", "%s: %s" % (type(e).__name__, str(e)[:200]), "valid geometry accepted", cls)
        return out
    ra, rb, rref = call(ga, tb, fb), call(gb, tb, fb), call(gref, tb, fb)
    out.transitions = 3
    out.validated = 3
    out.nontrivial = True
    if not (ra[0] == rb[0] == rref[0] == "ok"):
        out.fail("same_numbers_other_type", [ra[0], rb[0], rref[0]], "three results", dict(cls, what="call"))
        return out
    sb, sref = to_shape(rb[1].type, raw(rb[1].coordinates)), to_shape(rref[1].type, raw(rref[1].coordinates))
    rel = abs(sb.area - sref.area) / max(sref.area, 1e-300)
    out.expect("same_numbers_other_type", rel <= 1e-6, {"area": sb.area, "area_of_translated": sref.area, "rel": rel},
               "same area as the translated geometry's result", dict(cls, what="area"))
    bb, br = sb.bounds, sref.bounds
    okb = all(abs(bb[i] - (br[i] - (SHIFT if i in (0, 2) else 0.0))) <= 1e-6 * max(1.0, abs(bb[i])) for i in range(4))
    out.expect("same_numbers_other_type", okb, {"bounds": bb, "bounds_of_translated": br}, "bounds moved by %g s" % SHIFT,
               dict(cls, what="bounds"))
    out.klass = "twin:%s" % ("same" if not out.viol else "differs")
    return out


# --------------------------------------------------------------------------- same value, other representation / environment
REPR_GEOMS = ["ts_3", "ti_01", "pt_mid", "bb_mid", "ls_diag", "poly_sq", "mp_two", "ml_two", "mpoly_two"]
REPR_BUFFERS = [(2.0, 100.0), (1.0, 1.0), (0.0, 100.0), (2.0, 0.0), (0.5, 125.0)]
REPRS = ["int", "np_int64", "np_uint16", "np_float32", "np_float64"]


def as_repr(x, rep):
    """x in the given representation, or None when the representation cannot hold the value exactly."""
    if rep == "np_float64":
        return np.float64(x)
    if rep == "np_float32":
        return np.float32(x) if float(np.float32(x)) == x else None
    if x != int(x):
        return None
    return {"int": int, "np_int64": np.int64, "np_uint16": np.uint16}[rep](int(x))


def same_geometry(a, b):
    if a.type != b.type:
        return False
    fa, fb = np.asarray(_flat(raw(a.coordinates)), dtype=float), np.asarray(_flat(raw(b.coordinates)), dtype=float)
    return fa.shape == fb.shape and bool(np.all(np.abs(fa - fb) <= 1e-9 * np.maximum(1.0, np.abs(fb))))


def _flat(c):
    if isinstance(c, list):
        return [v for y in c for v in _flat(y)]
    return [c]


def constructible(gtype, coords):
    try:
        mkgeom(gtype, coords)
        return True
    except Exception:  # noqa
        return False


def run_repr(case):
    """buffer_geometry with the two buffers handed over as int / numpy scalars gives what it gives for Python floats."""
    out = Out(case)
    gtype, coords = POOL_BY_ID[case["geom"]]
    tb, fb = case["buffer"]
    if not constructible(gtype, coords):
        out.vac("same_value_other_representation")  # reported as pool_constructible by the geometry's own block
        out.klass = "repr:not_constructible"
        return out
    ref = call(mkgeom(gtype, coords), tb, fb)
    out.transitions = 1
    cls = {"kind": "representation", "rep": case["rep"], "type": gtype, "geom": "repr", "root": "repr", "depth": 0}
    a, b = as_repr(tb, case["rep"]), as_repr(fb, case["rep"])
    if a is None or b is None or ref[0] != "ok":
        out.vac("same_value_other_representation")
        out.klass = "repr:not_applicable"
        return out
    r = call(mkgeom(gtype, coords), a, b)
    out.transitions = out.validated = 2
    out.nontrivial = True
    okay = r[0] == "ok" and same_geometry(r[1], ref[1])
    out.expect("same_value_other_representation", okay, [r[0], r[1] if r[0] != "ok" else [r[1].type, raw(r[1].coordinates)]],
               [ref[1].type, raw(ref[1].coordinates)], cls)
    out.klass = "repr:%s" % ("same" if okay else "differs")
    return out


def run_strict(case):
    """The same call with numpy floating-point errors raised and warnings turned into errors gives the same result: the
    outcome must not depend on the error state / warning filters of the calling process."""
    import warnings
    out = Out(case)
    gtype, coords = POOL_BY_ID[case["geom"]]
    tb, fb = case["buffer"]
    if not constructible(gtype, coords):
        out.vac("same_result_in_strict_environment")  # reported as pool_constructible by the geometry's own block
        out.klass = "strict:not_constructible"
        return out
    ref = call(mkgeom(gtype, coords), tb, fb)
    with warnings.catch_warnings():
        warnings.simplefilter("error")
        with np.errstate(all="raise"):
            r = call(mkgeom(gtype, coords), tb, fb)
    out.transitions = out.validated = 2
    out.nontrivial = True
    cls = {"kind": "strict_environment", "type": gtype, "geom": "strict", "root": "strict", "depth": 0}
    if ref[0] != "ok":
        out.vac("same_result_in_strict_environment")  # failures of the plain call are judged by the pool blocks
        out.klass = "strict:plain_call_failed"
        return out
    okay = r[0] == "ok" and same_geometry(r[1], ref[1])
    out.expect("same_result_in_strict_environment", okay, [r[0], r[1] if r[0] != "ok" else raw(r[1].coordinates)], "as in the default environment", cls)
    out.klass = "strict:%s" % ("same" if okay else "differs")
    return out


# --------------------------------------------------------------------------- frequency buffers whose reciprocal does not round-trip
MAXF_GEOMS = ["pt_fmax", "ls_ceil", "poly_top", "bb_top", "mp_corners", "ml_ceil", "pt_0max"]
MAXF_BUFFERS = [17.0, 34.0, 68.0, 136.0, 272.0, 285.0, 544.0, 3.0, 7.0, 0.1, 1.0 / 3.0, 22050.5]


# --------------------------------------------------------------------------- dense outlines (hundreds of vertices)
DENSE = {
    "ellipse300": ("Polygon", [[[2.0 + 0.2 * math.cos(2 * math.pi * i / 300), 3000.0 + 2000.0 * math.sin(2 * math.pi * i / 300)]
                                for i in range(300)]]),
    "whistle501": ("LineString", [[1.0 + i / 250.0, 4000.0 + 1500.0 * math.sin(i / 20.0)] for i in range(501)]),
}
DENSE_BUFFERS = [(0.01, 100.0), (0.5, 125.0), (2.0 ** -7, 1.0)]
DENSE_TOL = 1e-6  # in buffer units: GEOS offsets a many-vertex outline to ~1e-8 of the buffer (see the open C11 findings)


def run_dense(case):
    """Containment and reach of the bounds for outlines of hundreds of vertices (one state per geometry and buffer vector)."""
    out = Out(case)
    gtype, coords = DENSE[case["geom"]]
    tb, fb = case["buffer"]
    r = call(mkgeom(gtype, coords), tb, fb)
    out.transitions = out.validated = 1
    out.nontrivial = True
    cls = {"kind": "dense_outline", "type": gtype, "geom": case["geom"], "root": "dense", "depth": 0, "fn": "buffer_geometry"}
    if r[0] != "ok":
        out.fail("valid_result", list(r), "a valid geometry", cls)
        return out
    res = to_shape(r[1].type, raw(r[1].coordinates))
    orig = to_shape(gtype, coords)
    exc = cover_excess(orig, res, units((tb, fb)))
    out.expect("contains_original", exc is not None and exc <= DENSE_TOL, exc, "<= 1e-6 buffer units", cls)
    ob, rb = orig.bounds, res.bounds
    short = max((rb[0] - max(ob[0] - tb, 0.0)) / tb, (ob[2] + tb - rb[2]) / tb,
                (rb[1] - max(ob[1] - fb, 0.0)) / fb, (min(ob[3] + fb, M) - rb[3]) / fb)
    # the line's ends are oblique: its round caps are polygonised (an open finding, <= 0.5 % of the buffer), so its bounds get that much slack
    tol = DENSE_TOL if gtype == "Polygon" else 0.005
    out.expect("bounds_extend", short <= tol, {"shortfall_in_buffers": short}, "bounds reach the original's +/- buffer", cls)
    out.klass = "dense:%s" % ("ok" if not out.viol else "viol")
    return out


# --------------------------------------------------------------------------- geometries hours into a recording
HOURS = {
    "pt_3h": ("Point", [10800.0, 1000.0]), "pt_day": ("Point", [86459.94, 22050.5]),
    "mp_3h": ("MultiPoint", [[12000.0, 1000.0], [12000.0, 3000.0]]), "ls_vert_10h": ("LineString", [[36000.0, 500.0], [36000.0, 2500.0]]),
    "ts_10h": ("TimeStamp", 36000.0), "ls_10h": ("LineString", [[36000.0, 500.0], [36001.5, 2500.0]]),
}
HOURS_BUFFERS = [(0.0, 100.0), (0.0, 1.0), (0.5, 0.0), (0.5, 125.0)]


def run_hours(case):
    """A valid result that covers the original for geometries two to twenty-four hours into a recording (between the pooled
    small times and the pooled 2^20 s), zero buffers included."""
    out = Out(case)
    gtype, coords = HOURS[case["geom"]]
    tb, fb = case["buffer"]
    r = call(mkgeom(gtype, coords), tb, fb)
    out.transitions = out.validated = 1
    out.nontrivial = True
    cls = {"kind": "hours_into_recording", "type": gtype, "geom": case["geom"], "root": "hours", "depth": 0, "fn": "buffer_geometry"}
    if not out.expect("valid_result", r[0] == "ok", list(r) if r[0] != "ok" else None, "a valid geometry", cls):
        return out
    if gtype in TIME_ONLY:
        return out
    res = to_shape(r[1].type, raw(r[1].coordinates))
    exc = cover_excess(to_shape(gtype, coords), res, units((tb, fb)))
    out.expect("contains_original", exc is not None and exc <= DENSE_TOL, exc, "<= 1e-6 buffer units", cls)
    out.klass = "hours:%s" % ("ok" if not out.viol else "viol")
    return out


def run_maxf(case):
    """Geometries that reach MAX_FREQUENCY buffered in frequency by values b with (MAX * (1 / b)) / (1 / b) != MAX in doubles (and a
    few others): the result is a geometry of the domain (the call returns; nothing above MAX_FREQUENCY)."""
    out = Out(case)
    gtype, coords = POOL_BY_ID[case["geom"]]
    out.transitions = out.validated = 1
    out.nontrivial = True
    if not constructible(gtype, coords):
        out.vac("valid_result")
        return out
    r = call(mkgeom(gtype, coords), 0.5, case["fb"])
    cls = {"kind": "max_frequency_buffers", "type": gtype, "geom": "maxf", "root": "maxf", "depth": 0, "fn": "buffer_geometry"}
    top = max(_flat(raw(r[1].coordinates))[1::2]) if r[0] == "ok" and gtype not in TIME_ONLY else None
    out.expect("valid_result", r[0] == "ok" and (top is None or top <= M), [r[0], r[1] if r[0] != "ok" else top], "a geometry within the domain", cls)
    out.klass = "maxf:%s" % r[0]
    return out


def blocks(tier):
    return [{"root": pid, "tier": tier} for pid in POOL_IDS] + [{"root": "@maxf", "tier": tier}, {"root": "@dense", "tier": tier}, {"root": "@hours", "tier": tier}] + [{"root": "@twins", "tier": tier}, {"root": "@repr", "tier": tier},
                                                                {"root": "@strict", "tier": tier}]


def canon(g, last):
    return repr((g.type, raw(g.coordinates), tuple(last)))


def run_block(block, rec):
    root = block["root"]
    use_tier(block["tier"])
    if root == "@twins":
        for case in twin_cases():
            rec.add(run_twin(case))
        return
    if root == "@hours":
        for gid in HOURS:
            for b in HOURS_BUFFERS:
                rec.add(run_hours({"hours": 1, "geom": gid, "buffer": list(b)}))
        return
    if root == "@dense":
        for gid in DENSE:
            for b in DENSE_BUFFERS:
                rec.add(run_dense({"dense": 1, "geom": gid, "buffer": list(b)}))
        return
    if root == "@maxf":
        for gid in MAXF_GEOMS:
            for fb in MAXF_BUFFERS:
                rec.add(run_maxf({"maxf": 1, "geom": gid, "fb": fb}))
        return
    if root == "@repr":
        for gid in REPR_GEOMS:
            for b in REPR_BUFFERS:
                for rep in REPRS:
                    rec.add(run_repr({"repr": 1, "geom": gid, "buffer": list(b), "rep": rep}))
        return
    if root == "@strict":
        for gid in POOL_IDS:
            for tb in TB:
                for fb in FB:
                    rec.add(run_strict({"strict": 1, "geom": gid, "buffer": [tb, fb]}))
        return
    max_depth = DEPTH[block["tier"]]
    gtype, coords = POOL_BY_ID[root]
    try:
        g0 = mkgeom(gtype, coords)
    except Exception as e:  # noqa  -- a geometry the model says is valid must be constructible
        out = Out({"geom": root, "chain": [], "tier": block["tier"]})
        out.fail("pool_constructible", "%s: %s" % (type(e).__name__, str(e)[:200]), "valid geometry accepted",
                 {"geom": root, "type": gtype, "kind": "pool_rejected"})
        rec.add(out)
        return
    seen = {canon(g0, (0.0, 0.0))}
    frontier = deque([([], g0)])
    while frontier:
        chain, g = frontier.popleft()
        out, succ, extra = eval_state(root, chain, g)
        rec.add(out)
        for k, v in extra.items():
            rec.count(k, v)
        rec.count("states_depth_%d" % len(chain))
        if len(chain) + 1 >= max_depth:
            rec.count("leaf_results", len(succ))
            continue
        for b, r in succ:
            if not (REGULAR_TB[0] <= b[0] <= REGULAR_TB[1] and REGULAR_FB[0] <= b[1] <= REGULAR_FB[1]):
                # chains continue only through non-degenerate results: a zero buffer leaves a sliver thinner than
                # double precision resolves and the 'larger than the domain' buffers (1e9 s, 1e7 Hz) fill the domain;
                # those results are still judged as results, but are not fed to a further buffering
                rec.count("not_chained_degenerate")
                continue
            k = canon(r, b)
            if k in seen:
                rec.count("merged")
                continue
            seen.add(k)
            frontier.append((chain + [b], r))


def rebuild(case):
    gtype, coords = POOL_BY_ID[case["geom"]]
    g = mkgeom(gtype, coords)
    for tb, fb in case["chain"]:
        g = buffer_geometry(g, time_buffer=float(tb), freq_buffer=float(fb))
    return g


def replay_case(case):
    if "twin" in case:
        return run_twin(case)
    if "repr" in case:
        return run_repr(case)
    if "maxf" in case:
        return run_maxf(case)
    if "dense" in case:
        return run_dense(case)
    if "hours" in case:
        return run_hours(case)
    if "strict" in case:
        return run_strict(case)
    use_tier(case.get("tier"))
    if not case["chain"]:
        gtype, coords = POOL_BY_ID[case["geom"]]
        try:
            mkgeom(gtype, coords)
        except Exception as e:  # noqa
            out = Out(case)
            out.fail("pool_constructible", "%s: %s" % (type(e).__name__, str(e)[:200]), "valid geometry accepted",
                     {"geom": case["geom"], "type": gtype, "kind": "pool_rejected"})
            return out
    chain = [(float(tb), float(fb)) for tb, fb in case["chain"]]
    g = rebuild(case)
    out, _, _ = eval_state(case["geom"], chain, g)
    return out
