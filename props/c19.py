"""C19 — Tag encoding projects faithfully onto the vocabulary; equal objects hash equally.

Space 1 (encoding).  A universe of tags built to collide (same term / other value;
terms sharing ``name`` -- i.e. the hand-written Term hash -- but not ``label``;
sharing ``label`` but not ``name``; sharing both but not ``definition``; a freshly
constructed copy equal to the first).  EVERY ordered selection of universe members
is taken as vocabulary; those whose members are pairwise unequal (the property's
precondition) are combined with EVERY tag list up to the length bound (repeats and
out-of-vocabulary members included) and, per list, EVERY score assignment over the
score alphabet (quick: universe of 5, lists <= 3, scores {0, 1/4, 1}; thorough:
universe of 6, lists <= 4, scores {0, 1/4, 1, 0.1} -- {1/4, 1} for the lists of length 4).

Space 2 (hash / equality).  Per class with a hand-written ``__hash__`` a pool of
objects: a base object, one variant per declared field (reflection makes sure no
field is skipped), in the thorough tier also every two-field variant, and of each
of these four more realisations (``model_copy``, deep ``model_copy``, JSON round
trip, re-construction from fresh parts).  ALL ordered pairs, cross class included.

Reference model: models/encoding.py (index arithmetic on an equality matrix that is
filled from the real ``==`` of the tags, as the property is stated on it).
"""
from __future__ import annotations

import datetime
import itertools

import numpy as np

from soundevent import data
from soundevent.evaluation.encoding import (
    classification_encoding,
    create_tag_encoder,
    multilabel_encoding,
    prediction_encoding,
)

from mc.runner import Out
from models import encoding as M
from props.common import DT, U, is_rejection, recording

ID = "C19"
RULE = (
    "[representations] the two tag values of the universe are the NFC and NFD spelling of the same text (different strings); the Term pool has variants "
    "that pass an optional field's default (None) explicitly. "
    "space 1: every ordered selection of the tag universe as vocabulary (those with two equal members are outside "
    "the property's precondition: executed for the encoder only and counted vacuous) x every tag list up to the "
    "length bound x every score assignment over the score alphabet of that list length (see bounds); one 'encoder' case per vocabulary (encode of "
    "every universe tag, decode of every index) and one 'lists' case per (vocabulary, tag list) (classification, "
    "multilabel, prediction for every score vector, and the same calls with out-of-vocabulary members removed). "
    "A lists case is non-trivial when the list holds a vocabulary tag together with an out-of-vocabulary tag or a "
    "repeated (equal) tag; an encoder case when the vocabulary is non-empty. "
    "space 2: every ordered pair of pool objects; non-trivial when the two are distinct objects and either "
    "compare equal or share a hash (collision). distinct = distinct case descriptor."
)
ASSUMPTIONS = [
    "tag equality is the real == of data.Tag (pydantic structural equality); the model works on the matrix of its values over the universe",
    "vocabularies containing two equal tags are outside the property ('vocabulary of distinct tags') and are not judged",
    "scores are in [0, 1]; the expected slot value is the float32 rounding of the listed score (declared float32 comparison)",
    "hash/equality clause: only classes that define __hash__ (Term, Tag, Feature, Note, SoundEvent, SoundEventAnnotation, "
    "SoundEventPrediction, ClipPrediction); NaN feature values, booleans-as-numbers and objects mutated after "
    "validation are out of alphabet; uuids and timestamps are fixed literals",
    "a JSON round trip that does not reproduce an equal object is counted (counters same_spec_unequal:*), not judged: "
    "the property only speaks about objects that do compare equal",
]

ALL_SCORES = [0.0, 0.25, 1.0, 0.1]  # 0.1 is not a float32 value: exercises the declared float32 rounding
SCORES = {"quick": [0.0, 0.25, 1.0], "thorough": ALL_SCORES}
SCORES_LONGEST = {"thorough": [0.25, 1.0]}  # score alphabet for lists of the maximal length in the thorough tier


def scores_for(tier, length):
    if tier == "thorough" and length == MAXLEN[tier]:
        return SCORES_LONGEST[tier]
    return SCORES[tier]


UNIVERSE_N = {"quick": 5, "thorough": 6}
MAXLEN = {"quick": 3, "thorough": 4}
N_BLOCKS_1 = {"quick": 48, "thorough": 96}
N_BLOCKS_2 = {"quick": 16, "thorough": 32}

UNIVERSE_DOC = [
    "0: Tag(Term(label=a, name=n:a, definition=d), x)   [x = 'caf\\u00e9' (NFC), y = 'cafe\\u0301' (NFD)]",
    "1: same term object, value y",
    "2: Term(label=a2, name=n:a) -- same name (same Term hash), other label; value x",
    "3: Term(label=a, name=n:b) -- same label, other name; value x",
    "4: freshly constructed Term and Tag equal to 0",
    "5: Term(label=a, name=n:a, definition=d2) -- differs from 0 in the definition only; value x (thorough)",
]


# the two tag values of the universe are different strings that are canonically equivalent (NFC / NFD spelling of the same text):
# different values are different tags whatever Unicode says about them
VX, VY = "caf\u00e9", "cafe\u0301"


def _term(which="A"):
    lab, name, defi = {
        "A": ("a", "n:a", "d"),
        "A2": ("a2", "n:a", "d"),
        "A3": ("a", "n:b", "d"),
        "A4": ("a", "n:a", "d2"),
    }[which]
    return data.Term(label=lab, name=name, definition=defi)


# ---------------------------------------------------------------- space 1: universe
_CTX = None


def universe_ctx():
    """(universe tags, equality matrix from the real ==, PredictedTag table). Built once per process."""
    global _CTX
    if _CTX is None:
        # the universe's main term carries two extra attributes; its equal twin (member 4) was given them in the other order
        tA = data.Term(label="a", name="n:a", definition="d", foo="bar", baz=1)
        tA_twin = data.Term(label="a", name="n:a", definition="d", baz=1.0, foo="bar")
        uni = [
            data.Tag(term=tA, value=VX),
            data.Tag(term=tA, value=VY),
            data.Tag(term=_term("A2"), value=VX),
            data.Tag(term=_term("A3"), value=VX),
            data.Tag(term=tA_twin, value=VX),
            data.Tag(term=_term("A4"), value=VX),
        ]
        eq = [[bool(a == b) for b in uni] for a in uni]
        pt = {}
        for i, t in enumerate(uni):
            for s in ALL_SCORES:
                pt[(i, s)] = data.PredictedTag(tag=t, score=s)
        f32 = {s: float(np.float32(s)) for s in ALL_SCORES}
        _CTX = (uni, eq, pt, f32)
    return _CTX


def all_vocabs(n):
    out = []
    for k in range(n + 1):
        out.extend(list(p) for p in itertools.permutations(range(n), k))
    return out


def all_lists(n, maxlen):
    out = []
    for k in range(maxlen + 1):
        out.extend(list(p) for p in itertools.product(range(n), repeat=k))
    return out


def bounds(tier):
    uni, eq, _, _ = universe_ctx()
    n = UNIVERSE_N[tier]
    vocs = all_vocabs(n)
    pool = build_pool(tier)
    per_class = {}
    for e in pool:
        per_class[e["cls"]] = per_class.get(e["cls"], 0) + 1
    return {
        "universe": UNIVERSE_DOC[:n],
        "universe_equality_matrix": [[int(eq[i][j]) for j in range(n)] for i in range(n)],
        "vocabularies_enumerated": len(vocs),
        "vocabularies_distinct": sum(1 for v in vocs if M.distinct(eq, v)),
        "max_list_length": MAXLEN[tier],
        "tag_lists": len(all_lists(n, MAXLEN[tier])),
        "scores_by_list_length": {str(k): scores_for(tier, k) for k in range(MAXLEN[tier] + 1)},
        "predicted_lists": sum((n * len(scores_for(tier, k))) ** k for k in range(MAXLEN[tier] + 1)),
        "hash_pool_size": len(pool),
        "hash_pool_per_class": per_class,
        "hash_pool_variants": "base + every single-field variant" + (" + every two-field variant" if tier == "thorough" else ""),
        "hash_pool_realisations": ["built", "copy", "deep", "json", "rebuild"],
        "uncovered_fields": uncovered_fields(),
        "ordered_pairs": len(pool) ** 2,
    }


# ---------------------------------------------------------------- space 1: oracles
def _exc(e):
    return ("reject" if is_rejection(e) else "crash", type(e).__name__)


def _is_index(v, exp):
    if exp is None:
        return v is None
    return isinstance(v, (int, np.integer)) and not isinstance(v, bool) and int(v) == exp


def run_encoder(case):
    """One vocabulary: encode every universe tag, decode every index."""
    vocab, nuni = case["vocab"], case["universe"]
    uni, EQ, _, _ = universe_ctx()
    out = Out(case)
    V = [uni[i] for i in vocab]
    n = len(vocab)
    calls = 1
    try:
        enc = create_tag_encoder(list(V))
    except Exception as e:  # noqa
        out.fail("encode_iff_equal", _exc(e), "encoder created", {"fn": "create_tag_encoder", "kind": "crash"})
        out.klass = "encoder:crash"
        return out
    if not M.distinct(EQ, vocab):
        # outside the precondition: executed (no judgement), counted vacuous
        for t in range(nuni):
            try:
                enc.encode(uni[t])
            except Exception:  # noqa
                pass
            calls += 1
        out.vac("encode_iff_equal", nuni)
        out.vac("decode_encode_identity", n)
        out.transitions = calls
        out.validated = 0
        out.klass = "encoder:vocabulary_with_equal_members(unjudged)"
        return out
    hits = 0
    for t in range(nuni):
        exp = M.encode(EQ, vocab, t)
        try:
            r = ("ok", enc.encode(uni[t]))
        except Exception as e:  # noqa
            r = _exc(e)
        calls += 1
        good = r[0] == "ok" and _is_index(r[1], exp)
        if r[0] != "ok":
            kind = "crash"
        elif exp is None:
            kind = "false_hit"
        elif r[1] is None:
            kind = "miss"
        else:
            kind = "wrong_index"
        out.expect("encode_iff_equal", good, r, ["ok", exp], {"fn": "encode", "kind": kind}, {"tag": t})
        if exp is not None:
            hits += 1
            # decode(encode(t)) == t
            if good:
                try:
                    d = ("ok", enc.decode(r[1]))
                    okd = bool(d[1] == uni[t])
                except Exception as e:  # noqa
                    d, okd = _exc(e), False
                calls += 1
                out.expect("decode_encode_identity", okd, repr(d), "decode(encode(t)) == t",
                           {"fn": "decode", "kind": "decode_of_encode"}, {"tag": t})
    for i in range(n):
        try:
            d = enc.decode(i)
            e2 = enc.encode(d)
            r = ("ok", e2)
            good = bool(d == V[i]) and _is_index(e2, i)
        except Exception as e:  # noqa
            r, good = _exc(e), False
        calls += 2
        out.expect("decode_encode_identity", good, repr(r), ["ok", i], {"fn": "decode", "kind": "encode_of_decode"}, {"index": i})
    nc = getattr(enc, "num_classes", None)
    out.expect("decode_encode_identity", nc == n, nc, n, {"fn": "num_classes", "kind": "num_classes"})
    out.transitions = calls
    out.validated = nuni + n
    out.nontrivial = n >= 1
    out.klass = "encoder:n=%d hits=%d" % (n, hits)
    return out


def run_lists(case):
    vocab, tags, scores = case["vocab"], case["tags"], case["scores"]
    uni, EQ, PT, F32 = universe_ctx()
    out = Out(case)
    V = [uni[i] for i in vocab]
    L = [uni[i] for i in tags]
    n = len(vocab)
    calls = 1
    validated = 0
    try:
        enc = create_tag_encoder(list(V))
    except Exception as e:  # noqa
        out.fail("classification_first_hit", _exc(e), "encoder created", {"fn": "create_tag_encoder", "kind": "crash"})
        out.klass = "lists:crash"
        return out
    kept = M.kept_positions(EQ, vocab, tags)
    has_oov = len(kept) < len(tags)
    L2 = [L[j] for j in kept]

    # ---- classification: index of the first listed tag that is in the vocabulary
    exp = M.classification(EQ, vocab, tags)
    try:
        r = ("ok", classification_encoding(list(L), enc))
    except Exception as e:  # noqa
        r = _exc(e)
    calls += 1
    validated += 1
    if r[0] != "ok":
        kind = "crash"
    elif exp is None:
        kind = "hit_without_vocabulary_tag"
    elif r[1] is None:
        kind = "missed"
    else:
        kind = "wrong_index"
    out.expect("classification_first_hit", r[0] == "ok" and _is_index(r[1], exp), r, ["ok", exp],
               {"fn": "classification_encoding", "kind": kind})
    if has_oov:
        try:
            r2 = ("ok", classification_encoding(list(L2), enc))
        except Exception as e:  # noqa
            r2 = _exc(e)
        calls += 1
        out.expect("oov_no_influence", r == r2 and r[0] == "ok", [r, r2], "same result without the OOV members",
                   {"fn": "classification_encoding"}, {"kept_positions": kept})
    else:
        out.vac("oov_no_influence")

    # ---- multilabel: indicator vector
    expml = M.multilabel(EQ, vocab, tags)
    try:
        a = multilabel_encoding(list(L), enc)
        r = ("ok", a)
    except Exception as e:  # noqa
        r = _exc(e)
    calls += 1
    validated += 1
    if r[0] != "ok":
        good, kind, obs = False, "crash", r
    elif not isinstance(a, np.ndarray) or a.shape != (n,):
        good, kind, obs = False, "shape", ["ok", repr(a)]
    else:
        lst = a.tolist()
        obs = ["ok", lst]
        good = all(x == 0 or x == 1 for x in lst) and [int(x) for x in lst] == expml
        kind = "ok"
        if not good:
            if not all(x == 0 or x == 1 for x in lst):
                kind = "not_binary"
            else:
                kind = "false_positive" if any(x and not y for x, y in zip(lst, expml)) else "false_negative"
    out.expect("multilabel_indicator", good, obs, ["ok", expml], {"fn": "multilabel_encoding", "kind": kind})
    if has_oov:
        try:
            a2 = multilabel_encoding(list(L2), enc)
            same = r[0] == "ok" and isinstance(a2, np.ndarray) and isinstance(a, np.ndarray) and a.dtype == a2.dtype and np.array_equal(a, a2)
            o2 = ["ok", repr(a2)]
        except Exception as e:  # noqa
            same, o2 = False, _exc(e)
        calls += 1
        out.expect("oov_no_influence", same, [repr(r[1]) if r[0] == "ok" else r, o2], "same result without the OOV members",
                   {"fn": "multilabel_encoding"}, {"kept_positions": kept})
    else:
        out.vac("oov_no_influence")

    # ---- prediction: every score assignment
    pos = M.positions(EQ, vocab, tags)
    n_ok = n_oov_ok = 0
    for sv in itertools.product(scores, repeat=len(tags)):
        P = [PT[(t, s)] for t, s in zip(tags, sv)]
        try:
            a = prediction_encoding(list(P), enc)
            crashed = None
        except Exception as e:  # noqa
            crashed = _exc(e)
        calls += 1
        validated += 1
        if crashed is not None:
            out.fail("prediction_scores", crashed, "array", {"fn": "prediction_encoding", "kind": "crash"}, {"scores": list(sv)})
            break
        if not isinstance(a, np.ndarray) or a.shape != (n,) or a.dtype != np.float32:
            out.fail("prediction_scores", repr(a), "float32 array of shape (%d,)" % n,
                     {"fn": "prediction_encoding", "kind": "shape_or_dtype"}, {"scores": list(sv)})
            break
        vals = a.tolist()
        bad = None
        for i in range(n):
            p = pos[i]
            if not p:
                if vals[i] != 0.0:
                    bad = ("slot_without_prediction_nonzero", i, [0.0])
                    break
            else:
                allowed = [F32[sv[j]] for j in p]
                if vals[i] not in allowed:
                    bad = ("repeated_tag_value_not_a_listed_score" if len(p) > 1 else "wrong_score", i, allowed)
                    break
        if bad is not None:
            out.fail("prediction_scores", vals, {"slot": bad[1], "allowed": bad[2]},
                     {"fn": "prediction_encoding", "kind": bad[0]}, {"scores": list(sv)})
            break
        n_ok += 1
        if has_oov:
            P2 = [P[j] for j in kept]
            try:
                a2 = prediction_encoding(list(P2), enc)
                same = isinstance(a2, np.ndarray) and a2.dtype == a.dtype and np.array_equal(a, a2)
                o2 = repr(a2)
            except Exception as e:  # noqa
                same, o2 = False, _exc(e)
            calls += 1
            if not same:
                out.fail("oov_no_influence", [vals, o2], "same result without the OOV members",
                         {"fn": "prediction_encoding"}, {"scores": list(sv), "kept_positions": kept})
                break
            n_oov_ok += 1
    if n_ok:
        out.ok("prediction_scores", n_ok)
    if n_oov_ok:
        out.ok("oov_no_influence", n_oov_ok)
    elif not has_oov:
        out.vac("oov_no_influence")

    has_hit = bool(kept)
    repeated = any(EQ[tags[i]][tags[j]] for i in range(len(tags)) for j in range(i + 1, len(tags)))
    out.transitions = calls
    out.validated = validated
    out.nontrivial = has_hit and (has_oov or repeated)
    out.klass = "lists:n=%d len=%d%s%s%s" % (n, len(tags), " hit" if has_hit else " nohit", " oov" if has_oov else "", " rep" if repeated else "")
    return out


# ---------------------------------------------------------------- space 2: pools
DT2 = DT + datetime.timedelta(days=1)
# one instant written in two time zones: the two datetimes are equal, so objects that differ only in them are equal
DT_UTC = DT.replace(tzinfo=datetime.timezone.utc)
DT_CET = DT_UTC.astimezone(datetime.timezone(datetime.timedelta(hours=1)))


def _user(n="u"):
    return data.User(uuid=U("user:" + n), username=n)


def _rec(n="r"):
    return recording(name=n, path="/data/%s.wav" % n)


def _geom(k="ti"):
    if k == "ti":
        return data.TimeInterval(coordinates=[0, 1])
    return data.BoundingBox(coordinates=[0, 125, 1, 250])


def _feature(w="A", v=1.0):
    return data.Feature(term=_term(w), value=v)


def _tag(w="A", v="x"):
    return data.Tag(term=_term(w), value=v)


def _ptag(v="x", s=0.5):
    return data.PredictedTag(tag=_tag("A", v), score=s)


def _note(n="n"):
    return data.Note(uuid=U("note:" + n), message=n, created_on=DT)


def _se(n="s"):
    return data.SoundEvent(uuid=U("se:" + n), geometry=_geom("ti"), recording=_rec("r"))


def _clip(n="c"):
    return data.Clip(uuid=U("clip:" + n), recording=_rec("r"), start_time=0, end_time=1)


def _sep(n="p"):
    return data.SoundEventPrediction(uuid=U("sep:" + n), sound_event=_se("s"), score=0.5)


def _seqp(n="q"):
    seq = data.Sequence(uuid=U("seq:" + n), sound_events=[_se("s")])
    return data.SequencePrediction(uuid=U("seqp:" + n), sequence=seq, score=0.5)


def _uuid_alts(cname):
    # "shared" is the same uuid in every uuid-hashed class: cross-class hash collisions
    return [("other", lambda: U(cname + ":other")), ("shared", lambda: U("shared"))]


_TERM_STR_FIELDS = [
    "uri", "type_of_term", "comment", "see", "subproperty_of", "subclass_of", "domain", "domain_includes",
    "term_range", "range_includes", "member_of", "instance_of", "equivalent_property", "description", "scope_note",
]

SPECS = {
    "Term": {
        "cls": data.Term,
        "base": {"label": lambda: "a", "definition": lambda: "d", "name": lambda: "n:a"},
        "alts": dict(
            {"label": [("a2", lambda: "a2")], "definition": [("d2", lambda: "d2")], "name": [("n:b", lambda: "n:b")],
             # extra (undeclared) fields: one, and the same two given in both orders (equal terms, different dict order)
             "+extra": [("foo", lambda: {"foo": "bar"}), ("foo_baz", lambda: {"foo": "bar", "baz": "qux"}),
                        ("baz_foo", lambda: {"baz": "qux", "foo": "bar"})]},
            **{f: [("z", lambda: "zz")] + ([("none", lambda: None)] if f in ("uri", "description") else [])  # explicit default
               for f in _TERM_STR_FIELDS}),
    },
    "Tag": {
        "cls": data.Tag,
        "base": {"term": lambda: _term("A"), "value": lambda: "x"},
        "alts": {"term": [("A2", lambda: _term("A2")), ("A3", lambda: _term("A3")), ("A4", lambda: _term("A4"))],
                 "value": [("y", lambda: "y")]},
    },
    "Feature": {
        "cls": data.Feature,
        "base": {"term": lambda: _term("A"), "value": lambda: 1.0},
        "alts": {"term": [("A2", lambda: _term("A2")), ("A3", lambda: _term("A3")), ("A4", lambda: _term("A4"))],
                 # nan: a fresh NaN object per build (two such features are NOT equal: NaN != NaN), so whatever equality says, hashes follow
                 "value": [("2", lambda: 2.0), ("int1", lambda: 1), ("zero", lambda: 0.0), ("negzero", lambda: -0.0),
                           ("nan", lambda: float("nan"))]},
    },
    "Note": {
        "cls": data.Note,
        "base": {"uuid": lambda: U("Note"), "message": lambda: "m", "created_on": lambda: DT},
        "alts": {"uuid": _uuid_alts("Note"), "message": [("m2", lambda: "m2")], "created_by": [("u", lambda: _user("u"))],
                 "is_issue": [("true", lambda: True)], "created_on": [("dt2", lambda: DT2), ("utc", lambda: DT_UTC), ("cet", lambda: DT_CET)]},
    },
    "SoundEvent": {
        "cls": data.SoundEvent,
        "base": {"uuid": lambda: U("SoundEvent"), "geometry": lambda: _geom("ti"), "recording": lambda: _rec("r")},
        "alts": {"uuid": _uuid_alts("SoundEvent"), "geometry": [("none", lambda: None), ("box", lambda: _geom("box"))],
                 "recording": [("r2", lambda: _rec("r2"))], "features": [("f", lambda: [_feature()])]},
    },
    "SoundEventAnnotation": {
        "cls": data.SoundEventAnnotation,
        "base": {"uuid": lambda: U("SoundEventAnnotation"), "sound_event": lambda: _se("s"), "created_on": lambda: DT},
        "alts": {"uuid": _uuid_alts("SoundEventAnnotation"), "sound_event": [("s2", lambda: _se("s2"))],
                 "notes": [("n", lambda: [_note("n")])], "tags": [("x", lambda: [_tag("A", "x")]), ("xy", lambda: [_tag("A", "x"), _tag("A", "y")])],
                 "created_by": [("u", lambda: _user("u"))], "created_on": [("dt2", lambda: DT2), ("utc", lambda: DT_UTC), ("cet", lambda: DT_CET)]},
    },
    "SoundEventPrediction": {
        "cls": data.SoundEventPrediction,
        # score left to its (integer) default in the base; "one" passes the equal float explicitly
        "base": {"uuid": lambda: U("SoundEventPrediction"), "sound_event": lambda: _se("s")},
        "alts": {"uuid": _uuid_alts("SoundEventPrediction"), "sound_event": [("s2", lambda: _se("s2"))],
                 "score": [("half", lambda: 0.5), ("one", lambda: 1.0)], "tags": [("x", lambda: [_ptag("x", 0.5)])]},
    },
    "ClipPrediction": {
        "cls": data.ClipPrediction,
        "base": {"uuid": lambda: U("ClipPrediction"), "clip": lambda: _clip("c")},
        "alts": {"uuid": _uuid_alts("ClipPrediction"), "clip": [("c2", lambda: _clip("c2"))],
                 "sound_events": [("p", lambda: [_sep("p")])], "sequences": [("q", lambda: [_seqp("q")])],
                 "tags": [("x", lambda: [_ptag("x", 0.5)])], "features": [("f", lambda: [_feature()])]},
    },
}
CLASS_ORDER = ["Term", "Tag", "Feature", "Note", "SoundEvent", "SoundEventAnnotation", "SoundEventPrediction", "ClipPrediction"]
REALISATIONS = ["copy", "deep", "json", "rebuild"]


def uncovered_fields():
    """Declared fields of a pooled class for which the pool has no variant (must be empty)."""
    out = []
    for cname in CLASS_ORDER:
        sp = SPECS[cname]
        for f in sp["cls"].model_fields:
            if f not in sp["alts"]:
                out.append("%s.%s" % (cname, f))
        if not callable(sp["cls"].__dict__.get("__hash__")):
            out.append("%s.__hash__ not defined on the class" % cname)
    return out


def _kw(cls, field):
    if field == "+extra":
        return "foo"
    fi = cls.model_fields[field]
    return fi.alias or field


def build_obj(cname, choices):
    sp = SPECS[cname]
    cls = sp["cls"]
    kwargs = {_kw(cls, f): mk() for f, mk in sp["base"].items()}
    for f, lab in choices:
        mk = dict(sp["alts"][f])[lab]
        if f == "+extra":
            kwargs.update(mk())
        else:
            kwargs[_kw(cls, f)] = mk()
    return cls(**kwargs)


def _realise(obj, how, cname, choices):
    if how == "copy":
        return obj.model_copy()
    if how == "deep":
        return obj.model_copy(deep=True)
    if how == "json":
        return type(obj).model_validate_json(obj.model_dump_json())
    if how == "rebuild":
        return build_obj(cname, choices)
    raise ValueError(how)


_POOLS = {}


def build_pool(tier):
    """Deterministic list of {name, cls, choices, how, obj}. Names are stable across tiers (thorough is a superset)."""
    if tier in _POOLS:
        return _POOLS[tier]
    pool = []
    for cname in CLASS_ORDER:
        sp = SPECS[cname]
        fields = [f for f in sp["alts"]]
        specs = [()]
        for f in fields:
            for lab, _ in sp["alts"][f]:
                specs.append(((f, lab),))
        if tier != "thorough" and cname == "Term":
            # quick tier: the identifying fields of a term pairwise (label / name / definition / uri / one extra field)
            key_fields = [f for f in fields if f in ("label", "name", "definition", "uri", "+extra")]
            for f, g in itertools.combinations(key_fields, 2):
                specs.append(((f, sp["alts"][f][0][0]), (g, sp["alts"][g][0][0])))
        if tier == "thorough":
            for f, g in itertools.combinations(fields, 2):
                for lf, _ in sp["alts"][f]:
                    for lg, _ in sp["alts"][g]:
                        specs.append(((f, lf), (g, lg)))
        for choices in specs:
            sname = cname + ":" + (",".join("%s=%s" % c for c in choices) or "base")
            obj = build_obj(cname, choices)
            pool.append({"name": sname, "cls": cname, "spec": sname, "how": "built", "obj": obj})
            for how in REALISATIONS:
                try:
                    o2 = _realise(obj, how, cname, choices)
                except Exception as e:  # noqa  (a realisation the library refuses is listed, not hidden)
                    pool.append({"name": sname + "~" + how, "cls": cname, "spec": sname, "how": how, "obj": None,
                                 "error": type(e).__name__})
                    continue
                pool.append({"name": sname + "~" + how, "cls": cname, "spec": sname, "how": how, "obj": o2})
    _POOLS[tier] = pool
    return pool


_INDEX = {}


def pool_index(tier):
    if tier not in _INDEX:
        _INDEX[tier] = {e["name"]: e for e in build_pool(tier)}
    return _INDEX[tier]


def _obs(fn):
    try:
        return ("ok", fn())
    except Exception as e:  # noqa
        return _exc(e)


def run_pair(case):
    idx = pool_index(case["tier"])
    A, B = idx[case["a"]], idx[case["b"]]
    out = Out(case)
    a, b = A["obj"], B["obj"]
    if a is None or b is None:
        for o in ("eq_symmetric", "eq_implies_hash", "dict_set_usable"):
            out.vac(o)
        out.transitions = 0
        out.validated = 0
        out.klass = "pair:realisation_refused(%s)" % (A.get("error") or B.get("error"))
        return out
    if type(a).__hash__ is None or type(b).__hash__ is None:
        # a class that declares itself unhashable is outside the clause ("the classes that define __hash__")
        for o in ("eq_symmetric", "eq_implies_hash", "dict_set_usable"):
            out.vac(o)
        out.transitions = 0
        out.validated = 0
        out.klass = "pair:class_declared_unhashable(unjudged)"
        return out
    same_spec = A["spec"] == B["spec"]
    rel = "identical" if a is b else ("same_spec" if same_spec else ("same_class" if A["cls"] == B["cls"] else "cross_class"))
    cls = {"a": A["cls"], "b": B["cls"]}
    detail = {"rel": rel, "how": [A["how"], B["how"]]}
    eab = _obs(lambda: a == b)
    eba = _obs(lambda: b == a)
    out.expect("eq_symmetric", eab[0] == "ok" and eab == eba and isinstance(eab[1], bool), [eab, eba],
               "a == b and b == a give the same bool", dict(cls, kind="symmetric"), detail)
    if a is b:
        out.expect("eq_symmetric", eab == ("ok", True), eab, "x == x", dict(cls, kind="reflexive"), detail)
    equal = eab == ("ok", True) and eba == ("ok", True)
    ha, ha2, hb = _obs(lambda: hash(a)), _obs(lambda: hash(a)), _obs(lambda: hash(b))
    # hashing itself is judged on the first member only (every pool object is the first member of some pair)
    out.expect("eq_implies_hash", ha[0] == "ok" and ha == ha2 and isinstance(ha[1], int), [ha, ha2],
               "hash() succeeds and is stable", {"class": A["cls"], "kind": "hashable_stable"}, detail)
    hashable = ha[0] == "ok" and hb[0] == "ok"
    if equal:
        if hashable:
            out.expect("eq_implies_hash", ha == hb, [ha, hb], "equal hashes for equal objects", dict(cls, kind="equal_objects"), detail)
        else:
            out.vac("eq_implies_hash")
    else:
        out.vac("eq_implies_hash")
    if hashable:
        def containers():
            s = {a, b}
            d = {a: "A"}
            return [len(s), b in {a}, a in {b}, d.get(b), len({b: "B", a: "A"})]
        r = _obs(containers)
        if equal:
            exp = [1, True, True, "A", 1]
            kind = "equal_objects_collapse_and_retrieve"
        else:
            exp = [2, False, False, None, 2]
            kind = "unequal_objects_stay_apart"
        out.expect("dict_set_usable", r == ("ok", exp), r, ["ok", exp], dict(cls, kind=kind), detail)
    else:
        out.vac("dict_set_usable")
    collide = hashable and ha == hb
    out.transitions = 3 + 2 + 9  # explicit hash() calls, == calls, hashing container operations
    out.validated = 1
    out.nontrivial = (a is not b) and (equal or collide)
    if a is b:
        k = "identical"
    elif equal:
        k = "equal_distinct_objects"
    elif collide:
        k = "unequal_same_hash"
    else:
        k = "unequal"
    out.klass = "pair:%s %s" % (k, "same_class" if A["cls"] == B["cls"] else "cross_class")
    return out


# ---------------------------------------------------------------- blocks / cases
def blocks(tier):
    n1, n2 = N_BLOCKS_1[tier], N_BLOCKS_2[tier]
    out = [{"space": "encoding", "tier": tier, "shard": i, "of": n1} for i in range(n1)]
    out += [{"space": "pairs", "tier": tier, "shard": i, "of": n2} for i in range(n2)]
    out.append({"space": "long", "tier": tier})
    return out


def run_long(case):
    """A vocabulary tag listed m times (m around and beyond 255) between one other vocabulary tag and an out-of-vocabulary tag:
    the indicator vector marks presence, the class is that of the first vocabulary tag in the list."""
    out = Out(case)
    uni, EQ, PT, F32 = universe_ctx()
    vocab = [0, 1, 3]
    m = case["m"]
    tags = [2] + [0] * m + [1]  # universe tag 2 is out of this vocabulary
    enc = create_tag_encoder([uni[i] for i in vocab])
    L = [uni[i] for i in tags]
    out.transitions = out.validated = 2
    out.nontrivial = True
    try:
        a = multilabel_encoding(list(L), enc)
        ok = isinstance(a, np.ndarray) and a.tolist() == [1, 1, 0]
        obs = a.tolist() if isinstance(a, np.ndarray) else repr(a)
    except Exception as e:  # noqa
        ok, obs = False, _exc(e)
    out.expect("multilabel_indicator", ok, obs, [1, 1, 0], {"fn": "multilabel_encoding", "kind": "long_list", "m": m})
    try:
        r = classification_encoding(list(L), enc)
        ok, obs = _is_index(r, 0), r
    except Exception as e:  # noqa
        ok, obs = False, _exc(e)
    out.expect("classification_first_hit", ok, obs, 0, {"fn": "classification_encoding", "kind": "long_list", "m": m})
    out.klass = "long:%s" % ("ok" if not out.viol else "viol")
    return out


def run_block(block, rec):
    tier = block["tier"]
    if block["space"] == "long":
        for m in (255, 256, 257, 511, 512, 65536):
            rec.add(run_case({"space": "long", "m": m}))
        return
    if block["space"] == "encoding":
        _, EQ, _, _ = universe_ctx()
        n = UNIVERSE_N[tier]
        lists = all_lists(n, MAXLEN[tier])
        for vi, vocab in enumerate(all_vocabs(n)):
            if vi % block["of"] != block["shard"]:
                continue
            rec.add(run_case({"space": "encoder", "vocab": vocab, "universe": n}))
            if not M.distinct(EQ, vocab):
                rec.count("vocabularies_with_equal_members_unjudged")
                continue
            rec.count("vocabularies_distinct")
            for tags in lists:
                rec.add(run_case({"space": "lists", "vocab": vocab, "tags": tags, "scores": scores_for(tier, len(tags))}))
    else:
        pool = build_pool(tier)
        for i, A in enumerate(pool):
            if i % block["of"] != block["shard"]:
                continue
            for B in pool:
                out = run_case({"space": "pairs", "tier": tier, "a": A["name"], "b": B["name"]})
                rec.add(out)
                if A["spec"] == B["spec"] and A["obj"] is not None and B["obj"] is not None and A is not B:
                    # realisations of one specification that do not compare equal are listed, not judged
                    if out.klass.startswith("pair:equal"):
                        rec.count("same_spec_equal")
                    else:
                        hows = sorted([A["how"], B["how"]])
                        rec.count("same_spec_unequal:%s:%s" % (A["cls"], "json" if "json" in hows else "+".join(hows)))


def run_case(case):
    sp = case["space"]
    if sp == "encoder":
        return run_encoder(case)
    if sp == "lists":
        return run_lists(case)
    if sp == "long":
        return run_long(case)
    return run_pair(case)


def replay_case(case):
    return run_case(case)
