"""C03 — Geometry validation accepts exactly the valid geometries and normalises them.

Bounded-exhaustive exploration of nested coordinate structures over the leaf
alphabet {0, 1, 2, 3, -1, MAX, MAX+1}: every structure is offered under every
one of the nine type tags to the four entry points (constructor,
``geometry_validate`` in dict / attributes / json mode) and compared with the
reference predicates ``models.geometry.valid`` / ``normal``.

Spaces (block["space"]):
  flat     all scalars and all flat lists up to a length bound (exhaustive product)
  wrap     every flat list with one level of wrong nesting (whole list or one element wrapped)
  nested   base shapes of the nested types (all leaves valid) and every structure within
           K deviations of a base shape (leaf substitution, insert/delete at any level,
           wrap/unwrap of any node, reversal of any list)
  tags     type-tag cases: constructor with an explicit (same / other / unknown) tag,
           validate modes with a missing / unknown tag or missing coordinates, misuse of modes
"""
from __future__ import annotations

import copy
import itertools
import json
from types import SimpleNamespace

from soundevent import data
from soundevent.data import geometry_validate

from mc.runner import Out
from models import geometry as gm
from props.common import GEOM_CLASSES, MAXF

ID = "C03"
RULE = (
    "one case = one coordinate structure under one type tag, run through all four entry points "
    "(constructor, geometry_validate dict / attributes(SimpleNamespace) / json) and, when accepted, through "
    "geometry_validate(instance, 'attributes') and a JSON dump/re-validate. Structures: every scalar and every flat "
    "list up to the length bound over the leaf alphabet; every flat list with one wrong nesting level; every "
    "structure within K deviations (leaf substitution from the full alphabet, insert/delete at any level, "
    "wrap/unwrap of any node, reversal of any list) of every base shape of the nested types; x all 9 type tags. "
    "Type-tag cases (explicit same/other/unknown/unhashable tag, missing tag, missing coordinates, mode misuse) on a pool. "
    "Environment axis: every scalar / flat list up to length 4 and every example structure with one leaf substituted, one list reversed or one "
    "element dropped is judged once more in a child interpreter started with -O (case key env='python -O'). "
    "A case is non-trivial when the structure has the nesting depth the tagged type declares with numeric leaves, "
    "i.e. the type's own validator (not the static type check) decides; distinct = distinct (tag, JSON text of the structure)."
)
ASSUMPTIONS = [
    "leaves are finite floats (and ints in thorough) from the alphabet; NaN/inf, numeric strings and booleans are out of the alphabet by decision (DESIGN.md section 3); tuples and numpy / int leaves occur in the numtype space only (example structures)",
    "'rejected' = any ValueError subclass (pydantic.ValidationError included); anything else raised is a violation of no_object_on_reject",
    "a polygon needs at least one ring and a multi-polygon member at least one ring (read from 'the shape the type requires')",
    "reversed bounding boxes are valid input (normalised), reversed line strings are valid input (normalised), a reversed or vertical line of a multi-line string is invalid",
    "distinct op sequences may produce the same structure: 'states' counts distinct structures, 'evaluations' counts enumerated cases",
]

TYPES = gm.TYPES
EP = ("ctor", "dict", "attributes", "json")
ORACLES = ("accept_iff_valid", "entry_points_agree", "no_object_on_reject", "normal_form", "class_matches_tag",
           "json_roundtrip", "max_frequency_is_the_bound")

MAXI = int(MAXF)
ALPHA_F = [0.0, 1.0, 2.0, 3.0, -1.0, float(MAXI), float(MAXI + 1)]
ALPHA_I = [0, 1, 2, 3, -1, MAXI, MAXI + 1]

# ------------------------------------------------------------------ bounds per tier
CFG = {
    "quick": {
        "flat_alphabet": ALPHA_F, "flat_len": 5, "flat_extra_float_len": 0, "wrap_len": 4,
        # uniform base shapes: <=3 members / polygons, <=2 rings, <=4 points
        "shape_bounds": {"members": 3, "polygons": 3, "rings": 2, "points": 4, "nonuniform": False},
        # deviation bound K of a shape by its number of leaves: first matching row
        # (max_leaves, K, max structural ops)
        "levels": [(8, 2, 2), (16, 2, 1), (10 ** 9, 1, 1)],
        "sub_alphabet": ALPHA_F, "sub_alphabet_deep": ALPHA_F,
        "tag_pool_flat_len": 2, "blocks": {"flat": 8, "wrap": 4, "nested": 80, "tags": 4},
    },
    "thorough": {
        "flat_alphabet": ALPHA_F + ALPHA_I, "flat_len": 5, "flat_extra_float_len": 6, "wrap_len": 5,
        "shape_bounds": {"members": 3, "polygons": 3, "rings": 2, "points": 4, "nonuniform": True},
        "levels": [(6, 3, 2), (12, 2, 2), (32, 2, 1), (10 ** 9, 1, 1)],
        # a structure with exactly one substituted leaf also uses int leaves; with two or three, floats only
        "sub_alphabet": ALPHA_F + ALPHA_I, "sub_alphabet_deep": ALPHA_F,
        "tag_pool_flat_len": 3, "blocks": {"flat": 40, "wrap": 8, "nested": 76, "tags": 4},
    },
}


def bounds(tier):
    cfg = CFG[tier]
    shapes = base_shapes(tier)
    return {
        "leaf_alphabet": cfg["flat_alphabet"],
        "flat": {"scalars": "all", "list_length": [0, cfg["flat_len"]],
                 "extra_float_only_length": cfg["flat_extra_float_len"] or None},
        "wrong_nesting": {"flat_list_length": [0, cfg["wrap_len"]], "variants": "whole list wrapped; each single element wrapped"},
        "nested_base_shapes": dict(cfg["shape_bounds"], count=len(shapes),
                                   shape_set=("depth 2: 0..points points; depth 3: 1..members members; depth 4: 1..polygons polygons x 1..rings rings; "
                                              + ("members of depth 3 and rings of a single polygon sized independently, 2-3 polygons uniform"
                                                 if cfg["shape_bounds"]["nonuniform"] else "all members / rings of one shape the same size")),
                                   base_leaves="point i of a list = [T[i], F[i]], T=[0,1,2,3], F=[MAX,0,3,1]"),
        "deviation_levels": [{"shapes_with_leaves_up_to": a if a < 10 ** 9 else "any", "max_deviations": k,
                              "max_structural_ops": ks} for a, k, ks in cfg["levels"]],
        "deviation_kinds": ["leaf substitution (any leaf, any other alphabet value)", "insert leaf / [] / copy of neighbour at any position of any list",
                            "delete any element of any list", "wrap any node", "unwrap (splice) any list node", "reverse any list"],
        "deviation_rules": "canonical form: structural ops first (applied in sequence, addressed by path), then leaf substitutions at "
                           "strictly increasing leaf positions; two structural ops are never combined with leaf substitutions; "
                           "inserted leaf = 1.0, inserted copy = the element before the insertion point",
        "substitution_alphabet": {"structure_with_exactly_one_substituted_leaf": cfg["sub_alphabet"],
                                  "structure_with_two_or_three": cfg["sub_alphabet_deep"]},
        "type_tags": list(TYPES), "entry_points": list(EP) + ["attributes(instance)", "json dump + validate"],
        "unknown_tags": UNKNOWN_TAGS, "tag_pool_size": len(tag_pool(tier)),
    }


# ------------------------------------------------------------------ one case = (structure, tag) x 4 entry points
REJECT = "reject"


class Crash(tuple):
    """Record of a raised exception that is not a ValueError: (label, exception type name, message)."""


def _exc(e):
    """Plain record of a raised exception.  Exception objects are never kept: a pydantic ValidationError held in a
    local of the calling frame forms a reference cycle through its traceback that the collector cannot free."""
    if isinstance(e, ValueError):
        return REJECT
    return Crash(("crash:" + type(e).__name__, type(e).__name__, str(e)[:120]))


def _label(r):
    if r is REJECT:
        return "reject"
    if type(r) is Crash:
        return r[0]
    return "accept"


def _excname(r):
    return r[1] if type(r) is Crash else "ValueError"


def _msg(r):
    return "%s: %s" % (r[0], r[2]) if type(r) is Crash else "reject"


def run_one(c, ctext, tag, case):
    """All four entry points on structure c under type tag `tag` (ctext = json.dumps(c))."""
    jtext = '{"type": "%s", "coordinates": %s}' % (tag, ctext)
    out = Out(case, jtext)
    klass = GEOM_CLASSES[tag]
    exp = gm.valid(tag, c)
    acc = 0
    try:
        r0 = klass(coordinates=c)
        acc += 1
    except Exception as e:  # noqa
        r0 = _exc(e)
    try:
        r1 = geometry_validate({"type": tag, "coordinates": c}, mode="dict")
        acc += 1
    except Exception as e:  # noqa
        r1 = _exc(e)
    try:
        r2 = geometry_validate(SimpleNamespace(type=tag, coordinates=c), mode="attributes")
        acc += 1
    except Exception as e:  # noqa
        r2 = _exc(e)
    try:
        r3 = geometry_validate(jtext)
        acc += 1
    except Exception as e:  # noqa
        r3 = _exc(e)
    out.transitions = 4
    out.validated = 4
    nest = gm.nesting_ok(tag, c)
    out.nontrivial = nest

    # ---- fast path 1: the model says invalid and every entry point raised a ValueError
    if acc == 0 and not exp and r0 is REJECT and r1 is REJECT and r2 is REJECT and r3 is REJECT:
        out.checks = {"accept_iff_valid": [4, 0], "entry_points_agree": [1, 0], "no_object_on_reject": [4, 0],
                      "normal_form": [0, 1], "class_matches_tag": [0, 1], "json_roundtrip": [0, 1]}
        out.klass = tag + (":reject-rule" if nest else ":reject-nesting")
        return out

    res = (r0, r1, r2, r3)
    got = [_label(r) for r in res]
    why = gm.why_invalid(tag, c)
    if (why is None) != exp:
        raise AssertionError("reference model inconsistent on %s %r" % (tag, c))
    model = "valid" if exp else why
    want = "accept" if exp else "reject"
    norm = gm.normal(tag, c) if exp else None
    shape_in = ("normal" if gm.is_normal(tag, c) else "needs-normalising") if exp else "invalid"
    wrong = [i for i in range(4) if (got[i] == "accept") != exp]
    detail = {"results": got}
    bad = False

    # accept_iff_valid, per entry point
    for i in range(4):
        if i in wrong:
            bad = True
            out.fail("accept_iff_valid", got[i], want,
                     {"type": tag, "entry": "all" if len(wrong) == 4 else EP[i], "model": model, "got": got[i]}, detail)
        else:
            out.ok("accept_iff_valid")

    # no_object_on_reject: whatever was raised is a ValueError subclass
    crashed = [i for i in range(4) if got[i].startswith("crash")]
    n_raised = 0
    for i in range(4):
        if got[i] == "accept":
            continue
        n_raised += 1
        if i in crashed:
            bad = True
            out.fail("no_object_on_reject", _msg(res[i]), "a ValueError subclass",
                     {"type": tag, "entry": "all" if len(crashed) == 4 else EP[i], "exc": _excname(res[i]), "model": model}, detail)
        else:
            out.ok("no_object_on_reject")
    if n_raised == 0:
        out.vac("no_object_on_reject")

    objs = [(i, r) for i, r in enumerate(res) if got[i] == "accept"]
    # entry_points_agree: same decision, equal objects, idempotent on the instance
    agree = acc in (0, 4)
    if agree and acc == 4:
        agree = r0 == r1 and r0 == r2 and r0 == r3
    if not agree:
        bad = True
        out.fail("entry_points_agree", [g if g != "accept" else repr(res[i].coordinates) for i, g in enumerate(got)], "same decision and equal geometries",
                 {"type": tag, "pattern": "/".join(got), "model": model}, detail)
    else:
        out.ok("entry_points_agree")
    if objs:
        i0, g0 = objs[0]
        out.transitions += 1
        try:
            g4 = geometry_validate(g0, mode="attributes")
            same = g4 == g0 and type(g4) is type(g0)
            obs = repr(g4)
        except Exception as e:  # noqa
            same, obs = False, _msg(_exc(e)) + " " + type(e).__name__
        if not same:
            bad = True
        out.expect("entry_points_agree", same, obs, repr(g0), {"type": tag, "entry": "attributes(instance)", "model": model}, detail)

    # normal_form / class_matches_tag, per accepted object
    if not objs:
        out.vac("normal_form")
        out.vac("class_matches_tag")
        out.vac("json_roundtrip")
    bad_n = [i for i, g in objs if exp and g.coordinates != norm]
    bad_c = [i for i, g in objs if not (type(g) is klass and g.type == tag)]
    for i, g in objs:
        if exp:
            out.expect("normal_form", i not in bad_n, g.coordinates, norm,
                       {"type": tag, "entry": "all" if len(bad_n) == 4 else EP[i], "input": shape_in}, detail)
        else:
            out.vac("normal_form")
        out.expect("class_matches_tag", i not in bad_c, [type(g).__name__, g.type], [tag, tag],
                   {"type": tag, "entry": "all" if len(bad_c) == 4 else EP[i]}, detail)
    if bad_n or bad_c:
        bad = True

    # json_roundtrip on every distinct accepted object
    done = []
    for i, g in objs:
        if any(g == h for h in done):
            continue
        done.append(g)
        out.transitions += 2
        try:
            dump = g.model_dump_json()
            g5 = geometry_validate(dump)
            same = g5 == g and type(g5) is type(g)
            obs = [dump, repr(g5)]
        except Exception as e:  # noqa
            same, obs = False, _msg(_exc(e)) + " " + type(e).__name__
        if not same:
            bad = True
        out.expect("json_roundtrip", same, obs, repr(g), {"type": tag, "entry": "all" if acc == 4 and agree else EP[i], "input": shape_in}, detail)

    if bad:
        out.klass = tag + ":VIOLATION"
    elif exp:
        out.klass = tag + (":accept" if shape_in == "normal" else ":accept-normalised")
    else:
        out.klass = tag + (":reject-rule" if nest else ":reject-nesting")
    return out


def eval_struct(c, how, rec):
    """Offer one structure under all nine type tags."""
    ctext = json.dumps(c)
    rec.count("structures")
    for tag in TYPES:
        case = {"sp": "struct", "c": c, "tag": tag}
        if how is not None:
            case["how"] = how
        rec.add(run_one(c, ctext, tag, case))


# ------------------------------------------------------------------ flat and wrong-nesting spaces
def flat_structs(tier):
    cfg = CFG[tier]
    alpha = cfg["flat_alphabet"]
    for v in alpha:
        yield v
    for n in range(0, cfg["flat_len"] + 1):
        for t in itertools.product(alpha, repeat=n):
            yield list(t)
    for n in range(cfg["flat_len"] + 1, cfg["flat_extra_float_len"] + 1):
        for t in itertools.product(ALPHA_F, repeat=n):
            yield list(t)


def flat_size(tier):
    cfg = CFG[tier]
    a = len(cfg["flat_alphabet"])
    return a + sum(a ** n for n in range(cfg["flat_len"] + 1)) + sum(
        len(ALPHA_F) ** n for n in range(cfg["flat_len"] + 1, cfg["flat_extra_float_len"] + 1))


def wrap_structs(tier):
    """Every flat float list of length 0..wrap_len with one level of wrong nesting."""
    for n in range(0, CFG[tier]["wrap_len"] + 1):
        for t in itertools.product(ALPHA_F, repeat=n):
            c = list(t)
            yield [c]
            for i in range(n):
                d = list(c)
                d[i] = [c[i]]
                yield d


# ------------------------------------------------------------------ nested space: base shapes and deviations
TV = [0.0, 1.0, 2.0, 3.0]
FV = [float(MAXI), 0.0, 3.0, 1.0]


def build(shape):
    """Base structure of a shape: an int n is a list of n points; a list is a list of sub-shapes."""
    if isinstance(shape, int):
        return [[TV[i], FV[i]] for i in range(shape)]
    return [build(s) for s in shape]


def n_leaves(x):
    if isinstance(x, list):
        return sum(n_leaves(y) for y in x)
    return 1


def base_shapes(tier):
    b = CFG[tier]["shape_bounds"]
    N, M, P, R = b["points"], b["members"], b["polygons"], b["rings"]
    out = list(range(N + 1))  # depth 2: n points
    if not b["nonuniform"]:
        out += [[n] * m for m in range(1, M + 1) for n in range(N + 1)]  # depth 3
        out += [[[n] * r] * p for p in range(1, P + 1) for r in range(1, R + 1) for n in range(N + 1)]  # depth 4
        return out
    # thorough: depth 3 with every member its own size; depth 4: one polygon with every ring its own size,
    # two and three polygons uniform
    for m in range(1, M + 1):
        out += [list(t) for t in itertools.product(range(N + 1), repeat=m)]
    out += [[list(t)] for r in range(1, R + 1) for t in itertools.product(range(N + 1), repeat=r)]
    out += [[[n] * r] * p for p in range(2, P + 1) for r in range(1, R + 1) for n in range(N + 1)]
    return out


def level_of(tier, leaves):
    for cap, k, ks in CFG[tier]["levels"]:
        if leaves <= cap:
            return k, ks
    raise AssertionError


def struct_ops(s):
    """All single structural deviations applicable to structure s, as JSON-able op descriptors."""
    ops = []

    def rec(x, path):
        ops.append(["w", path])
        if isinstance(x, list):
            n = len(x)
            for pos in range(n + 1):
                ops.append(["i", path, pos, "leaf"])
                ops.append(["i", path, pos, "empty"])
                if pos >= 1 and isinstance(x[pos - 1], list) and x[pos - 1]:
                    ops.append(["i", path, pos, "dup"])
            for pos in range(n):
                ops.append(["d", path, pos])
            if path or n == 1:
                ops.append(["u", path])
            if n >= 2 and x[::-1] != x:
                ops.append(["r", path])
            for i, y in enumerate(x):
                rec(y, path + [i])

    rec(s, [])
    return ops


def _set(s, path, fn, k=0):
    if k == len(path):
        return fn(s)
    c = list(s)
    c[path[k]] = _set(s[path[k]], path, fn, k + 1)
    return c


def apply_op(s, op):
    """Apply one deviation; shares untouched subtrees (structures are never mutated)."""
    kind, path = op[0], op[1]
    if kind == "s":
        v = op[2]
        return _set(s, path, lambda _: v)
    if kind == "w":
        return _set(s, path, lambda x: [x])
    if kind == "r":
        return _set(s, path, lambda x: x[::-1])
    if kind == "d":
        pos = op[2]
        return _set(s, path, lambda x: x[:pos] + x[pos + 1:])
    if kind == "i":
        pos, what = op[2], op[3]

        def ins(x):
            el = 1.0 if what == "leaf" else [] if what == "empty" else x[pos - 1]
            return x[:pos] + [el] + x[pos:]
        return _set(s, path, ins)
    if kind == "u":
        if not path:
            return s[0]
        i = path[-1]
        return _set(s, path[:-1], lambda x: x[:i] + x[i] + x[i + 1:])
    raise ValueError(op)


def leaf_paths(s):
    out = []

    def rec(x, path):
        if isinstance(x, list):
            for i, y in enumerate(x):
                rec(y, path + [i])
        else:
            out.append(path)
    rec(s, [])
    return out


def _get(s, path):
    for i in path:
        s = s[i]
    return s


def leaf_first(s, paths, a, k, alpha, alpha_deep):
    """Structures obtained from s by substituting leaf number a and up to k-1 later leaves."""
    p = paths[a]
    cur = _get(s, p)
    for v in alpha:
        if v == cur and type(v) is type(cur):
            continue
        op = ["s", p, v]
        s1 = _set(s, p, lambda _: v)
        yield [op], s1
        if k > 1 and any(v == d and type(v) is type(d) for d in alpha_deep):
            for b in range(a + 1, len(paths)):
                for ops2, s2 in leaf_first(s1, paths, b, k - 1, alpha_deep, alpha_deep):
                    yield [op] + ops2, s2


def nested_units(tier):
    """The units of the nested space, in a fixed order: (shape, first structural op or None, first leaf or None)."""
    for shape in base_shapes(tier):
        s = build(shape)
        leaves = n_leaves(s)
        k, ks = level_of(tier, leaves)
        yield shape, s, k, ks, None, None
        for a in range(leaves):
            yield shape, s, k, ks, None, a
        for op in struct_ops(s):
            yield shape, s, k, ks, op, None


def run_unit(tier, unit, rec):
    cfg = CFG[tier]
    alpha, deep = cfg["sub_alphabet"], cfg["sub_alphabet_deep"]
    shape, s, k, ks, op1, a = unit
    if op1 is None and a is None:
        eval_struct(s, {"shape": shape, "ops": []}, rec)
        return
    if op1 is None:
        for ops, s1 in leaf_first(s, leaf_paths(s), a, k, alpha, deep):
            eval_struct(s1, {"shape": shape, "ops": ops}, rec)
        return
    s1 = apply_op(s, op1)
    eval_struct(s1, {"shape": shape, "ops": [op1]}, rec)
    if k >= 2:
        paths = leaf_paths(s1)
        for b in range(len(paths)):
            for ops, s2 in leaf_first(s1, paths, b, k - 1, alpha, deep):
                eval_struct(s2, {"shape": shape, "ops": [op1] + ops}, rec)
        if ks >= 2:  # two structural deviations are never combined with leaf substitutions
            seen = {json.dumps(s1)}
            for op2 in struct_ops(s1):
                s2 = apply_op(s1, op2)
                t2 = json.dumps(s2)
                if t2 in seen:  # same structure already produced inside this unit
                    continue
                seen.add(t2)
                eval_struct(s2, {"shape": shape, "ops": [op1, op2]}, rec)


# ------------------------------------------------------------------ type-tag space
UNKNOWN_TAGS = ["", "point", "Circle", "TimeStamp ", None, 3, ["Point"], {"type": "Point"}]


def tagkind(t):
    if isinstance(t, str):
        return "unknown-str"
    if t is None:
        return "none"
    if isinstance(t, (list, dict)):
        return "unhashable"
    return type(t).__name__


EXAMPLES = {
    "TimeStamp": 1.0, "TimeInterval": [1.0, 2.0], "Point": [1.0, 3.0], "BoundingBox": [2.0, 3.0, 1.0, 0.0],
    "LineString": [[2.0, 3.0], [1.0, 0.0]], "MultiPoint": [[1.0, 3.0]], "Polygon": [[[0.0, 0.0], [1.0, 3.0], [2.0, 0.0]]],
    "MultiLineString": [[[0.0, 0.0], [1.0, 3.0]]], "MultiPolygon": [[[[0.0, 0.0], [1.0, 3.0], [2.0, 0.0]]]],
}


def precision_structs():
    """Valid structures of every type whose coordinates need all 17 significant digits (and the largest / smallest magnitudes):
    the JSON dump must bring back exactly the same doubles."""
    maps = [
        lambda x: x + 0.30000000000000004,          # 0.1 + 0.2
        lambda x: x / 3.0 + 1.0000000000000002,     # thirds just above 1 + ulp
        lambda x: x * 1234567.8901234567 + 5e-324,  # large, 17 digits; 0 -> the smallest subnormal
        lambda x: (x + 1.0) * 1e-300,               # tiny
    ]

    def mp(c, f):
        return [mp(y, f) for y in c] if isinstance(c, list) else f(c)
    for t in TYPES:
        for f in maps:
            yield mp(EXAMPLES[t], f)
    # orderings decided by the last bit / by a few hundred nanoseconds at an hour's offset (strictly forward is an exact comparison)
    yield [[[1.0, 0.0], [1.0000000000000002, 3.0]]]
    yield [[[3600.0, 0.0], [3600.0000005, 3.0]]]
    yield [[3600.0000005, 0.0], [3600.0, 3.0]]
    yield [3600.0000005, 3600.0]
    yield [3600.0000005, 3.0, 3600.0, 0.0]
    # reversed pairs that become EQUAL in single precision (the order is decided on the doubles given)
    yield [7200.00015, 1000.0, 7200.0001, 2000.0]
    yield [1.0, 4200000.3, 2.0, 4200000.1]
    yield [7200.00015, 7200.0001]
    yield [[7200.00015, 0.0], [7200.0001, 3.0]]
    # bounds for which low + (high - low) != high in doubles (the normal form only re-orders what was given)
    yield [0.5, 1024.9, 1.5, 8000.3]
    yield [1.5, 16360.72, 0.5, 2121.8]
    yield [0.5, 59.94, 1.5, 1000.1]
    yield 4999999.999999999
    yield [0.1, 4999999.999999999]
    yield [0.1, 4999999.999999999, 0.7, 0.30000000000000004]


def tag_pool(tier):
    n = CFG[tier]["tag_pool_flat_len"]
    pool = list(ALPHA_F)
    for k in range(n + 1):
        pool += [list(t) for t in itertools.product(ALPHA_F, repeat=k)]
    pool += [EXAMPLES[t] for t in TYPES]
    pool += [build(sh) for sh in base_shapes("quick")]
    return pool


def tag_cases(tier):
    pool = tag_pool(tier)
    for c in pool:
        for x in TYPES:
            for y in list(TYPES) + UNKNOWN_TAGS:
                yield {"sp": "ctor_tag", "c": c, "cls": x, "tag": y}
        yield {"sp": "mode_tag", "c": c, "missing": "type"}
        for u in UNKNOWN_TAGS:
            yield {"sp": "mode_tag", "c": c, "tag": u}
    # an attribute object that happens to BE a geometry of another class than its type attribute names (a re-tagged copy)
    for x in TYPES:
        for y in TYPES:
            if x != y:
                yield {"sp": "retagged", "cls": x, "tag": y}
    for x in TYPES:
        yield {"sp": "mode_tag", "tag": x, "missing": "coordinates"}
        for how in ("json_truncated", "json_nonobject", "json_mode_given_dict", "dict_mode_given_text",
                    "dict_mode_given_list", "attributes_mode_given_dict", "empty_text"):
            yield {"sp": "misuse", "how": how, "type": x}


def _try(fn):
    try:
        return fn()
    except Exception as e:  # noqa
        return _exc(e)


def run_tag_case(case):
    sp = case["sp"]
    out = Out(case)
    if sp == "retagged":
        x, y = case["cls"], case["tag"]
        inst = GEOM_CLASSES[x](coordinates=EXAMPLES[x]).model_copy(update={"type": y})
        c = inst.coordinates
        exp = gm.valid(y, c)
        r = _try(lambda: geometry_validate(inst, mode="attributes"))
        got = _label(r)
        cls = {"type": y, "entry": "attributes", "tag": "instance_of_" + x, "model": "valid" if exp else gm.why_invalid(y, c), "got": got}
        out.expect("accept_iff_valid", (got == "accept") == exp, got, "accept" if exp else "reject", cls)
        if got == "accept":
            out.expect("class_matches_tag", type(r) is GEOM_CLASSES[y] and r.type == y, [type(r).__name__, getattr(r, "type", None)], [y, y],
                       {"type": y, "entry": "attributes", "tag": "instance_of_" + x})
            if exp:
                out.expect("normal_form", r.coordinates == gm.normal(y, c), r.coordinates, gm.normal(y, c),
                           {"type": y, "entry": "attributes", "input": "retagged-instance"})
        else:
            out.expect("no_object_on_reject", got == "reject", _msg(r), "a ValueError subclass",
                       {"type": y, "entry": "attributes", "tag": "instance_of_" + x, "exc": _excname(r)})
        out.nontrivial = exp
        out.klass = "retagged:%s" % got
        return out
    if sp == "ctor_tag":
        x, y, c = case["cls"], case["tag"], case["c"]
        klass = GEOM_CLASSES[x]
        same = isinstance(y, str) and y == x
        exp = same and gm.valid(x, c)
        r = _try(lambda: klass(type=y, coordinates=c))
        got = _label(r)
        kind = "same" if same else "mismatch" if (isinstance(y, str) and y in TYPES) else tagkind(y)
        model = "valid" if exp else ("tag:" + kind if not same else gm.why_invalid(x, c))
        cls = {"type": x, "entry": "ctor(type=)", "tag": kind, "model": model, "got": got}
        out.expect("accept_iff_valid", (got == "accept") == exp, got, "accept" if exp else "reject", cls)
        if got != "accept":
            out.expect("no_object_on_reject", got == "reject", _msg(r), "a ValueError subclass",
                       {"type": x, "entry": "ctor(type=)", "tag": kind, "exc": _excname(r)})
        else:
            out.expect("class_matches_tag", type(r) is klass and r.type == x, [type(r).__name__, r.type], [x, x],
                       {"type": x, "entry": "ctor(type=)", "tag": kind})
            if exp:
                plain = _try(lambda: klass(coordinates=c))
                out.transitions += 1
                out.expect("entry_points_agree", plain == r, repr(plain), repr(r), {"type": x, "entry": "ctor(type=)", "tag": kind})
                out.expect("normal_form", r.coordinates == gm.normal(x, c), r.coordinates, gm.normal(x, c),
                           {"type": x, "entry": "ctor(type=)", "input": "normal" if gm.is_normal(x, c) else "needs-normalising"})
        out.nontrivial = gm.valid(x, c)
        out.klass = "ctor_tag:%s:%s" % (kind, got)
        return out
    if sp == "mode_tag":
        d = {}
        if case.get("missing") != "type":
            d["type"] = case["tag"]
        if case.get("missing") != "coordinates":
            d["coordinates"] = case["c"]
        kind = "missing-" + case["missing"] if "missing" in case else tagkind(case["tag"])
        text = json.dumps(d)
        calls = [
            ("dict", lambda: geometry_validate(d, mode="dict")),
            ("attributes", lambda: geometry_validate(SimpleNamespace(**d), mode="attributes")),
            ("json", lambda: geometry_validate(text)),
            ("json(mode=)", lambda: geometry_validate(text, mode="json")),
        ]
        res = [(n, _try(f)) for n, f in calls]
        gots = [_label(r) for _, r in res]
        for (n, r), got in zip(res, gots):
            out.expect("accept_iff_valid", got != "accept", got, "reject", {"entry": n, "tag": kind, "model": "tag:" + kind, "got": got})
            if got != "accept":
                allc = all(g.startswith("crash") for g in gots)
                out.expect("no_object_on_reject", got == "reject", _msg(r), "a ValueError subclass",
                           {"entry": "all" if allc else n, "tag": kind, "exc": _excname(r)})
        out.expect("entry_points_agree", len({g == "accept" for g in gots}) == 1, gots, "same decision", {"tag": kind, "pattern": "/".join(gots)})
        out.transitions = out.validated = 4
        out.nontrivial = "c" in case and any(gm.valid(t, case["c"]) for t in TYPES)
        out.klass = "mode_tag:%s:%s" % (kind, "/".join(sorted(set(gots))))
        return out
    # misuse of modes
    x, how = case["type"], case["how"]
    d = {"type": x, "coordinates": EXAMPLES[x]}
    text = json.dumps(d)
    fn = {
        "json_truncated": lambda: geometry_validate(text[:-1]),
        "json_nonobject": lambda: geometry_validate(json.dumps(EXAMPLES[x])),
        "json_mode_given_dict": lambda: geometry_validate(d),
        "dict_mode_given_text": lambda: geometry_validate(text, mode="dict"),
        "dict_mode_given_list": lambda: geometry_validate([x, EXAMPLES[x]], mode="dict"),
        "attributes_mode_given_dict": lambda: geometry_validate(d, mode="attributes"),
        "empty_text": lambda: geometry_validate(""),
    }[how]
    r = _try(fn)
    got = _label(r)
    out.expect("accept_iff_valid", got != "accept", got, "reject", {"entry": how, "model": "misuse", "got": got})
    if got != "accept":
        out.expect("no_object_on_reject", got == "reject", _msg(r), "a ValueError subclass",
                   {"entry": how, "exc": _excname(r)})
    # the well-formed counterpart is accepted (so the rejection is due to the misuse)
    okc = _try(lambda: geometry_validate(text))
    out.expect("accept_iff_valid", _label(okc) == "accept", _label(okc), "accept", {"entry": "json", "type": x, "model": "valid", "got": _label(okc)})
    out.transitions = out.validated = 2
    out.nontrivial = True
    out.klass = "misuse:%s:%s" % (how, got)
    return out


# ------------------------------------------------------------------ blocks
def blocks(tier):
    nb = CFG[tier]["blocks"]
    out = []
    for space in ("flat", "wrap", "tags", "nested"):
        out += [{"space": space, "tier": tier, "shard": [i, nb[space]]} for i in range(nb[space])]
    # the same structures once more, each shard walked from its last structure to its first: a validator that remembers
    # something from one call to the next (a cache of accepted or of rejected inputs) meets both orders of every pair
    for space in ("flat", "wrap", "nested"):
        out += [{"space": space, "tier": tier, "shard": [i, nb[space]], "order": "reversed"} for i in range(nb[space])]
    out.append({"space": "precision", "tier": tier, "shard": [0, 1]})
    out.append({"space": "constant", "tier": tier, "shard": [0, 1]})
    out += [{"space": "optimized", "tier": tier, "shard": [i, 4]} for i in range(4)]
    out.append({"space": "numtype", "tier": tier, "shard": [0, 1]})
    return out


# ------------------------------------------------------------------ the same numbers as other numeric types
NUMTYPES = ["int", "np.float64", "np.float32", "np.int64", "np.int32", "np.uint8", "tuples"]  # tuples: floats in tuples instead of lists


def numtype_cases():
    """Every example structure, and the same with one leaf made invalid (-1 where the type allows a sign, else MAX + 1), with all leaves
    given as Python int / numpy scalar types (the example leaves 0..3 are exact in each of them)."""
    for t in TYPES:
        for bad in (False, True):
            for num in NUMTYPES:
                if bad and num == "np.uint8":  # noqa
                    continue  # neither -1 nor MAX + 1 exists as uint8
                yield {"sp": "numtype", "tag": t, "bad": bad, "num": num}


def run_numtype(case):
    import numpy as np
    conv = {"int": int, "np.float64": np.float64, "np.float32": np.float32, "np.int64": np.int64, "np.int32": np.int32,
            "np.uint8": np.uint8, "tuples": float}[case["num"]]
    box = tuple if case["num"] == "tuples" else list
    t = case["tag"]
    c = EXAMPLES[t]
    if case["bad"]:
        state = [False]

        def spoil(x):
            if isinstance(x, list):
                return [spoil(y) for y in x]
            if not state[0]:
                state[0] = True
                return -1.0
            return x
        c = spoil(c)

    def cv(x):
        return box(cv(y) for y in x) if isinstance(x, list) else conv(x)
    out = Out(case)
    exp = gm.valid(t, c)
    x = cv(c)
    klass = GEOM_CLASSES[t]
    cls = {"type": t, "entry": "all", "num": case["num"]}
    res = [_try(lambda: klass(coordinates=x)), _try(lambda: geometry_validate({"type": t, "coordinates": x}, mode="dict")),
           _try(lambda: geometry_validate(SimpleNamespace(type=t, coordinates=x), mode="attributes"))]
    got = [_label(r) for r in res]
    out.transitions = out.validated = 3
    out.nontrivial = True
    out.expect("accept_iff_valid", all((g == "accept") == exp for g in got), got, "accept" if exp else "reject",
               dict(cls, model="valid" if exp else gm.why_invalid(t, c), got="/".join(got)))
    if exp:
        norm = gm.normal(t, c)
        for r in res:
            if _label(r) == "accept":
                out.expect("normal_form", r.coordinates == norm, r.coordinates, norm, dict(cls, input="other-number-type"))
                back = _try(lambda r=r: geometry_validate(r.model_dump_json()))
                out.expect("json_roundtrip", _label(back) == "accept" and back == r, repr(back)[:120], repr(r)[:120], cls)
    else:
        for r in res:
            if _label(r) != "accept":
                out.expect("no_object_on_reject", _label(r) == "reject", _msg(r), "a ValueError subclass", dict(cls, exc=_excname(r)))
    out.klass = "numtype:%s:%s" % (case["num"], "/".join(sorted(set(got))))
    return out


# ------------------------------------------------------------------ environment axis: the same validators under python -O
ENV_O = "python -O"


def optimized_structs():
    """Structures re-run in a child interpreter started with -O (assert statements compiled away): every scalar and flat list up to
    length 4, and every example structure with one leaf replaced by each alphabet value, one list reversed, or one element dropped."""
    for v in ALPHA_F:
        yield v
    for n in range(0, 5):
        for t in itertools.product(ALPHA_F, repeat=n):
            yield list(t)
    for t in TYPES:
        base = EXAMPLES[t]
        if not isinstance(base, list) or not any(isinstance(x, list) for x in base):
            continue
        yield base
        for op in struct_ops(base):
            if op[0] in ("r", "d"):
                yield apply_op(base, op)
        for path in _all_leaf_paths(base):
            for v in ALPHA_F:
                yield _set(base, path, lambda _x, v=v: v)


def _all_leaf_paths(x, path=()):
    if isinstance(x, list):
        for i, y in enumerate(x):
            yield from _all_leaf_paths(y, path + (i,))
    else:
        yield list(path)


def child_case(case):
    c = case["c"]
    ctext = json.dumps(c)
    return [run_one(c, ctext, tag, {"sp": "struct", "c": c, "tag": tag}) for tag in TYPES]


def constant_cases():
    """The bound the validators enforce is the public constant: for every type with a frequency leaf, the example structure with
    that leaf set to every public spelling of MAX_FREQUENCY is accepted and with MAX_FREQUENCY + 1 rejected (no reference
    to the model's own copy of the constant)."""
    import soundevent.data.geometries as geoms
    spellings = [("data.MAX_FREQUENCY", data.MAX_FREQUENCY), ("data.geometries.MAX_FREQUENCY", geoms.MAX_FREQUENCY)]

    def put(c, v, state):
        if isinstance(c, list):
            return [put(y, v, state) for y in c]
        if c == 3.0 and not state[0]:
            state[0] = True
            return v
        return c
    for t in TYPES:
        if t in ("TimeStamp", "TimeInterval"):
            continue
        for name, m in spellings:
            for delta, exp in ((0, "accept"), (1, "reject")):
                yield {"sp": "constant", "type": t, "spelling": name, "delta": delta, "expect": exp,
                       "c": put(EXAMPLES[t], float(m) + delta, [False])}


def run_constant_case(case):
    out = Out(case)
    t = case["type"]
    r = _try(lambda: GEOM_CLASSES[t](coordinates=case["c"]))
    got = _label(r)
    out.expect("max_frequency_is_the_bound", got == case["expect"], got, case["expect"],
               {"type": t, "spelling": case["spelling"], "at": "MAX" if case["delta"] == 0 else "MAX+1"})
    out.expect("max_frequency_is_the_bound", float(data.MAX_FREQUENCY) == float(gm.MAX_FREQUENCY),
               data.MAX_FREQUENCY, gm.MAX_FREQUENCY, {"type": "-", "spelling": "data.MAX_FREQUENCY", "at": "documented value"})
    out.klass = "constant:%s" % got
    return out


class _Deferred:
    """Stands in for the recorder while a shard is enumerated: keeps the structures, runs nothing."""

    def __init__(self):
        self.pending = []

    def count(self, name, n=1):
        pass


def run_block(block, rec):
    if block.get("order") == "reversed":
        global eval_struct
        real, later = eval_struct, _Deferred()
        eval_struct = lambda c, how, r: r.pending.append((copy.deepcopy(c), how))  # noqa: E731
        try:
            _walk(dict(block, order=None), later)
        finally:
            eval_struct = real
        for c, how in reversed(later.pending):
            eval_struct(c, how, rec)
        rec.count("structures_walked_in_reverse", len(later.pending))
        return
    _walk(block, rec)


def _walk(block, rec):
    tier = block["tier"]
    i, n = block["shard"]
    sp = block["space"]
    if sp == "flat":
        for c in itertools.islice(flat_structs(tier), i, None, n):
            eval_struct(c, None, rec)
    elif sp == "wrap":
        for c in itertools.islice(wrap_structs(tier), i, None, n):
            eval_struct(c, None, rec)
    elif sp == "precision":
        for c in precision_structs():
            eval_struct(c, None, rec)
    elif sp == "constant":
        for case in constant_cases():
            rec.add(run_constant_case(case))
    elif sp == "numtype":
        for case in numtype_cases():
            rec.add(run_numtype(case))
    elif sp == "optimized":
        from mc import child
        cases = [{"c": c} for c in itertools.islice(optimized_structs(), i, None, n)]
        for o in child.run_in_child("c03", ENV_O, cases):
            rec.add(o)
    elif sp == "tags":
        for case in itertools.islice(tag_cases(tier), i, None, n):
            rec.add(run_tag_case(case))
    else:
        for unit in itertools.islice(nested_units(tier), i, None, n):
            run_unit(tier, unit, rec)
            rec.count("nested_units")


def replay_case(case):
    if case.get("env"):
        from mc import child
        outs = child.run_in_child("c03", case["env"], [{"c": case["c"]}])
        return next(o for o in outs if o.case["tag"] == case["tag"])
    if case["sp"] == "struct":
        c = case["c"]
        return run_one(c, json.dumps(c), case["tag"], case)
    if case["sp"] == "constant":
        return run_constant_case(case)
    if case["sp"] == "numtype":
        return run_numtype(case)
    return run_tag_case(case)
