"""C01 — AOEF save/load round trip is lossless for every collection type.

Explicit-state exploration of object graphs (mc.graphgen): every configuration
within k deviations of the minimal / skeleton / maximal pole, for each of the
eight collection types, each driven through a history of save/load cycles with
fresh io.save / io.load calls through a real file.  Invariants: same type,
structural equality with the original after the first cycle, exact fixpoint
(object and document) on every later cycle.
"""
from __future__ import annotations

import json
import os

from soundevent import io

from mc import graphgen as G
from mc.runner import Out, scratch_dir

ID = "C01"
RULE = (
    "for each of the 8 collection types: every configuration within k deviations (k=2 quick, 3 thorough) of the "
    "minimal, skeleton and maximal object-graph poles (axes: each optional field, each list length 0/1/2, geometry kind, "
    "sharing of tags/users/notes/sound events/sequences/parents, foreign recordings, tz-aware timestamps, audio_dir), each through "
    "n consecutive save/load cycles (n=2 quick, 3 thorough) with fresh calls via a real file. State = canonical JSON of the "
    "built collection + audio_dir flag. Non-trivial = the saved document defines at least one cross-referenced object "
    "(a top-level list besides the collection's own fields is non-empty)."
)
ASSUMPTIONS = [
    "terms are simple-label terms (term_from_key), so 'a term is stored as its label' is the identity",
    "feature labels are distinct within each feature list (the property's own quantifier)",
    "objects sharing a UUID are the same object; list lengths <= 2, sequence nesting <= 2 parents",
    "identifiers are uuid5 of pool names and timestamps fixed literals: the generator owns uuid4()/datetime.now() defaults",
]


def tier_k(tier):
    return 2 if tier == "quick" else 3


def tier_cycles(tier):
    return 2 if tier == "quick" else 3


def bounds(tier):
    return {
        "collection_types": G.KINDS, "poles": list(G.POLES),
        "deviation_bound": {p: pole_k(tier, p) for p in G.POLES},
        "cycles": "%d (2 for configurations with 3 deviations)" % tier_cycles(tier), "axes": len(G.AXES_DECL), "axis_names": G.AXIS_NAMES,
        "field_audit": G.audit(),
    }


def pole_k(tier, pole):
    """Deviation bound per pole: thorough explores 3 deviations from the skeleton and maximal poles (the minimal pole cannot
    reach nested fields within 3 deviations anyway) and 2 from the minimal pole."""
    k = tier_k(tier)
    return 2 if (tier != "quick" and pole == "minimal") else k


def blocks(tier):
    out = []
    for kind in G.KINDS:
        for p in G.POLES:
            k = pole_k(tier, p)
            n = sum(1 for _ in G.cases(kind, k, [p]))
            nchunks = max(1, min(64, n // 400))
            for i in range(nchunks):
                out.append({"kind": kind, "pole": p, "k": k, "i": i, "of": nchunks, "cycles": tier_cycles(tier)})
    return out


def run_block(block, rec):
    for idx, (j, p, delta) in enumerate(G.cases(block["kind"], block["k"], [block["pole"]])):
        if idx % block["of"] != block["i"]:
            continue
        # three cycles for the configurations within 2 deviations, two for the (much more numerous) 3-deviation ones
        cycles = block["cycles"] if j <= 2 else min(block["cycles"], 2)
        rec.add(run_case({"kind": block["kind"], "pole": p, "delta": delta, "dev": j, "cycles": cycles}))


def data_section(text):
    doc = json.loads(text)
    return doc.get("data")


def run_case(case):
    out = Out(case)
    kind = case["kind"]
    cfg = G.config(case["pole"], case["delta"])
    adir = G.AUDIO_DIR if cfg["audio_dir"] else None
    x0 = G.build(kind, cfg)
    out.key = [kind, bool(adir), x0.model_dump_json()]
    path = os.path.join(scratch_dir(), "c01.json")
    cur = x0
    prev_doc = None
    n = 0
    for cycle in range(1, case["cycles"] + 1):
        try:
            io.save(cur, path, audio_dir=adir)
            with open(path) as f:
                text = f.read()
            nxt = io.load(path, audio_dir=adir)
        except Exception as e:  # noqa
            out.fail("no_crash", "%s: %s" % (type(e).__name__, str(e)[:300]), "save/load succeeds",
                     {"kind": kind, "cycle": min(cycle, 2), "exc": type(e).__name__})
            out.klass = "crash"
            break
        n += 2
        doc = data_section(text)
        if cycle == 1:
            out.nontrivial = any(isinstance(v, list) and v for k_, v in doc.items())
            out.expect("type", type(nxt) is type(x0), type(nxt).__name__, type(x0).__name__, {"kind": kind})
            if nxt == x0:
                out.ok("equal")
            else:
                d = G.diff(x0, nxt)
                fields = sorted({o for _, o, _ in d}) or ["<pydantic-eq-only>"]
                out.fail("equal", [list(x) for x in d[:4]], "loaded == original",
                         {"kind": kind, "field": fields[0]})
        else:
            if nxt == cur:
                out.ok("fixpoint_obj")
            else:
                d = G.diff(cur, nxt)
                fields = sorted({o for _, o, _ in d}) or ["<pydantic-eq-only>"]
                out.fail("fixpoint_obj", [list(x) for x in d[:4]], "cycle n+1 == cycle n", {"kind": kind, "field": fields[0]})
            if doc == prev_doc:
                out.ok("fixpoint_doc")
            else:
                keys = sorted(k_ for k_ in set(doc) | set(prev_doc) if doc.get(k_) != prev_doc.get(k_))
                out.fail("fixpoint_doc", keys, "identical data section", {"kind": kind, "section": keys[0] if keys else "?"})
        prev_doc = doc
        cur = nxt
    out.transitions = n
    out.validated = max(1, n // 2)
    if out.klass == "ok":
        out.klass = "%s:%s" % (kind, "lossless" if not out.viol else "lossy")
    return out


def replay_case(case):
    return run_case(case)
