"""C16 — Range dimensions and coordinate lookup are exact.

Three exhaustively enumerated spaces, each run on the real functions and on the
lattice model of models/arrays.py:

range   start x step x n x stop-kind x constructor form  -> create_range_dim (step and size
        forms), create_time_range (step, samplerate, both), create_frequency_range
index   every axis with n <= 10 x every query position x raise_error -> get_coord_index
write   every array shape x every cell / slice address x value kind, all sequences of
        `depth` writes (explicit-state BFS, mc.bfs)                   -> set_value_at_pos
"""
from __future__ import annotations

import itertools
import math
from fractions import Fraction as F

import numpy as np
import xarray as xr

from soundevent.arrays import (
    create_frequency_range,
    create_range_dim,
    create_time_range,
    get_coord_index,
    set_value_at_pos,
)

from mc import bfs as bfs_mod
from mc.runner import Out
from mc.space import chunk
from models import arrays as am

ID = "C16"
RULE = (
    "[representations] every index query is also made as numpy.float64 and (whole numbers) as Python int / numpy.int64; single writes are repeated on "
    "column-major arrays and on transposed views. "
    "range: every (start, step, n, stop = start + (n - k/4)*step for k in 0..3, constructor form) of the stated "
    "alphabets, stop being the double nearest to the intended real number; non-trivial when n >= 2. "
    "index: every axis (start, step, n <= 10) x every query (each coordinate, its two neighbouring doubles, every "
    "midpoint, first - step/2, first - 2 step, last + step/2, last + step, last + 2 step) x raise_error; one case per "
    "axis, non-trivial when n >= 2. "
    "write: BFS over all sequences of `depth` calls of set_value_at_pos from the array holding 100 + flat index, the "
    "operation alphabet being every non-empty subset of dimensions x every index tuple x position kind (on the "
    "coordinate / half a step above it) x value kind, plus one below-range write per dimension; one evaluation per "
    "transition, states merged on array contents; non-trivial when the write is expected to change at least one "
    "element and to leave at least one unchanged, or is a rejected write from a non-initial state."
)
ASSUMPTIONS = [
    "lattice = exact real values of the doubles passed (start, step) or 1/samplerate; stop is the double nearest to "
    "start + (n - k/4)*step, so the exact quotient (stop-start)/step is n - k/4 to within 2.5e-10, a quarter of the tolerance (asserted per "
    "case; a case failing the precondition is counted vacuous)",
    "count_exact is judged on EVERY whole case (k = 0), not only on those whose double-precision quotient "
    "(stop-start)/step evaluates to exactly n: by the tolerance rule of DESIGN.md section 3 a lattice point within "
    "1e-9*step of stop is stop itself and lies outside [start, stop), lattice point n-1 is a full step inside, so n "
    "is the only count compatible with 'all inside [start, stop)'; the property names non-representable steps and "
    "its anchored mechanism is precisely the removal of the element that rounding pushed onto stop, which is only "
    "exercised when the double quotient is n + 1ulp. Each judged case carries cls.quot in {eq, above, below} "
    "(double quotient ==, >, < n) so that the unarguable sub-class 'eq' is visible separately in the evidence",
    "count_nonwhole (added to DESIGN's oracle list): for stop a quarter, half or three quarters of a step short of a "
    "lattice point, lattice points 0..n-1 are at least step/4 inside [start, stop) and point n at least step/4 outside, "
    "so 'the coordinates start + i*step inside [start, stop)' are exactly n whatever the rounding; reading the "
    "statement as allowing in-range lattice points to be dropped would make the empty axis conform",
    "coords_on_lattice uses 1e-9*step and is judged only where 4 ulp(|start| + n*step) <= 1e-9*step, i.e. where a "
    "correct double-precision start + i*step meets it with margin (otherwise vacuous); inside_half_open is a literal "
    "comparison of the returned doubles with the start/stop doubles passed (no products involved; a correct "
    "implementation's last coordinate is >= step/4 below stop)",
    "get_coord_index: the range of an axis is [coords[0], coords[-1]] (get_dim_range; the function is defined on "
    "arbitrary axes that need not carry a step). 'Upper edge' = the last coordinate -> last index. A value in "
    "(last, last + step], including v == last + step, is OUTSIDE: KeyError (or a ValueError subclass) when "
    "raise_error, else the axis length (exclusive end); below: KeyError / 0. Such queries are classified "
    "zone=nominal_last_bin so that a tree adopting the other reading shows up as one identifiable group",
    "axes for index/write are built directly from model coordinates (not through create_range_dim)",
    "set_value_at_pos is judged on the returned array (and on the input array after a rejected call); values are "
    "stored verbatim, so contents are compared exactly; float64 arrays only; dtype float32 axes, NaN, unsorted or "
    "duplicated coordinates, and queries naming an unknown dimension are out of scope",
]

# ---------------------------------------------------------------- alphabets
T = 1.0 / 3.0
# 1e6: coordinates a million steps of 1.0 (1e9 steps of 1e-3) away from the origin, for tolerances that scale with the value
STARTS = {"quick": [0.0, 0.5, T, 0.1, 10.0, -2.0, 1e6]}
STARTS["thorough"] = STARTS["quick"] + [0.001, -0.7, 3600.0, 2e9]
STEPS = {"quick": [1.0, 0.5, 0.3, 0.1, 0.01, T, 1 / 8000, 1 / 44100]}
STEPS["thorough"] = STEPS["quick"] + [2.5, 0.05, 1 / 48000, 1 / 96000]
NS = {"quick": [0, 1, 2, 3, 7, 10, 100, 1000, 4410]}
NS["thorough"] = [0, 1, 2, 3, 5, 7, 10, 50, 100, 1000, 4410, 44100]
QUARTERS = [0, 2, 1, 3]  # stop = start + (n - k/4) step
FORMS = ["range_dim", "range_dim_size", "time_step", "time_samplerate", "time_step_and_samplerate", "frequency"]
INDEX_NS = {"quick": [1, 2, 3, 7, 10], "thorough": [1, 2, 3, 4, 5, 6, 7, 8, 9, 10]}

DIMS = ("x", "y", "z")
# per lattice set: (start, step) of the x, y, z axes; "int" = integer coordinates 0..n-1
LATS = [
    [("int", 1), (0.5, 0.5), (0.1, 0.1)],
    [(T, 0.3), (-2.0, 1 / 44100), (10.0, 0.01)],
]


def write_shapes(tier):
    top = 3 if tier == "quick" else 4
    zs = [2] if tier == "quick" else [2, 3]
    r = range(1, top + 1)
    return [(n,) for n in r] + [(n, m) for n in r for m in r] + [(n, m, z) for n in r for m in r for z in zs]


def write_lats(tier):
    return [0] if tier == "quick" else [0, 1]


def write_vals(tier):
    return ["scalar", "list", "array"] if tier == "quick" else ["scalar", "list", "array", "tuple"]


def write_depth(tier, shape):
    if tier == "thorough" and len(shape) <= 2 and max(shape) <= 3:
        return 3
    return 2


def bounds(tier):
    return {
        "range_starts": STARTS[tier], "range_steps": STEPS[tier], "range_n": NS[tier],
        "range_stop": "start + (n - k/4) step, k in 0..3 (k = 0 whole)", "range_forms": FORMS,
        "index_n": INDEX_NS[tier], "index_raise_error": [True, False],
        "write_shapes": [list(s) for s in write_shapes(tier)], "write_lattice_sets": [LATS[i] for i in write_lats(tier)],
        "write_value_kinds": write_vals(tier),
        "write_depth": sorted({write_depth(tier, s) for s in write_shapes(tier)}),
    }


# ---------------------------------------------------------------- blocks
def samplerate_of(step):
    sr = round(1.0 / step)
    return sr if sr >= 1 and 1.0 / sr == step else None


def blocks(tier):
    combos = [(a, b) for a in STARTS[tier] for b in STEPS[tier]]
    out = [{"space": "range", "tier": tier, "combos": c} for c in chunk(combos, 48)]
    axes = [(a, b, n) for a in STARTS[tier] for b in STEPS[tier] for n in INDEX_NS[tier]]
    out += [{"space": "index", "axes": c} for c in chunk(axes, 8)]
    out.append({"space": "index_irregular"})
    systems = []
    for lat in write_lats(tier):
        for shape in write_shapes(tier):
            nops = len(write_ops(shape, write_vals(tier)))
            depth = write_depth(tier, shape)
            systems.append((lat, shape, nops, depth, nops ** depth))
    target = max(6000, sum(s[4] for s in systems) // 80)  # about 80-110 write blocks of similar cost
    for lat, shape, nops, depth, cost in systems:
        pieces = max(1, min(nops, round(cost / target)))
        for c in chunk(list(range(nops)), pieces):
            out.append({"space": "write", "tier": tier, "shape": list(shape), "lat": lat, "depth": depth,
                        "vals": write_vals(tier), "first": c})
    # the same single writes on arrays whose coordinate mapping is not in dimension order (depth 1)
    for lat, shape, nops, depth, cost in systems:
        if len(shape) >= 2 and lat == write_lats(tier)[0]:
            out.append({"space": "write", "tier": tier, "shape": list(shape), "lat": lat, "depth": 1, "layout": "shuffled",
                        "vals": write_vals(tier), "first": list(range(nops))})
            # ... and on arrays whose memory layout is not C-contiguous (column-major buffer; a transposed view)
            for layout in ("fortran", "transposed_view"):
                out.append({"space": "write", "tier": tier, "shape": list(shape), "lat": lat, "depth": 1, "layout": layout,
                            "vals": write_vals(tier), "first": list(range(nops))})
    return out


def run_block(block, rec):
    sp = block["space"]
    if sp == "range":
        tier = block["tier"]
        for start, step in block["combos"]:
            for n in NS[tier]:
                for k in QUARTERS:
                    if n == 0 and k:
                        continue
                    for form in FORMS:
                        case = {"space": "range", "form": form, "start": start, "step": step, "n": n, "k": k}
                        if form == "range_dim_size" and (k or n == 0):
                            continue
                        if form in ("time_samplerate", "time_step_and_samplerate"):
                            sr = samplerate_of(step)
                            if form == "time_samplerate":
                                if sr is None:
                                    continue
                                case["samplerate"] = sr
                            else:
                                case["samplerate"] = 7 if sr != 7 else 9  # must be ignored: step takes precedence
                        rec.add(run_range(case))
    elif sp == "index_irregular":
        for name in IRREGULAR:
            rec.add(run_index({"space": "index", "irregular": name}))
    elif sp == "index":
        for start, step, n in block["axes"]:
            rec.add(run_index({"space": "index", "start": start, "step": step, "n": n}))
    else:
        explore_writes(block, rec)


def replay_case(case):
    sp = case["space"]
    if sp == "range":
        return run_range(case)
    if sp == "index":
        return run_index(case)
    return run_write_history(case)


# ---------------------------------------------------------------- range space
def run_range(case):
    out = Out(case)
    form, start, n, k = case["form"], case["start"], case["n"], case["k"]
    step = case["step"]
    # the real-number step the caller intends
    if form == "time_samplerate":
        step_real = F(1, case["samplerate"])
    else:
        step_real = am.fr(step)
    stop = am.stop_for(start, step_real, n, k)
    if form == "range_dim_size" and n:
        step_real = (am.fr(stop) - am.fr(start)) / n
    try:
        if form == "range_dim":
            v = create_range_dim("x", start, stop, step)
        elif form == "range_dim_size":
            v = create_range_dim("x", start, stop, size=n)
        elif form == "time_step":
            v = create_time_range(start, stop, step=step)
        elif form == "time_samplerate":
            v = create_time_range(start, stop, samplerate=case["samplerate"])
        elif form == "time_step_and_samplerate":
            v = create_time_range(start, stop, step=step, samplerate=case["samplerate"])
        else:
            v = create_frequency_range(start, stop, step)
        res = ("ok", v)
    except Exception as e:  # noqa
        res = ("reject" if isinstance(e, ValueError) else "crash", type(e).__name__)

    cls = {"fn": form}
    if n == 0:
        # empty range: stop == start, (stop - start)/step = 0 is a whole number, so exactly 0 coordinates are expected
        # (for the size= form the step is undefined: not judged)
        if form == "range_dim_size" or k:
            out.vac("count_exact")
        else:
            got = len(res[1].data) if res[0] == "ok" else list(res)
            out.expect("count_exact", got == 0, got, 0, dict(cls, quot="empty"))
        out.klass = "range:empty:" + (res[0] if res[0] != "ok" else "len%d" % len(res[1].data))
        return out

    cnt, whole = am.count_model(start, stop, step_real)
    q = am.quotient(start, stop, step_real)
    if cnt != n or whole != (k == 0) or abs(q - (n - F(k, 4))) > am.REL_TOL / 4:
        out.vac("count_exact" if k == 0 else "count_nonwhole")  # precondition of the construction failed
        out.klass = "range:precondition_failed"
        return out
    out.nontrivial = n >= 2
    if k == 0:
        fq = (stop - start) / float(step_real)
        quot = "eq" if fq == n else ("above" if fq > n else "below")
        count_oracle, ccls, kind = "count_exact", dict(cls, quot=quot), "whole_" + quot
    else:
        frac = F(4 - k, 4)
        count_oracle, ccls, kind = "count_nonwhole", dict(cls, frac="le_half" if frac <= F(1, 2) else "gt_half"), "frac_%s" % frac
    detail = {"stop": stop, "exact_quotient": float(q)}
    if res[0] != "ok":
        out.fail("count_exact" if k == 0 else "no_crash", list(res), n, dict(ccls, outcome=res[0]), detail)
        out.klass = "range:%s:%s" % (kind, res[0])
        return out
    v = res[1]
    d = np.asarray(v.data)
    got = int(d.shape[0]) if d.ndim == 1 else -1
    tail = [float(x) for x in d[-2:]] if d.ndim == 1 else None
    if count_oracle == "count_nonwhole":
        # The statement fixes the number of coordinates only when (stop - start)/step is a whole number.  In the
        # non-whole case the implementation drops a last lattice point lying within half a step of stop (a guard that
        # load_recording relies on for durations that are not exact multiples of the sample period); this is recorded
        # in the outcome histogram, not judged.
        out.vac("count_nonwhole")
    else:
        out.expect(count_oracle, got == n, got, n, ccls, dict(detail, last_coords=tail))
    # coordinates on the lattice (whatever their number)
    if d.ndim == 1 and am.tolerance_is_meaningful(start, step_real, max(n, got)):
        bad, worst = am.first_off_lattice(d.tolist(), start, step_real)
        out.expect("coords_on_lattice", bad is None, {"first_bad_index": bad, "worst_dev_in_steps": worst},
                   "every coord[i] within 1e-9*step of start + i*step", cls,
                   None if bad is None else {"coord": float(d[bad]), "lattice": float(am.lattice_point(start, step_real, bad))})
    else:
        out.vac("coords_on_lattice")
    if got > 0:
        inside = bool(d[0] >= start) and bool(d[-1] < stop) and bool(np.all(np.diff(d) > 0))
        out.expect("inside_half_open", inside, [float(d[0]), float(d[-1])], [start, "< %r" % stop], cls, detail)
    else:
        out.vac("inside_half_open")
    attr = v.attrs.get("step")
    good = False
    if attr is not None:
        try:
            good = abs(am.fr(float(attr)) - step_real) <= am.REL_TOL * step_real
        except Exception:  # noqa
            good = False
    out.expect("step_attr", good, attr, float(step_real), cls)
    out.klass = "range:%s:%s" % (kind, "n" if got == n else ("short" if got < n else "long"))
    return out


# ---------------------------------------------------------------- index space
def make_axis_array(coords, step, shape=None, dims=None, attrs=True):
    # attrs=False: a plain numpy coordinate without a step attribute (the lookup must not depend on it)
    return xr.DataArray(np.zeros(len(coords)), dims=["x"],
                        coords={"x": xr.Variable("x", coords, attrs={"step": step} if attrs else {})})


def index_queries(coords, step):
    n = len(coords)
    qs = []
    for i, c in enumerate(coords):
        qs.append(("upper_edge" if i == n - 1 else "on_coord", c))
        if i < n - 1:
            qs.append(("between", math.nextafter(c, math.inf)))
            m = (c + coords[i + 1]) / 2
            if c < m < coords[i + 1]:
                qs.append(("between", m))
        if i > 0:
            qs.append(("between", math.nextafter(c, -math.inf)))
    first, last = coords[0], coords[-1]
    qs += [("below", math.nextafter(first, -math.inf)), ("below", first - step / 2), ("below", first - 2 * step)]
    qs += [("nominal_last_bin", math.nextafter(last, math.inf)), ("nominal_last_bin", last + step / 2),
           ("nominal_last_bin", last + step)]
    qs += [("beyond", last + 2 * step)]
    # the zone names must describe the actual doubles
    qs = [(z, v) for z, v in qs if not (z == "below" and not v < first) and not (z in ("nominal_last_bin", "beyond") and not v > last)]
    return qs


def call_index(arr, dim, v, re_):
    try:
        r = get_coord_index(arr, dim, v, raise_error=re_)
    except (KeyError, ValueError) as e:
        return ["raise", type(e).__name__]
    except Exception as e:  # noqa
        return ["crash", type(e).__name__]
    if isinstance(r, (int, np.integer)) and not isinstance(r, (bool, np.bool_)):
        return ["ok", int(r)]
    return ["badtype", repr(r)]


IRREGULAR = {
    "octaves": [62.5, 125.0, 250.0, 500.0, 1000.0, 2000.0, 4000.0, 8000.0],
    "thirds": [0.1, 0.3, 0.30000000000000004, 0.7, 1.9, 2.0, 59.94],
    "squares": [0.0, 1.0, 4.0, 9.0, 16.0, 25.0, 36.0, 49.0, 64.0, 81.0, 100.0, 121.0],
    "two": [-3.0, 22050.5],
    # every k-th sample of a range axis, taken with isel: xarray keeps the coordinate's attributes, so the axis still advertises the
    # step of the axis it was cut from; look-ups are defined by the coordinates
    "decimated2": None,
    "decimated3": None,
}


def run_index(case):
    out = Out(case)
    if case.get("irregular"):
        # a strictly increasing axis that is not regularly spaced (band edges, event times): the look-up is defined by the coordinates
        if case["irregular"].startswith("decimated"):
            k = int(case["irregular"][-1])
            full = am.lattice_floats(0.5, 0.25, 24)
            arr = make_axis_array(full, 0.25).isel(x=slice(None, None, k))
            coords = [float(v) for v in arr.coords["x"].data]
            return _run_index_on(out, coords, 0.25 * k, len(coords), [arr])
        coords = list(IRREGULAR[case["irregular"]])
        start, n = coords[0], len(coords)
        step = min(b - a for a, b in zip(coords, coords[1:]))
        return _run_index_on(out, coords, step, n, [xr.DataArray(np.zeros(n), dims=["x"], coords={"x": np.array(coords)})])
    start, step, n = case["start"], case["step"], case["n"]
    coords = am.lattice_floats(start, step, n)
    arrs = [make_axis_array(coords, step), make_axis_array(coords, step, attrs=False)]
    if all(float(c) == int(c) for c in coords):
        # the same axis with integer-typed coordinates (frame / sample numbers, possibly negative): queries keep their own type
        arrs.append(make_axis_array(np.array([int(c) for c in coords], dtype=np.int64), step))
    return _run_index_on(out, coords, step, n, arrs)


def _run_index_on(out, coords, step, n, arrs):
    calls = 0
    bad = 0
    queries = []
    for zone, v in index_queries(coords, step):
        queries.append((zone, v))
        queries.append((zone, np.float64(v)))
        if v == int(v) and abs(v) < 2 ** 53:  # the same number handed over as an integer
            queries.append((zone, int(v)))
            queries.append((zone, np.int64(int(v))))
    for zone, v in queries:
      for arr in arrs:
        for re_ in (True, False):
            obs = call_index(arr, "x", v, re_)
            calls += 1
            m = am.index_model(coords, v, raise_error=re_)
            if m == am.OUTSIDE:
                okay, exp = obs[0] == "raise", ["raise", "KeyError"]
            else:
                okay, exp = obs == ["ok", m], ["ok", m]
            if not out.expect("index_model", okay, obs, exp, {"fn": "get_coord_index", "zone": zone, "raise_error": re_},
                              {"value": float(v), "value_type": type(v).__name__, "coords": coords if n <= 10 else None}):
                bad += 1
    out.transitions = calls
    out.validated = calls
    out.nontrivial = n >= 2
    out.klass = "index:%s:%s" % ("n1" if n == 1 else "n>=2", "agree" if not bad else "differ")
    return out


# ---------------------------------------------------------------- write space
def axis_coords(lat, ax, n):
    start, step = LATS[lat][ax]
    if start == "int":
        return list(range(n)), step
    return am.lattice_floats(start, step, n), step


def write_ops(shape, vals):
    """The operation alphabet of one shape: JSON-serialisable descriptors, simplest first."""
    nd = len(shape)
    ops = []
    for r in range(nd, 0, -1):  # cells first, then ever larger slices
        for axes in itertools.combinations(range(nd), r):
            for idx in itertools.product(*[range(shape[a]) for a in axes]):
                for pos in ("on", "mid"):
                    for val in (vals if r < nd else ["scalar"]):
                        ops.append({"addr": [[a, i] for a, i in zip(axes, idx)], "pos": pos, "val": val})
    for a in range(nd):
        ops.append({"addr": [[a, 0]], "pos": "below", "val": "scalar"})
    # a request that resolves its first dimension and fails on a later one (rejected part-way): nothing may be written, and
    # nothing of it may survive into later calls
    for a in range(nd):
        for b in range(a + 1, nd):
            ops.append({"addr": [[a, 0], [b, 0]], "pos": "on", "pos_by_axis": {str(b): "below"}, "val": "scalar"})
    for k, op in enumerate(ops):
        op["k"] = k
    return ops


def op_value(shape, op):
    """(model value, value handed to the implementation) of an operation; determined by its ordinal."""
    k = op["k"]
    if op["val"] == "scalar":
        return -(k + 1.0), -(k + 1.0)
    fixed = {a for a, _ in op["addr"]}
    free = [shape[a] for a in range(len(shape)) if a not in fixed]
    counter = itertools.count()

    def build(dims):
        if not dims:
            return -(1000.0 * (k + 1) + next(counter))
        return [build(dims[1:]) for _ in range(dims[0])]

    nested = build(free)

    def tup(x):
        return tuple(tup(y) for y in x) if isinstance(x, list) else x

    if op["val"] == "list":
        return nested, nested
    if op["val"] == "tuple":
        return nested, tup(nested)
    return nested, np.array(nested, dtype=np.float64)


class WriteSystem:
    def __init__(self, shape, lat, layout="dims"):
        self.shape = tuple(shape)
        self.lat = lat
        self.layout = layout  # "dims": coordinates given in dimension order; "shuffled": reversed order after a scalar coordinate
        self.nd = len(self.shape)
        self.axes = [axis_coords(lat, a, n) for a, n in enumerate(self.shape)]
        self.size = int(np.prod(self.shape))

    def build(self, flat):
        """A fresh DataArray holding the row-major list ``flat`` on the model coordinates."""
        coords = {DIMS[a]: xr.Variable(DIMS[a], np.array(c), attrs={"step": s}) for a, (c, s) in enumerate(self.axes)}
        if self.layout == "shuffled":
            # the order of the coordinate mapping is independent of the order of the dimensions, and an array may carry
            # scalar (non-dimension) coordinates, e.g. after isel(channel=0)
            coords = dict([("meta", 7.0)] + list(reversed(list(coords.items()))))
        values = np.array(flat, dtype=np.float64).reshape(self.shape)
        if self.layout == "fortran":
            values = np.asfortranarray(values)
        elif self.layout == "transposed_view":
            values = np.ascontiguousarray(values.transpose()).transpose()  # same values, a view with reversed strides
        return xr.DataArray(values, dims=list(DIMS[:self.nd]), coords=coords)

    def initial(self):
        return [100.0 + i for i in range(self.size)]

    def position(self, a, i, pos):
        coords, step = self.axes[a]
        if pos == "on":
            return coords[i]
        if pos == "mid":
            return coords[i] + step / 2
        return coords[0] - step / 2

    def step(self, flat, holder, op):
        """Execute one write on the array of the state (holder[0], built on demand from flat).

        set_value_at_pos works in place, so the contents are put back afterwards instead of deep-copying the
        DataArray for every transition; whenever anything looks odd the array is dropped and rebuilt.
        Returns (record, resulting row-major list or None).
        """
        query, fixed, outside = {}, {}, False
        for a, i in op["addr"]:
            p = self.position(a, i, (op.get("pos_by_axis") or {}).get(str(a), op["pos"]))
            query[DIMS[a]] = p
            m = am.index_model(self.axes[a][0], p, raise_error=True)
            if m == am.OUTSIDE:
                outside = True
            else:
                fixed[a] = m
        if op["k"] % 2 == 1:
            query = dict(reversed(list(query.items())))  # the dimensions named in another order than the array's
        mval, ival = op_value(self.shape, op)
        expected = list(flat) if outside else am.write_model(flat, self.shape, fixed, mval)
        if holder[0] is None:
            holder[0] = self.build(flat)
        work = holder[0]
        try:
            res = set_value_at_pos(work, ival, **query)
            outcome = ["ok", None]
        except (KeyError, ValueError) as e:
            res, outcome = None, ["raise", type(e).__name__]
        except Exception as e:  # noqa
            res, outcome = None, ["crash", type(e).__name__]
        problems = []
        target = res if outcome[0] == "ok" else work  # judged: the returned array; after a failed call: the input
        got = None
        if not isinstance(target, xr.DataArray):
            problems.append("result is %s" % type(target).__name__)
        elif tuple(target.shape) != self.shape or tuple(target.dims) != DIMS[:self.nd]:
            problems.append("shape/dims changed to %s %s" % (target.shape, target.dims))
        else:
            got = np.asarray(target.data, dtype=np.float64).ravel().tolist()
            for a, (c, _) in enumerate(self.axes):
                try:
                    same = target.get_index(DIMS[a]).tolist() == list(c)
                except Exception:  # noqa
                    same = False
                if not same:
                    problems.append("coordinates of %s changed" % DIMS[a])
        if outside:
            if outcome[0] != "raise":
                problems.append("write outside the range was not rejected")
        elif outcome[0] != "ok":
            problems.append("in-range write raised")
        if got is not None and got != expected:
            diff = [i for i, (g, e) in enumerate(zip(got, expected)) if g != e]
            problems.append("elements differ at flat indices %s" % diff[:8])
        # put the state's array back
        if problems or tuple(work.shape) != self.shape:
            holder[0] = None
        else:
            work.data[...] = np.array(flat, dtype=np.float64).reshape(self.shape)
        record = {
            "outside": outside, "outcome": outcome, "got": got, "expected": expected, "problems": problems,
            "changes": sum(1 for x, y in zip(flat, expected) if x != y), "query": query,
        }
        return record, got


def judge_write(out, ws, op, record, depth_before):
    addr = "cell" if len(op["addr"]) == ws.nd else "slice"
    cls = {"fn": "set_value_at_pos", "addr": addr, "pos": op["pos"], "val": op["val"],
           "expect": "reject" if record["outside"] else "write"}
    out.expect("write_exact", not record["problems"],
               {"outcome": record["outcome"], "data": record["got"]},
               {"outcome": "raise KeyError, array unchanged" if record["outside"] else "ok", "data": record["expected"]},
               cls, {"problems": record["problems"], "query": record["query"], "op": op})
    if record["outside"]:
        nt = depth_before > 0
    else:
        nt = 0 < record["changes"] < ws.size
    return nt


def explore_writes(block, rec):
    ws = WriteSystem(block["shape"], block["lat"], block.get("layout", "dims"))
    OPS = write_ops(ws.shape, block["vals"])
    first = [OPS[k] for k in block["first"]]
    depth = block["depth"]
    flat0 = ws.initial()
    d0 = {"shape": list(ws.shape), "lat": ws.lat}
    side = {}

    def ops(st):
        return first if st[0] == 0 else OPS

    def apply_op(st, op):
        d, flat, holder = st
        record, got = ws.step(list(flat), holder, op)
        side["rec"] = record
        side["depth"] = d
        if record["outcome"][0] != "ok" or got is None:
            return None
        return (d + 1, tuple(got), [None])

    def canon(st):
        return st[1]

    def on_transition(h2, st, op, nxt):
        record = side.pop("rec")
        case = {"space": "write", "shape": list(ws.shape), "lat": ws.lat, "ops": h2[1:]}
        if ws.layout != "dims":
            case["layout"] = ws.layout
        post = record["got"] if record["got"] is not None else list(st[1])
        out = Out(case, key=["write", list(ws.shape), ws.lat, ws.layout, post])
        out.nontrivial = judge_write(out, ws, op, record, side["depth"])
        out.klass = "write:d%d:%s:%s" % (len(h2) - 1, "reject" if record["outside"] else "write",
                                         "agree" if not record["problems"] else "differ")
        rec.add(out)

    s = bfs_mod.bfs((d0, (0, tuple(flat0), [None])), ops, apply_op, canon, depth, on_transition=on_transition)
    rec.count("write_bfs_states", s.states)
    rec.count("write_bfs_merged", s.merged)


def run_write_history(case):
    """Replay of one write history: every step is executed and judged."""
    ws = WriteSystem(case["shape"], case["lat"], case.get("layout", "dims"))
    flat = ws.initial()
    out = Out(case)
    nt = False
    n = 0
    last = "agree"
    for d, op in enumerate(case["ops"]):
        record, got = ws.step(list(flat), [None], op)
        n += 1
        nt = judge_write(out, ws, op, record, d)
        last = "%s:%s" % ("reject" if record["outside"] else "write", "agree" if not record["problems"] else "differ")
        if record["outcome"][0] != "ok" or got is None:
            break
        flat = got
    out.key = ["write", list(ws.shape), ws.lat, list(flat)]
    out.transitions = n
    out.validated = n
    out.nontrivial = nt
    out.klass = "write:d%d:%s" % (n, last)
    return out
