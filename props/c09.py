"""C09 — Evaluation metrics are what their terms say, in all four tasks.

Exhaustive enumeration of small evaluation problems (task x vocabulary size x
items x true tags x predicted score vectors) on the real task functions, each
additionally under every permutation of the clip order and through an AOEF
save / fresh load.  Reference model: models/metrics.py (pure Python, Fraction).
"""
from __future__ import annotations

import itertools
import math
import os
import traceback

import numpy as np

from soundevent import data, io
from soundevent.evaluation import (
    clip_classification,
    clip_multilabel_classification,
    sound_event_classification,
    sound_event_detection,
)

from mc.runner import Out, scratch_dir
from mc.space import chunk
from models import metrics as M
from props.common import U, recording, term

ID = "C09"
RULE = (
    "[environment] cases with an empty clip and every fourth other case are evaluated once more under numpy.errstate(all='raise'): same metrics and scores; "
    "predicted score vectors are sparse (positive scores only) or dense (explicit zeros) by item parity, and the objects must hold the scores they were given. "
    "per task and vocabulary size K in {1,2,3}: every list of 1..n items (clips, or sound events in 1..2 clips incl. empty clips) "
    "where an item = (true tag list incl. none / out-of-vocabulary / two tags) x (predicted score vector on a dyadic grid; sum <= 1 for the "
    "single-label tasks). Each case is evaluated, re-evaluated under every permutation of the prediction list and the reversed annotation "
    "list, and saved/loaded through AOEF. Non-trivial = at least two items with different true classes or different score vectors. "
    "State = case descriptor."
)
ASSUMPTIONS = [
    "metric definitions are the conventional ones (models/metrics.py); ties in arg-max / top-3 membership, classes without positive example "
    "(average precision), and empty-vs-empty Jaccard are degenerate and not judged (counted as vacuous)",
    "scores on a dyadic grid so float32 encoding is exact; values compared with 1e-6 (float32 arithmetic in the library), order invariance and means with 1e-9 / 1e-6",
    "a predicted tag is not repeated within one item; for sound_event_classification predictions and annotations share sound events one-to-one",
    "metric terms other than the seven named by the property are not judged",
    "the multilabel clip score (exp(-log loss)) is only required to be finite and in [0,1]; its aggregation as a mean is judged",
]

REC = recording(duration=100.0)
OOV = data.Tag(term=term("call"), value="s0")  # out of vocabulary, but shares its value with vocabulary tag s0


def vocab(k):
    V = [data.Tag(term=term("species"), value="s%d" % i) for i in range(k)]
    if k == 3:
        # the third tag of the three-tag vocabulary spells 'name:value' exactly like the first one (soundevent:species:s0) while
        # being another term and another value: tags are (term, value) pairs, not strings
        V[2] = data.Tag(term=data.Term(label="soundevent", name="soundevent", definition="collides as a string"), value="species:s0")
    return V


TASKS = {
    "clip_classification": clip_classification,
    "clip_multilabel_classification": clip_multilabel_classification,
    "sound_event_classification": sound_event_classification,
    "sound_event_detection": sound_event_detection,
}


# ---------------------------------------------------------------- alphabets
def vecs(k, grid, single):
    out = []
    for v in itertools.product(grid, repeat=k):
        if single and sum(v) > 1:
            continue
        out.append(list(v))
    return out


def truths_single(k):
    t = [[]] + [[c] for c in range(k)] + [["oov"]]
    if k >= 2:
        t.append([0, 1])
    t.append(["oov", k - 1])
    if k < 3:
        t.append(["oov2"])
    return t


def truths_multi(k, full):
    subsets = [list(s) for n in range(k + 1) for s in itertools.combinations(range(k), n)]
    if not full and k == 3:
        subsets = [[], [0], [1, 2], [0, 1, 2]]
    return subsets + [["oov"], ["oov", 0]]


def item_kinds(task, k, tier):
    q = tier == "quick"
    if task == "clip_multilabel_classification":
        grid = {1: [0, 0.25, 0.5, 0.75, 1], 2: [0, 0.5, 0.75] if q else [0, 0.25, 0.5, 0.75, 1], 3: [0, 0.75] if q else [0, 0.5, 0.75]}[k]
        vs = vecs(k, grid, False)
        if k == 3 and q:
            vs.append([0.5, 0.5, 0.5])
        return [[t, v] for t in truths_multi(k, not q) for v in vs]
    grid = {1: [0, 0.25, 0.5, 1], 2: [0, 0.25, 0.5, 1], 3: [0, 0.5, 1] if q else [0, 0.25, 0.5, 1]}[k]
    return [[t, v] for t in truths_single(k) for v in vecs(k, grid, True)]


def event_kinds(task, tier):
    """Item alphabet of the one-clip sound-event spaces (K = 2)."""
    kinds = item_kinds(task, 2, tier)
    if tier == "quick":
        keep = [[0.0, 0.0], [0.5, 0.0], [0.25, 0.5], [0.5, 0.5], [0.0, 1.0], [0.25, 0.25]]
        kinds = [kd for kd in kinds if kd[1] in keep]
    return kinds


def reduced_kinds(task):
    """Reduced K=2 item alphabet for the three-clip space of the thorough tier."""
    if task == "clip_multilabel_classification":
        ts, vs = [[], [0], [1], [0, 1], ["oov", 0]], [[0.0, 0.0], [0.75, 0.0], [0.5, 0.75], [0.75, 0.75], [0.25, 1.0]]
    else:
        ts, vs = [[], [0], [1], ["oov"], [0, 1]], [[0.0, 0.0], [0.5, 0.25], [0.25, 0.5], [1.0, 0.0], [0.25, 0.25]]
    return [[t, v] for t in ts for v in vs]


def small_kinds(task, k):
    """Reduced item alphabet for the two-clip sound-event spaces."""
    ts = [[], [0], [k - 1] if k > 1 else ["oov"]]
    vs = [[0.0] * k, [0.5] + [0.25] * (k - 1) if k < 3 else [0.5, 0.25, 0.0], [0.0] * (k - 1) + [1.0]]
    return [[t, v] for t in ts for v in vs]


def lists_upto(kinds, n, min_len=0):
    for m in range(min_len, n + 1):
        for x in itertools.product(kinds, repeat=m):
            yield [list(i) for i in x]


def bounds(tier):
    q = tier == "quick"
    return {
        "tasks": list(TASKS), "vocabulary_sizes": [1, 2, 3],
        "clip_tasks_max_items": {"K1": 3, "K2": "2 (thorough: + 3 over a reduced 25-kind alphabet)", "K3": 2},
        "sound_event_tasks": "one clip with <= 2 events over the item alphabet (K=2; quick: 6 of the 11 score vectors), two clips over a 9-kind alphabet (K=1,2,3; first clip <= 2 events, second <= 1 quick / <= 2 thorough); detection adds unmatched extra prediction / annotation flags",
        "item_kinds": {t: {str(k): len(item_kinds(t, k, tier)) for k in (1, 2, 3)} for t in TASKS},
        "permutations": "all permutations of the prediction list (n <= 3) + reversed annotation list",
    }


def blocks(tier):
    q = tier == "quick"
    out = []
    for task in ("clip_classification", "clip_multilabel_classification"):
        for k in (1, 2, 3):
            n = {1: 3, 2: 2, 3: 2}[k]
            kinds = item_kinds(task, k, tier)
            firsts = list(range(len(kinds)))
            for c in chunk(firsts, 24 if q else 48):
                out.append({"space": "clips", "task": task, "k": k, "n": n, "tier": tier, "first": c})
        if not q:
            # three clips over a reduced two-class alphabet (the full alphabet cubed is ~3e6 cases)
            rk = reduced_kinds(task)
            for c in chunk(list(range(len(rk))), 8):
                out.append({"space": "clips3", "task": task, "k": 2, "n": 3, "tier": tier, "first": c})
    # three clips with unequal scores (an overall score is the mean of ALL clip scores): tiny alphabet, both sound-event tasks
    out.append({"space": "events3", "task": "all", "k": 2, "tier": tier})
    # a vocabulary of 300 tags (more classes than a byte can index) with true classes on both sides of 255
    out.append({"space": "bigvocab", "task": "all", "k": BIG_K, "tier": tier})
    for task in ("sound_event_classification", "sound_event_detection"):
        kinds = event_kinds(task, tier)
        for c in chunk(list(range(len(kinds))), 16):
            out.append({"space": "events1", "task": task, "k": 2, "tier": tier, "first": c})
        for k in (1, 2, 3):
            sk = small_kinds(task, k)
            lists = list(lists_upto(sk, 2))
            for c in chunk(list(range(len(lists))), 8 if q else 16):
                out.append({"space": "events2", "task": task, "k": k, "tier": tier, "first": c})
    return out


BIG_K = 300


def big_items():
    """Four items over the 300-tag vocabulary: true classes 299, 256, 255, 3, each predicted with 0.5 on its own class and 0.25 on
    class 0 (sparse vectors written as full lists)."""
    out = []
    for y in (299, 256, 255, 3):
        v = [0.0] * BIG_K
        v[y] = 0.5
        v[0] = 0.25
        out.append([[y], v])
    return out


def run_block(block, rec):
    sp, task, k = block["space"], block["task"], block["k"]
    if sp == "events3":
        kinds = [[[0], [1.0, 0.0]], [[0], [0.0, 1.0]], [[1], [0.5, 0.25]], [["oov"], [0.25, 0.25]]]
        for t in ("sound_event_classification", "sound_event_detection"):
            for a, b, c3 in itertools.product(kinds, repeat=3):
                rec.add(run_case({"task": t, "k": 2, "clips": [[a], [b], [c3]], "extra": [0, 0]}))
                rec.add(run_case({"task": t, "k": 2, "clips": [[a, b], [c3], [b]], "extra": [0, 0]}))
        return
    if sp == "bigvocab":
        items = big_items()
        for t in ("clip_classification", "clip_multilabel_classification"):
            rec.add(run_case({"task": t, "k": BIG_K, "clips": [[it] for it in items]}))
        for t in ("sound_event_classification", "sound_event_detection"):
            rec.add(run_case({"task": t, "k": BIG_K, "clips": [items[:2], items[2:]], "extra": [0, 0]}))
            rec.add(run_case({"task": t, "k": BIG_K, "clips": [items], "extra": [0, 0]}))
        # every one of the 300 classes has a positive (the mean average precision is only judged then): one event per class
        full = []
        for y in range(BIG_K):
            v = [0.0] * BIG_K
            v[y] = 0.5
            v[(y + 1) % BIG_K] = 0.25
            full.append([[y], v])
        rec.add(run_case({"task": "sound_event_detection", "k": BIG_K, "clips": [full], "extra": [0, 0]}))
        return
    if sp in ("clips", "clips3"):
        kinds = item_kinds(task, k, block["tier"]) if sp == "clips" else reduced_kinds(task)
        for f in block["first"]:
            for rest in lists_upto(kinds, block["n"] - 1):
                rec.add(run_case({"task": task, "k": k, "clips": [[kinds[f]]] + [[r] for r in rest]}))
    elif sp == "events1":
        kinds = event_kinds(task, block["tier"])
        flags = [[0, 0]] if task == "sound_event_classification" else (
            [[0, 0], [1, 1], [0, 2]] if block["tier"] == "quick" else [[0, 0], [1, 0], [0, 1], [1, 1], [0, 2], [1, 2]])
        for f in block["first"]:
            for rest in lists_upto(kinds, 1):
                for fl in flags:
                    rec.add(run_case({"task": task, "k": k, "clips": [[kinds[f]] + rest], "extra": fl}))
        if 0 in block["first"]:
            for fl in flags:
                rec.add(run_case({"task": task, "k": k, "clips": [[]], "extra": fl}))
    else:
        sk = small_kinds(task, k)
        lists = list(lists_upto(sk, 2))
        seconds = list(lists_upto(sk, 1 if block["tier"] == "quick" else 2))
        for f in block["first"]:
            for second in seconds:
                rec.add(run_case({"task": task, "k": k, "clips": [lists[f], second], "extra": [0, 0]}))
                if task == "sound_event_classification" and lists[f] and second:
                    # the same sound event annotated (and predicted) in both clips, each clip with its own tags and scores
                    rec.add(run_case({"task": task, "k": k, "clips": [lists[f], second], "extra": [0, 0], "shared": 1}))


# ---------------------------------------------------------------- building inputs
def tagobj(t, V):
    if t == "oov":
        return OOV
    if t == "oov2":
        # a tag that is out of THIS vocabulary but belongs to the larger vocabularies used by other cases in the same process
        # (encoder state kept between evaluations would map it into the vocabulary)
        return vocab(3)[len(V)] if len(V) < 3 else OOV
    return V[t]


_NOT_AS_GIVEN = []


def ptags(vec, V, dense=False):
    """Predicted tags of a score vector: sparse (only the positive scores) or dense (explicit 0.0 scores as well, what a model
    head emits).  The objects must hold the scores they were given; a difference is reported by run_case (inputs_as_given)."""
    out = []
    for j, s in enumerate(vec):
        if s > 0 or dense:
            pt = data.PredictedTag(tag=V[j], score=s)
            if pt.score != s or pt.tag != V[j]:
                _NOT_AS_GIVEN.append([s, pt.score])
            out.append(pt)
    return out


def box(j):
    return data.BoundingBox(coordinates=[3.0 * j + 1, 1000.0, 3.0 * j + 2, 2000.0])


def build(case):
    task, k = case["task"], case["k"]
    V = vocab(k)
    cas, cps = [], []
    clip_level = task in ("clip_classification", "clip_multilabel_classification")
    extra = case.get("extra") or [0, 0]
    first_event = [None]
    for ci, items in enumerate(case["clips"]):
        # clips of unequal length (10 s, 5 s, 7.5 s, ...): every clip counts once in a mean of clip scores, whatever its duration
        clip = data.Clip(uuid=U("clip%d" % ci), recording=REC, start_time=float(10 * ci), end_time=float(10 * ci) + [10.0, 5.0, 7.5][ci % 3])
        if clip_level:
            (truth, vec), = items
            cas.append(data.ClipAnnotation(uuid=U("ca%d" % ci), clip=clip, tags=[tagobj(t, V) for t in truth]))
            cps.append(data.ClipPrediction(uuid=U("cp%d" % ci), clip=clip, tags=ptags(vec, V, dense=ci % 2 == 1)))
            continue
        seas, seps = [], []
        for j, (truth, vec) in enumerate(items):
            se = data.SoundEvent(uuid=U("se%d.%d" % (ci, j)), recording=REC, geometry=box(j))
            if case.get("shared") and ci == 1 and j == 0 and first_event[0] is not None:
                se = first_event[0]  # the very sound event of clip 0's first item, annotated (and predicted) again in this clip
            if ci == 0 and j == 0:
                first_event[0] = se
            if task == "sound_event_detection":
                # distinct sound event objects with identical geometry: matched by overlap, not by identity
                se_p = data.SoundEvent(uuid=U("sep%d.%d" % (ci, j)), recording=REC, geometry=box(j))
            elif (ci + j) % 2 == 1:
                # the prediction side holds its own copy of the sound event (same uuid) to which the model attached a feature
                se_p = se.model_copy(update={"features": [data.Feature(term=term("snr"), value=3.5)]})
            else:
                se_p = se
            seas.append(data.SoundEventAnnotation(uuid=U("a%d.%d" % (ci, j)), sound_event=se, tags=[tagobj(t, V) for t in truth]))
            seps.append(data.SoundEventPrediction(uuid=U("p%d.%d" % (ci, j)), sound_event=se_p, tags=ptags(vec, V, dense=(ci + j) % 2 == 1)))
        if ci == 0 and extra[0]:
            se = data.SoundEvent(uuid=U("sex%d" % ci), recording=REC, geometry=box(7))
            seps.append(data.SoundEventPrediction(uuid=U("px%d" % ci), sound_event=se, tags=ptags([0.5] + [0.25] * (k - 1), V)))
        if ci == 0 and extra[1]:
            # an annotation no prediction overlaps: with a vocabulary tag (1) or with an out-of-vocabulary tag only (2)
            se = data.SoundEvent(uuid=U("sey%d" % ci), recording=REC, geometry=box(9))
            seas.append(data.SoundEventAnnotation(uuid=U("ax%d" % ci), sound_event=se, tags=[V[k - 1]] if extra[1] == 1 else [OOV]))
        cas.append(data.ClipAnnotation(uuid=U("ca%d" % ci), clip=clip, sound_events=seas))
        cps.append(data.ClipPrediction(uuid=U("cp%d" % ci), clip=clip, sound_events=seps))
    return V, cas, cps


# ---------------------------------------------------------------- model side
def first_class(tags, V):
    for t in tags:
        for i, v in enumerate(V):
            if t == v:
                return i
    return None


def vector(ptag_list, V):
    vec = [0.0] * len(V)
    for p in ptag_list:
        for i, v in enumerate(V):
            if p.tag == v:
                vec[i] = p.score
    return vec


def indicator(tags, V):
    return [int(any(t == v for t in tags)) for v in V]


def close(a, b, tol=1e-6):
    return a is not None and isinstance(a, (int, float)) and math.isfinite(a) and abs(a - float(b)) <= tol


def fdict(features):
    return sorted((f.term.label, f.value) for f in features)


def where_of(exc):
    tb = traceback.extract_tb(exc.__traceback__)
    fr = [f for f in tb if "/soundevent/" in f.filename]
    return fr[-1].name if fr else "?"


def judge(out, level, label, value, expected, cls):
    """value_matches_term with the degenerate-case rule."""
    c = dict(cls, level=level, metric=label)
    if expected is None:
        out.vac("value_matches_term")
        fin = isinstance(value, (int, float)) and math.isfinite(value) and -1e-9 <= value <= 1 + 1e-9
        out.expect("value_in_range", fin, value, "finite in [0,1]", c)
        return
    out.expect("value_matches_term", close(value, expected), value, float(expected), c)


def check_terms(out, level, feats, cls):
    terms = [f.term for f in feats]
    dup = [t.label for i, t in enumerate(terms) if any(t == u for u in terms[:i])]
    labels = [t.label for t in terms]
    dupl = [l for i, l in enumerate(labels) if l in labels[:i]]
    out.expect("terms_distinct", not dup and not dupl, sorted(set(dup + dupl)), "pairwise distinct terms",
               dict(cls, level=level, metric=(dup + dupl + ["?"])[0]))


def check_evaluation(out, task, V, cas, cps, ev, cls):
    multilabel = task == "clip_multilabel_classification"
    clip_level = task in ("clip_classification", "clip_multilabel_classification")
    ca_by = {a.clip.uuid: a for a in cas}
    y_true, vs, truths_ml = [], [], []
    for ce in ev.clip_evaluations:
        ca, cp = ce.annotations, ce.predictions
        check_terms(out, "clip", ce.metrics, cls)
        if clip_level:
            vec = vector(cp.tags, V)
            vs.append(vec)
            if multilabel:
                ind = indicator(ca.tags, V)
                truths_ml.append(ind)
                for f in ce.metrics:
                    if f.term.label == "Jaccard Index":
                        judge(out, "clip", f.term.label, f.value, M.jaccard(ind, vec), cls)
                    elif f.term.label == "Average Precision":
                        judge(out, "clip", f.term.label, f.value, M.item_average_precision(ind, vec), cls)
                    else:
                        out.vac("value_matches_term")
                ok = ce.score is not None and math.isfinite(ce.score) and 0 <= ce.score <= 1 + 1e-9
                out.expect("value_in_range", ok, ce.score, "finite in [0,1]", dict(cls, level="clip", metric="score"))
            else:
                y = first_class(ca.tags, V)
                y_true.append(y)
                for f in ce.metrics:
                    if f.term.label == "True Class Probability":
                        judge(out, "clip", f.term.label, f.value, M.true_class_probability(y, vec), cls)
                    else:
                        out.vac("value_matches_term")
        else:
            ms = []
            for m in ce.matches:
                check_terms(out, "match", m.metrics, cls)
                y = first_class(m.target.tags, V) if m.target is not None else None
                vec = vector(m.source.tags, V) if m.source is not None else [0.0] * len(V)
                y_true.append(y)
                vs.append(vec)
                for f in m.metrics:
                    if f.term.label == "True Class Probability":
                        judge(out, "match", f.term.label, f.value, M.true_class_probability(y, vec), cls)
                    else:
                        out.vac("value_matches_term")
                ms.append(m.score)
            if ms and all(s is not None for s in ms):
                out.expect("scores_are_means", close(ce.score, M.mean(ms)), ce.score, float(M.mean(ms)), dict(cls, level="clip"))
            else:
                ok = ce.score is None or (math.isfinite(ce.score) and 0 <= ce.score <= 1)
                out.expect("value_in_range", ok, ce.score, "finite in [0,1] or absent", dict(cls, level="clip", metric="score"))
    check_terms(out, "evaluation", ev.metrics, cls)
    for f in ev.metrics:
        lab = f.term.label
        if multilabel:
            exp = M.mean_average_precision_multilabel(truths_ml, vs) if lab == "Mean Average Precision" else "skip"
        elif not vs:
            exp = None
        elif lab == "Accuracy":
            exp = M.accuracy(y_true, vs)
        elif lab == "Balanced Accuracy":
            exp = M.balanced_accuracy(y_true, vs)
        elif lab == "Top 3 Accuracy":
            exp = M.top_k_accuracy(y_true, vs, 3)
        elif lab == "Mean Average Precision":
            exp = M.mean_average_precision_single_label(y_true, vs)
        else:
            exp = "skip"
        if exp == "skip":
            out.vac("value_matches_term")
        else:
            judge(out, "evaluation", lab, f.value, exp, cls)
    cs = [ce.score for ce in ev.clip_evaluations]
    if cs and all(s is not None and math.isfinite(s) for s in cs):
        out.expect("scores_are_means", close(ev.score, M.mean(cs)), ev.score, float(M.mean(cs)), dict(cls, level="evaluation"))
    return len(vs)


def check_items_as_given(out, case, task, V, ev, cls):
    """Sound-event tasks: per clip, the (true class, score vector) pairs the evaluation is built on - read from its matches - are the
    pairs the INPUT prescribes (annotation j with the prediction of the same / the overlapping sound event j, each clip with its own
    annotations), not merely some self-consistent pairing."""
    if task not in ("sound_event_classification", "sound_event_detection"):
        return
    k = case["k"]
    extra = case.get("extra") or [0, 0]
    by_clip = {str(ce.annotations.clip.uuid): ce for ce in ev.clip_evaluations}
    for ci, items in enumerate(case["clips"]):
        exp = []
        for truth, vec in items:
            y = None
            for t in truth:
                if isinstance(t, int) and t < len(V):
                    y = t
                    break
            exp.append((y, tuple(float(x) for x in vec)))
        if ci == 0 and extra[0]:
            exp.append((None, tuple([0.5] + [0.25] * (k - 1))))
        if ci == 0 and extra[1]:
            exp.append((k - 1 if extra[1] == 1 else None, tuple([0.0] * k)))
        ce = by_clip.get(str(U("clip%d" % ci)))
        if ce is None:
            out.fail("items_as_given", "clip %d not evaluated" % ci, "one clip evaluation per annotated clip", dict(cls, part="clip_missing"))
            continue
        got = []
        for m in ce.matches:
            y = first_class(m.target.tags, V) if m.target is not None else None
            vec = vector(m.source.tags, V) if m.source is not None else [0.0] * len(V)
            got.append((y, tuple(float(x) for x in vec)))
        key = lambda p: (-1 if p[0] is None else p[0], p[1])  # noqa: E731
        out.expect("items_as_given", sorted(got, key=key) == sorted(exp, key=key), sorted(got, key=key), sorted(exp, key=key),
                   dict(cls, part="pairs", shared=bool(case.get("shared"))), {"clip": ci})


def summary(ev):
    """Order-independent summary of an evaluation for the invariance oracles."""
    clips = {}
    for ce in ev.clip_evaluations:
        clips[str(ce.annotations.clip.uuid)] = {
            "metrics": fdict(ce.metrics), "score": ce.score,
            "matches": sorted((str(m.source.uuid) if m.source else "", str(m.target.uuid) if m.target else "", m.score, m.affinity, fdict(m.metrics))
                              for m in ce.matches),
        }
    return {"metrics": fdict(ev.metrics), "score": ev.score, "clips": clips}


def approx_equal(a, b, tol=1e-9):
    if isinstance(a, float) or isinstance(b, float):
        if a is None or b is None:
            return a is b
        if isinstance(a, float) and isinstance(b, float) and math.isnan(a) and math.isnan(b):
            return True
        return abs(a - b) <= tol
    if isinstance(a, dict):
        return isinstance(b, dict) and a.keys() == b.keys() and all(approx_equal(a[k], b[k], tol) for k in a)
    if isinstance(a, (list, tuple)):
        return isinstance(b, (list, tuple)) and len(a) == len(b) and all(approx_equal(x, y, tol) for x, y in zip(a, b))
    return a == b


def run_case(case):
    out = Out(case)
    task, k = case["task"], case["k"]
    fn = TASKS[task]
    del _NOT_AS_GIVEN[:]
    V, cas, cps = build(case)
    cls = {"task": task}
    if _NOT_AS_GIVEN:
        out.fail("inputs_as_given", _NOT_AS_GIVEN[:3], "a predicted tag holds the score it was built with", dict(cls, what="PredictedTag.score"))
    else:
        out.ok("inputs_as_given")
    n_items = sum(len(c) for c in case["clips"]) + sum(case.get("extra") or [0, 0])
    if task in ("clip_classification", "clip_multilabel_classification"):
        n_items = len(case["clips"])
    calls = 0
    try:
        ev = fn(cps, cas, V)
        calls += 1
    except Exception as e:  # noqa
        if n_items == 0:
            out.vac("no_crash_in_domain")
            out.klass = "no_item"
            return out
        out.fail("no_crash_in_domain", "%s in %s: %s" % (type(e).__name__, where_of(e), str(e)[:200]), "an Evaluation",
                 dict(cls, exc=type(e).__name__, where=where_of(e), k1=(k == 1), empty_clip=any(len(c) == 0 for c in case["clips"])))
        out.klass = "crash:%s:%s" % (type(e).__name__, where_of(e))
        return out
    if n_items == 0:
        out.vac("no_crash_in_domain")
        out.klass = "no_item"
        return out
    out.ok("no_crash_in_domain")
    out.expect("clips_evaluated", len(ev.clip_evaluations) == len(cas), len(ev.clip_evaluations), len(cas), cls)
    nvec = check_evaluation(out, task, V, cas, cps, ev, cls)
    check_items_as_given(out, case, task, V, ev, cls)
    # order invariance: every permutation of the prediction list, and the reversed annotation list
    base = summary(ev)
    perms = list(itertools.permutations(range(len(cps))))[1:]
    variants = [([cps[i] for i in p], cas) for p in perms]
    if len(cas) > 1:
        variants.append((cps, cas[::-1]))
    if task == "sound_event_classification" and any(len(cp.sound_events) > 1 for cp in cps):
        # the predictions of a clip list its sound events in another order than the annotations do (pairing is by sound event)
        variants.append(([cp.model_copy(update={"sound_events": list(cp.sound_events)[::-1]}) for cp in cps], cas))
    for p2, a2 in variants:
        try:
            ev2 = fn(p2, a2, V)
            calls += 1
            s2 = summary(ev2)
            if approx_equal(base, s2):
                out.ok("order_invariant")
            else:
                diffkeys = [kk for kk in ("metrics", "score", "clips") if not approx_equal(base[kk], s2[kk])]
                out.fail("order_invariant", {"differs": diffkeys, "a": base["metrics"], "b": s2["metrics"]}, "same metrics and scores", dict(cls, part=diffkeys[0]))
        except Exception as e:  # noqa
            out.fail("order_invariant", "%s: %s" % (type(e).__name__, str(e)[:200]), "same result", dict(cls, part="crash"))
    # the same evaluation with numpy floating-point errors raised instead of ignored: the result must not depend on the error
    # state of the calling process (cases with a clip without items, where empty means / 0-by-0 ratios lurk, and every fourth other)
    if any(len(c) == 0 for c in case["clips"]) or (n_items + len(cas) + k) % 4 == 0:
        ev4 = err4 = None
        with np.errstate(all="raise"):
            try:
                ev4 = fn(cps, cas, V)
            except Exception as e:  # noqa
                err4 = e
        calls += 1
        if err4 is not None:
            out.fail("same_result_with_fp_errors_raised", "%s in %s: %s" % (type(err4).__name__, where_of(err4), str(err4)[:160]),
                     "same result as with the default numpy error state",
                     dict(cls, part="crash", exc=type(err4).__name__, where=where_of(err4)))
        else:
            s4 = summary(ev4)
            out.expect("same_result_with_fp_errors_raised", approx_equal(base, s4), {"a": base["metrics"], "b": s4["metrics"]},
                       "same metrics and scores", dict(cls, part="differs"))
    # AOEF round trip of the evaluation
    path = os.path.join(scratch_dir(), "c09.json")
    try:
        io.save(ev, path)
        ev3 = io.load(path)
        calls += 2
        s3 = summary(ev3)
        if approx_equal(base, s3, 0.0):
            out.ok("survives_aoef")
        else:
            part = [kk for kk in ("metrics", "score", "clips") if not approx_equal(base[kk], s3[kk], 0.0)]
            out.fail("survives_aoef", {"differs": part, "before": base["metrics"], "after": s3["metrics"]}, "every metric intact", dict(cls, part=part[0]))
    except Exception as e:  # noqa
        out.fail("survives_aoef", "%s: %s" % (type(e).__name__, str(e)[:200]), "save/load succeeds", dict(cls, part="crash"))
    out.transitions = calls
    out.validated = 1
    items = [tuple(map(str, it)) for c in case["clips"] for it in c]
    out.nontrivial = len(set(items)) >= 2
    out.klass = "%s:K%d:%s" % (task.replace("_classification", "_cls").replace("sound_event", "se"), k, "ok" if not out.viol else "viol")
    return out


def replay_case(case):
    return run_case(case)
