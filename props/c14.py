"""C14 — Clip segmentation tiles the clip on the hop lattice.

Exhaustive product clip start x clip length x duration x hop (incl. None) x include_incomplete on a dyadic
lattice (every float operation of the implementation is exact), plus every non-positive duration / hop
combination.  Reference model: a Fraction list comprehension over the window index (never calls the library).
"""
from __future__ import annotations

from fractions import Fraction as F

from soundevent import data
from soundevent.operations import segment_clip

from mc.runner import Out
from props.common import U, is_rejection, recording

ID = "C14"
FN = "segment_clip"
RULE = (
    "[decimal] one block: 3 clip starts off zero x 3 lengths x 4 decimal durations x 3 hops x the flag, lattice judged to 4 ulp. "
    "[environment] one block discovers, in a child interpreter with a recording os.environ, every environment variable the library's own source looks up "
    "while segmenting, and re-runs a workload with each of them unset / set to a perturbing value: identifiers and bounds must not move. "
    "full product: clip start x clip length (0 included) x duration x hop (None included) x include_incomplete, "
    "all dyadic, each on a real-time recording and on a x10 time-expanded one and with duration/hop passed as Python float, numpy float64 and (whole numbers) Python int / numpy int64; plus, for every start/length/flag, every (duration, hop) pair in which at least one of the two is "
    "non-positive. Per valid case four calls: the call under test, the same call again, the same call on a parent "
    "with another uuid and equal bounds, and the same call with twice the hop (windows with equal bounds must get "
    "equal ids); with include_incomplete a fifth call with the same hop and twice the duration (equal bounds <=> equal "
    "ids across the two calls; the class suffix xdur_trunc0/1/2+ counts coinciding windows clamped in at least one call). A case is non-trivial when duration and hop are valid and at least two hop-lattice points lie "
    "inside the clip (so ordering, spacing and the trailing window are exercised); distinct = distinct descriptor. "
    "Outcome class = hop vs duration, hop divides length or not, number of windows of the model (0/1/2+), flag."
)
ASSUMPTIONS = [
    "decimal block: durations and hops such as 0.1 / 0.7 on clips starting at 1.0, 100.0, 0.3 are not exact in binary; every returned "
    "bound must lie within 4 ulp of the exact lattice point (Fraction arithmetic on the float inputs; start + i*hop evaluated in "
    "doubles is within 1 ulp), and the number of windows between the count that fits with 1e-9 to spare and the count that fits "
    "when 1e-9 is forgiven - which of two roundings decides an exactly touching last window is not judged",
    "coordinates, durations and hops are multiples of 1/8 with small magnitude: start + i*hop and start + duration "
    "are exact in binary floating point, so the Fraction model is the real-number answer and comparison is exact",
    "a window 'starts inside the clip' when clip start + i*hop < clip end (half-open, as in DESIGN.md): a "
    "zero-length window at the clip end is not expected",
    "zero-length parent clip: without include_incomplete the statement is unambiguous (no window fits: []), and is "
    "judged; with include_incomplete it is not defined whether the lattice point i=0 'starts inside' an empty clip, "
    "so equals_model is counted vacuous there (an exception is not judged either) and only the derived oracles "
    "(inside_parent, exact_duration, on_lattice, same_recording, ids) judge whatever is returned - i.e. [] and "
    "[(s, s)] both pass",
    "segment_clip is a generator: 'rejected' means a ValueError (subclass) raised when the result is consumed with "
    "list(); laziness of the error is not judged",
    "'same recording' is judged by equality of the Recording objects (and of their uuid), not identity",
    "the exact uuid5 recipe is not judged, only: repeatable, distinct within a call, different for another parent "
    "uuid, equal for equal (parent, bounds) reached through another hop or (with include_incomplete) through twice the "
    "duration; distinctness is only required within one call, as the statement says",
    "covers_clip_when_hop_le_duration is judged only with include_incomplete=True and a non-empty clip (without the "
    "flag the statement does not promise coverage)",
]

QUICK = {
    "start": [0.0, 1.0, 2.5],
    "length": [k * 0.5 for k in range(13)] + [10.0],
    "duration": [0.5, 1.0, 1.5, 2.0, 3.0, 7.0],
    "invalid": [0.0, -1.0],
}
THOROUGH = {
    "start": [0.0, 0.125, 1.0, 2.5, 7.875],
    "length": [k * 0.125 for k in range(65)] + [10.0, 12.125],
    "duration": [0.125, 0.25, 0.5, 0.75, 1.0, 1.5, 2.0, 2.5, 3.0, 7.0, 16.0],
    "invalid": [0.0, -1.0, -0.125],
}
NBLOCKS = {"quick": 42, "thorough": 64}
SCALES = {"quick": [2.0 ** -10], "thorough": [2.0 ** -10, 2.0 ** 10, 2.0 ** -20]}


def lattice(tier):
    return QUICK if tier == "quick" else THOROUGH


def bounds(tier):
    lat = lattice(tier)
    nv = len(lat["start"]) * len(lat["length"]) * len(lat["duration"]) * (len(lat["duration"]) + 1) * 2
    nd, ni = len(lat["duration"]), len(lat["invalid"])
    ninv = len(lat["start"]) * len(lat["length"]) * 2 * (ni * (nd + 1 + ni) + nd * ni)
    return {
        "clip_start": lat["start"], "clip_length": lat["length"], "duration": lat["duration"],
        "hop": lat["duration"] + [None], "include_incomplete": [False, True], "non_positive": lat["invalid"],
        "scales": [1.0] + SCALES[tier],
        "valid_cases": nv, "invalid_cases": ninv, "recording_duration": 100.0,
    }


# ---------------------------------------------------------------- model
def model_windows(s, e, d, h, incl):
    """[(s+i*h, min(s+i*h+d, e)) for i = 0, 1, ... while s+i*h < e, kept if complete or incl] in Fraction."""
    out = []
    i = 0
    while s + i * h < e:
        a = s + i * h
        b = a + d
        if b <= e or incl:
            out.append((a, min(b, e)))
        i += 1
    return out


# ---------------------------------------------------------------- blocks / cases
def pairs(tier):
    lat = lattice(tier)
    return [(s, L) for s in lat["start"] for L in lat["length"]]


def blocks(tier):
    n = min(NBLOCKS[tier], len(pairs(tier)))
    return [{"tier": tier, "k": k, "of": n} for k in range(n)] + [{"tier": tier, "space": "environment"}, {"tier": tier, "space": "decimal"}]


def env_workload():
    """Segment identifiers and bounds of a few calls (executed in a child interpreter by mc.envprobe)."""
    res = []
    for (s, L, d, h, incl) in ((0.0, 3.0, 1.0, 0.5, True), (2.5, 6.0, 2.0, None, False), (1.0, 0.5, 1.0, 1.0, True)):
        clip = data.Clip(uuid=U("c14:clip:a"), recording=rec_(1.0), start_time=s, end_time=s + L)
        res.append([[str(c.uuid), c.start_time, c.end_time] for c in segment_clip(clip, d, h, incl)])
    return res


def run_environment(case):
    """Identifiers are a function of the parent identifier and the bounds: every environment variable the library's own code
    looks up while segmenting is set to a perturbing value in a fresh process; the identifiers must not move."""
    from mc import envprobe
    out = Out(case)
    reads, diffs = envprobe.probe("c14")
    out.transitions = out.validated = 1 + 2 * len(diffs)
    out.nontrivial = bool(diffs)
    if not diffs:
        out.ok("ids_independent_of_environment")
    for key, a, b in diffs:
        out.expect("ids_independent_of_environment", a == b, {"variable": key, "read_in": reads[key]}, "same identifiers and bounds",
                   _cls("environment_variable", variable=key))
    out.klass = "environment:%d_variables_read" % len(diffs)
    return out


def cases_of(tier, s, L):
    lat = lattice(tier)
    durs, bad = lat["duration"], lat["invalid"]
    for d in durs:
        for h in durs + [None]:
            for incl in (False, True):
                yield {"s": s, "L": L, "d": d, "h": h, "incl": incl}
                # the same case on a time-expanded (x10) recording: clip and window times are recording times all the same
                yield {"s": s, "L": L, "d": d, "h": h, "incl": incl, "te": 10.0}
                # the same numbers handed over as Python int / numpy scalars (whole-number durations and hops only for the ints)
                if d == int(d) and (h is None or h == int(h)):
                    yield {"s": s, "L": L, "d": d, "h": h, "incl": incl, "num": "int"}
                    yield {"s": s, "L": L, "d": d, "h": h, "incl": incl, "num": "np_int64"}
                yield {"s": s, "L": L, "d": d, "h": h, "incl": incl, "num": "np_float64"}
                # the same case on a scaled lattice (powers of two keep every operation exact): millisecond-sized
                # windows, where bounds differ only in the third decimal, and kilosecond-sized ones
                for sc in SCALES[tier]:
                    yield {"s": s * sc, "L": L * sc, "d": d * sc, "h": None if h is None else h * sc, "incl": incl, "scale": sc}
                # millisecond windows far from the origin (offset 4096 s): bounds differ only beyond the sixth significant digit
                sc = 2.0 ** -10
                if L <= 2.0:
                    yield {"s": 4096.0 + s * sc, "L": L * sc, "d": d * sc, "h": None if h is None else h * sc, "incl": incl,
                           "scale": sc, "offset": 4096.0}
    for incl in (False, True):
        for d in bad:
            for h in [None] + durs + bad:
                yield {"s": s, "L": L, "d": d, "h": h, "incl": incl}
        for d in durs:
            for h in bad:
                yield {"s": s, "L": L, "d": d, "h": h, "incl": incl}


DEC = {"start": [1.0, 100.0, 0.3], "length": [1.0, 7.3, 60.0], "duration": [0.1, 0.2, 0.3, 1.1], "hop": [None, 0.1, 0.7]}


def decimal_cases():
    for s in DEC["start"]:
        for L in DEC["length"]:
            for d in DEC["duration"]:
                for h in DEC["hop"]:
                    for incl in (False, True):
                        yield {"space": "decimal", "s": s, "L": L, "d": d, "h": h, "incl": incl}


def run_decimal(case):
    """Decimal (non-dyadic) durations and hops on clips that do not start at 0: floating point rounds every step, so the lattice is
    judged to a few units in the last place of the exact value (computed in Fraction from the float inputs) and the number of
    windows only between the count that fits with 1e-9 to spare and the count that fits when 1e-9 is forgiven."""
    import math
    out = Out(case)
    s, L, d, incl = case["s"], case["L"], case["d"], case["incl"]
    h = case["h"]
    e = s + L
    clip = data.Clip(uuid=U("c14:clip:dec"), recording=rec_(1.0), start_time=s, end_time=e)
    res = call(clip, d, h, incl)
    out.transitions = out.validated = 1
    out.nontrivial = True
    cls = _cls("decimal", incl=incl, hop="none" if h is None else "given")
    if res[0] != "ok":
        out.fail("equals_model", list(res), "a list of clips", cls)
        return out
    got = [(c.start_time, c.end_time) for c in res[1]]
    fs, fe, fd, fh = F(s), F(e), F(d), F(d if h is None else h)
    tol = F(1, 10 ** 9)

    def count(slack):
        n = i = 0
        while fs + i * fh < fe + slack and i < 100000:
            if incl or fs + i * fh + fd <= fe + slack:
                n += 1
            elif not incl:
                break
            i += 1
        return n
    lo, hi = count(-tol), count(tol)
    out.expect("window_count", lo <= len(got) <= hi, len(got), [lo, hi], cls)
    bad = None
    for i, (a, b) in enumerate(got):
        ea = fs + i * fh
        eb = min(ea + fd, fe)
        if abs(F(a) - ea) > 4 * F(math.ulp(a)) or abs(F(b) - eb) > 4 * F(math.ulp(b)):
            bad = {"index": i, "got": [a, b], "exact": [float(ea), float(eb)]}
            break
    out.expect("on_lattice_to_4ulp", bad is None, bad, "start + i*hop and start + i*hop + duration (or the clip end), correctly rounded to 4 ulp", cls)
    out.klass = "decimal:%s:%s" % ("incl" if incl else "strict", "0" if not got else "1" if len(got) == 1 else "2+")
    return out


def run_block(block, rec):
    if block.get("space") == "environment":
        rec.add(run_environment({"space": "environment"}))
        return
    if block.get("space") == "decimal":
        for case in decimal_cases():
            rec.add(run_decimal(case))
        return
    tier = block["tier"]
    for s, L in pairs(tier)[block["k"]::block["of"]]:
        for case in cases_of(tier, s, L):
            rec.add(run_case(case))


_REC = {}


def rec_(te=1.0):
    """The recording of the clips: real-time (time_expansion 1) or time-expanded x10 (clip times stay recording times)."""
    if te not in _REC:
        _REC[te] = recording(duration=100.0, time_expansion=te)
    return _REC[te]


def te_of(case):
    """Time expansion of the recording the case's clips belong to."""
    return float(case.get("te", 1.0))


NUMS = ["int", "np_int64", "np_float64"]
_NUM = ["float"]


def as_num(x):
    """The number x in the representation of the current case (Python float unless the case says otherwise)."""
    import numpy as np
    kind = _NUM[0]
    if x is None or kind == "float":
        return x
    if kind == "np_float64":
        return np.float64(x)
    if float(x) != int(x):
        return x
    return int(x) if kind == "int" else np.int64(int(x))


def call(clip, d, h, incl):
    d, h = as_num(d), as_num(h)
    try:
        segs = list(segment_clip(clip, d, h, incl))
    except Exception as e:  # noqa
        return ("reject" if is_rejection(e) else "crash", type(e).__name__)
    return ("ok", segs)


def fl(ws):
    return [[float(a), float(b)] for a, b in ws]


def _cls(kind, **kw):
    c = {"fn": FN, "kind": kind}
    c.update(kw)
    return c


def run_case(case):
    if case.get("space") == "environment":
        return run_environment(case)
    if case.get("space") == "decimal":
        return run_decimal(case)
    out = Out(case)
    s, L, d, h, incl = case["s"], case["L"], case["d"], case["h"], bool(case["incl"])
    e = s + L
    te = te_of(case)
    _NUM[0] = case.get("num", "float")
    parent = data.Clip(uuid=U("c14:clip:a"), recording=rec_(te), start_time=s, end_time=e)
    heff = d if h is None else h

    # ------------------------------------------------------------ non-positive duration / hop
    if d <= 0 or heff <= 0:
        which = "both" if (d <= 0 and h is not None and h <= 0) else "duration" if d <= 0 else "hop"
        r = call(parent, d, h, incl)
        out.transitions = 1
        out.validated = 1
        out.klass = "invalid_%s:%s" % (which, r[0])
        obs = [r[0], r[1]] if r[0] != "ok" else ["ok", [[getattr(c, "start_time", None), getattr(c, "end_time", None)] for c in r[1]]]
        out.expect("rejects_non_positive", r[0] == "reject", obs, "ValueError",
                   _cls("accepted" if r[0] == "ok" else "crash", bad=which))
        return out

    fs, fe, fd, fh = F(s), F(e), F(d), F(heff)
    exp = model_windows(fs, fe, fd, fh, incl)
    n_lattice = len(model_windows(fs, fe, fd, fh, True))
    divides = (F(L) / fh).denominator == 1
    rel = "lt" if fh < fd else "eq" if fh == fd else "gt"
    zero = L == 0
    out.nontrivial = n_lattice >= 2
    out.klass = "%sh_%s_d:%s:n%s:%s" % ("zero_length:" if zero else "", rel, "exact" if divides else "ragged",
                                         "2+" if len(exp) >= 2 else str(len(exp)), "T" if incl else "F")
    base = {"hop_divides_length": divides, "hop_gt_duration": rel == "gt"}
    unjudged = zero and incl  # see ASSUMPTIONS

    r1 = call(parent, d, h, incl)
    out.transitions = 1
    out.validated = 1
    if r1[0] != "ok":
        out.klass += ":" + r1[0]
        if unjudged:
            out.vac("equals_model")
        else:
            out.fail("equals_model", [r1[0], r1[1]], fl(exp), _cls("exception", **base))
        return out
    segs = r1[1]
    try:
        if not all(isinstance(c, data.Clip) for c in segs):
            raise TypeError("not a Clip")
        got = [(F(c.start_time), F(c.end_time)) for c in segs]
        ids1 = [c.uuid for c in segs]
    except Exception as ex:  # noqa
        out.fail("equals_model", ["unreadable", type(ex).__name__, sorted({type(c).__name__ for c in segs})], fl(exp),
                 _cls("not_clips", **base))
        return out

    # ------------------------------------------------------------ equals_model (same windows, same order)
    if unjudged:
        out.vac("equals_model")
    elif got == exp:
        out.ok("equals_model")
    else:
        if len(got) < len(exp) and got == exp[:len(got)]:
            if len(exp) - len(got) == 1:
                last = exp[-1]
                kind = "missing_complete_window" if last[1] - last[0] == fd else "missing_trailing_incomplete"
            else:
                kind = "missing_trailing_windows"
        elif len(got) > len(exp) and got[:len(exp)] == exp:
            kind = "extra_trailing_windows"
        else:
            kind = "other"
        out.fail("equals_model", fl(got), fl(exp), _cls(kind, **base))

    # ------------------------------------------------------------ derived oracles, judged on the output itself
    if not got:
        for o in ("inside_parent", "exact_duration", "on_lattice", "same_recording"):
            out.vac(o)
    else:
        bad = [w for w in got if not (fs <= w[0] <= w[1] <= fe)]
        out.expect("inside_parent", not bad, fl(bad), [float(fs), float(fe)], _cls("outside"))
        if incl:
            bad = [w for w in got if not (w[1] - w[0] == fd or (w[1] == fe and w[1] - w[0] < fd))]
        else:
            bad = [w for w in got if w[1] - w[0] != fd]
        out.expect("exact_duration", not bad, fl(bad), float(fd),
                   _cls("wrong_length", include_incomplete=incl))
        idx = [(w[0] - fs) / fh for w in got]
        on = all(q.denominator == 1 and q >= 0 for q in idx) and all(idx[k] < idx[k + 1] for k in range(len(idx) - 1))
        out.expect("on_lattice", on, [float(q) for q in idx], "increasing non-negative integers",
                   _cls("off_lattice_or_unordered"))
        prec = parent.recording
        same = all(c.recording == prec and c.recording.uuid == prec.uuid for c in segs)
        out.expect("same_recording", same, None, "recording of the parent", _cls("other_recording"))

    if incl and fh <= fd and not zero:
        if not got:
            out.fail("covers_clip_when_hop_le_duration", [], fl([(fs, fe)]), _cls("no_segments"))
        elif got[0][0] != fs:
            out.fail("covers_clip_when_hop_le_duration", fl(got), fl([(fs, fe)]), _cls("head_uncovered"))
        elif any(got[k + 1][0] > max(w[1] for w in got[:k + 1]) for k in range(len(got) - 1)):
            out.fail("covers_clip_when_hop_le_duration", fl(got), fl([(fs, fe)]), _cls("gap"))
        elif max(w[1] for w in got) != fe:
            out.fail("covers_clip_when_hop_le_duration", fl(got), fl([(fs, fe)]), _cls("tail_uncovered"))
        else:
            out.ok("covers_clip_when_hop_le_duration")
    else:
        out.vac("covers_clip_when_hop_le_duration")

    # ------------------------------------------------------------ ids
    r2 = call(parent, d, h, incl)
    other = data.Clip(uuid=U("c14:clip:b"), recording=rec_(te), start_time=s, end_time=e)
    r3 = call(other, d, h, incl)
    r4 = call(parent, d, 2 * heff, incl)
    out.transitions = 4
    problems = []

    def sig(r):
        return [(c.uuid, c.start_time, c.end_time) for c in r[1]] if r[0] == "ok" else [r[0], r[1]]

    try:
        s1, s2, s3, s4 = sig(r1), sig(r2), sig(r3), sig(r4)
    except Exception as ex:  # noqa
        out.fail("ids", ["unreadable", type(ex).__name__], "clips with uuid", _cls("unreadable"))
        return out
    if s1 != s2:
        problems.append(("not_repeatable", [str(u) for u in ids1], [str(t[0]) if r2[0] == "ok" else t for t in s2]))
    if len(set(ids1)) != len(ids1):
        problems.append(("duplicate_in_call", [str(u) for u in ids1], "pairwise distinct"))
    if r3[0] != "ok" or [t[1:] for t in s3] != [t[1:] for t in s1]:
        problems.append(("windows_depend_on_parent_uuid", fl(got), "same windows for a parent with another uuid"))
    elif set(ids1) & {t[0] for t in s3}:
        problems.append(("parent_uuid_ignored", [str(u) for u in ids1], "disjoint from the ids under another parent uuid"))
    if r4[0] != "ok":
        problems.append(("double_hop_call_failed", s4, "ok"))
    else:
        by_bounds = {(t[1], t[2]): t[0] for t in s1}
        diff = [(t[1], t[2]) for t in s4 if (t[1], t[2]) in by_bounds and by_bounds[(t[1], t[2])] != t[0]]
        if diff:
            problems.append(("not_a_function_of_parent_and_bounds", diff, "equal ids for equal bounds"))
    # with include_incomplete: the same hop with twice the duration. Every truncated window (a, e) of the first call is
    # also a window of the second one, and a complete window ending at e becomes the truncated (a, e) there: equal
    # bounds must give equal ids, different bounds different ids (ids are a function of parent and *yielded* bounds)
    if incl:
        r5 = call(parent, 2 * d, heff, True)
        out.transitions = 5
        try:
            s5 = sig(r5)
        except Exception as ex:  # noqa
            out.fail("ids", ["unreadable", type(ex).__name__], "clips with uuid", _cls("unreadable"))
            return out
        if r5[0] != "ok":
            problems.append(("double_duration_call_failed", s5, "ok"))
        else:
            by_bounds = {(t[1], t[2]): t[0] for t in s1}
            by_id = {t[0]: (t[1], t[2]) for t in s1}
            common = [t for t in s5 if (t[1], t[2]) in by_bounds]
            ntrunc = sum(1 for t in common if F(t[1]) + 2 * fd > fe)  # coinciding windows clamped in at least one call
            out.klass += ":xdur_trunc" + ("2+" if ntrunc >= 2 else str(ntrunc))
            diff = [[t[1], t[2]] for t in common if by_bounds[(t[1], t[2])] != t[0]]
            if diff:
                problems.append(("not_a_function_of_bounds_across_durations", diff,
                                 "equal ids for equal (parent, start, end) whatever the duration argument"))
            # (different bounds across two calls getting the same id is NOT judged: the statement only requires ids to be
            # distinct within one call)
    if not ids1 and not problems:
        out.vac("ids")
    elif not problems:
        out.ok("ids")
    else:
        for kind, obs, expd in problems:
            out.fail("ids", obs, expd, _cls(kind))
    return out


def replay_case(case):
    return run_case(case)
