"""C04 — Relational schema invariants cannot be bypassed at construction.

Five finite spaces, each case offered through four construction paths:

  ctor   the class constructor with real objects
  dict   Class.model_validate(dict)       dict = model_dump() of valid parts, edited to the case
  json   Class.model_validate_json(text)  text = JSON of model_dump(mode="json") of valid parts, edited
  aoef   a valid carrier collection is written with soundevent.io.save, the document is edited
         to the case (id lists rewritten, numbers replaced, match objects rewritten) and
         soundevent.io.load is called on the edited file

Spaces (block["space"]):
  clip_evaluation  annotated subset of {a0,a1} x predicted subset of {p0,p1} x clip pairing x EVERY sequence of
                   matches over the 15 kinds (source in {-,p0,p1,p2}) x (target in {-,a0,a1,a2}) minus (-,-)
  match            source/target given as object | None | omitted  x affinity x score over the boundary alphabet
  project          3 clips; every multiset (quick) / sequence (thorough) of task clips x of annotated clips
  clip             (start, end) over the boundary alphabet squared; aoef through every clip-bearing collection type
  score            PredictedTag / SoundEventPrediction / SequencePrediction / ClipEvaluation .score over the alphabet;
                   aoef through every collection type and every site that carries the field

Reference model: models/invariants.py (set / multiset predicates, plain comparisons).
"""
from __future__ import annotations

import itertools
import json
import os
import pickle
from decimal import Decimal

import numpy as np

from pydantic import ValidationError

from soundevent import data, io

from mc.runner import Out, scratch_dir
from mc.space import chunk, multisets, sequences, sequences_size
from models import invariants as inv
from props.common import DT, is_rejection, recording, term
from props.common import U as _U

ID = "C04"
_UCACHE = {}


def U(name):
    u = _UCACHE.get(name)
    if u is None:
        u = _UCACHE[name] = _U(name)
    return u


RULE = (
    "[added] predicted-tag probabilities on the AOEF path are also probed on an entry whose tag id is listed a second time with a valid probability; shared_uuid has a variant in which the match holds an earlier snapshot (same uuid, other tags) of the annotation. "
    "one case = one input arrangement, run through the constructor, model_validate(dict), model_validate_json and "
    "(when the format can express it) an edited AOEF document given to io.load. clip_evaluation: every subset of "
    "annotated {a0,a1} x predicted {p0,p1} x clip pairing x every match sequence up to the length bound over 15 "
    "match kinds (foreign a2/p2 are defined in the document but belong to another clip). match: presence forms x "
    "affinity x score alphabet. project: every multiset (quick) / sequence (thorough) of task clips x annotated clips "
    "over 3 clips. clip: alphabet squared. score: 4 classes x alphabet. defaults: every (model class, container-valued default "
    "field) of soundevent.data found by reflection, history 'build with defaults, fill the container in place, build again' - the "
    "second object must start empty (else it holds objects never offered to its validators). Environment axis: the project, clip, score "
    "and match spaces once more in a child interpreter started with -O (case key env='python -O'). clip cases also offer the two times as "
    "decimal text, Decimal, float mixed with text, numpy float32 and quoted JSON numbers. Non-trivial: clip_evaluation cases with at "
    "least one match and one sound event in the clip; match/score/clip cases that touch a boundary value (anything "
    "but 0.5 / none / start == end); project cases with both lists non-empty. distinct = distinct case descriptor."
)
ASSUMPTIONS = [
    "'rejected' = any ValueError subclass (pydantic.ValidationError included); any other exception type is a violation",
    "NaN and the infinities are 'not in [0, 1]' and must be rejected; -0.0 equals 0 and is accepted",
    "two objects are 'the same clip / sound event' iff they carry the same uuid; every match position has its own uuid",
    "an AOEF case is judged only when the edited document expresses exactly the intended case: every id it mentions "
    "is defined in the document (the lenient loader skips unknown ids; checked on the document before loading) and "
    "the parser accepts the number token (pydantic's JSON parser reads the non-standard tokens NaN / Infinity; a "
    "document it reports as json_invalid is counted vacuous). An accepted document is read back: the loaded object "
    "must satisfy the model (exists_only_if_valid) and carry what the document says (aoef_loaded_as_written)",
    "sound events of the clip_evaluation / match spaces have no geometry and no tags (irrelevant to the invariants; "
    "their validation would dominate the cost); the score / clip carriers hold full objects",
    "Evaluation re-runs the after-validators of a ClipEvaluation instance it is given, field constraints are not "
    "re-run on instances: both layers are part of the executed system, not modelled",
    "numeric strings, booleans and NaN clip times are out of the alphabet by decision (DESIGN.md section 3)",
    "Evaluation.score carries no constraint in the schema and is not judged",
]

NAN = float("nan")
INF = float("inf")
VALUES = {
    "0.5": 0.5, "0": 0.0, "1": 1.0, "-0.0": -0.0, "-1e-9": -1e-9, "1+ulp": 1.0 + 2.0 ** -52, "2": 2.0,
    "nan": NAN, "+inf": INF, "-inf": -INF, "none": None,
    # thorough only
    "1-ulp": 1.0 - 2.0 ** -53, "5e-324": 5e-324, "-5e-324": -5e-324, "1e308": 1e308, "-1e308": -1e308,
    "int0": 0, "int1": 1, "int2": 2, "int-1": -1,
    # clip times only
    "-1": -1.0, "9": 9.0, "10": 10.0,  # 9 < 10 as numbers, "9" > "10" as text
}
VAL_QUICK = ["0.5", "0", "1", "-0.0", "-1e-9", "1+ulp", "2", "nan", "+inf", "-inf"]
VAL_THOROUGH = VAL_QUICK + ["1-ulp", "5e-324", "-5e-324", "1e308", "-1e308", "int0", "int1", "int2", "int-1"]
CLIP_QUICK = ["0", "1", "1+ulp", "2", "9", "10"]
CLIP_THOROUGH = ["0", "1", "1+ulp", "2", "9", "10", "-0.0", "0.5", "1-ulp", "-1", "int0", "int1", "int2", "1e308"]
NONFINITE = ("nan", "+inf", "-inf")
BORING = ("0.5", "none")

SOURCES = TARGETS = "-012"
KINDS = ["00", "11", "01", "10", "0-", "-0", "1-", "-1", "22", "02", "20", "12", "21", "2-", "-2"]  # source, target
SUBSETS = ["", "0", "1", "01"]
PAIRINGS = ["same", "different"]
PRESENCE = ["obj", "none", "omit"]
SCORE_CLASSES = ["PredictedTag", "SoundEventPrediction", "SequencePrediction", "ClipEvaluation"]
OPTIONAL_SCORE = {"PredictedTag": False, "SoundEventPrediction": False, "SequencePrediction": False,
                  "ClipEvaluation": True}
CLIP_CARRIERS = ["annotation_set", "annotation_project", "evaluation_set", "prediction_set", "model_run", "evaluation"]
PRED_CARRIERS = ["prediction_set", "model_run", "evaluation"]
TAG_SITES = ["clip_predictions", "sound_event_predictions", "sequence_predictions"]

CFG = {
    "quick": {"match_len": 3, "aoef_match_len": 3, "ce_parts": 2, "values": VAL_QUICK, "clip_values": CLIP_QUICK,
              "project": "multisets", "project_len": 3},
    "thorough": {"match_len": 4, "aoef_match_len": 4, "ce_parts": 3, "values": VAL_THOROUGH,
                 "clip_values": CLIP_THOROUGH, "project": "sequences", "project_len": 4},
}


def bounds(tier):
    c = CFG[tier]
    nproj = (sum(1 for _ in multisets(range(3), c["project_len"])) if c["project"] == "multisets"
             else sequences_size(3, c["project_len"]))
    return {
        "paths": ["ctor", "dict", "json", "aoef"],
        "clip_evaluation": {
            "annotated_subsets_of": ["a0", "a1"], "predicted_subsets_of": ["p0", "p1"], "foreign": ["a2", "p2"],
            "pairings": PAIRINGS, "match_kinds": len(KINDS), "max_matches": c["match_len"],
            "max_matches_on_aoef_path": c["aoef_match_len"],
            "match_sequences": sequences_size(len(KINDS), c["match_len"]),
            "cases": sequences_size(len(KINDS), c["match_len"]) * 16 * 2,
        },
        "match": {"presence_forms": PRESENCE, "affinity": c["values"], "score": c["values"] + ["none"]},
        "defaults": {"sites": len(default_sites())},
        "project": {"clips": 3, "enumeration": c["project"], "max_tasks": c["project_len"],
                    "max_annotated": c["project_len"], "cases": nproj * nproj},
        "clip": {"times": c["clip_values"], "aoef_carriers": CLIP_CARRIERS},
        "score": {"classes": SCORE_CLASSES, "values": c["values"], "none_where_optional": ["ClipEvaluation"],
                  "aoef_carriers": PRED_CARRIERS, "predicted_tag_sites": TAG_SITES},
    }


# ---------------------------------------------------------------- the fixed world of valid parts
class World:
    """Valid parts and carrier documents, built once per process in independent sections.  A section that cannot be
    built (only possible on a tree where a *valid* object is rejected) is recorded in self.errors and every case
    that needs it fails the oracle valid_part_constructs instead of raising out of run_block."""

    NEEDS = {"clip_evaluation": ("core", "ce"), "match": ("core", "ce"), "project": ("core", "project"),
             "clip": ("core", "carriers"), "score": ("core", "carriers")}

    def __init__(self):
        self.errors = {}
        for section in ("core", "ce", "project", "carriers"):
            if section != "core" and "core" in self.errors:
                self.errors[section] = self.errors["core"]
                continue
            try:
                getattr(self, "build_" + section)()
            except Exception as e:  # noqa
                self.errors[section] = "%s: %s" % (type(e).__name__, str(e)[:300])

    def build_core(self):
        self.rec = recording()
        self.clips = [data.Clip(uuid=U("clip%d" % i), recording=self.rec, start_time=float(i), end_time=float(i + 1))
                      for i in range(3)]
        self.tag = data.Tag(term=term("species"), value="x")

        def se(name, geometry=None):
            return data.SoundEvent(uuid=U("se:" + name), recording=self.rec, geometry=geometry)

        # sound events of the clip_evaluation / match spaces carry no geometry and no tags: both are irrelevant to
        # the invariants and their validation would dominate the cost of the dict / json / aoef paths
        self.ann = [data.SoundEventAnnotation(uuid=U("a%d" % i), sound_event=se("a%d" % i), created_on=DT)
                    for i in range(3)]
        self.pred = [data.SoundEventPrediction(uuid=U("p%d" % i), sound_event=se("p%d" % i), score=0.5)
                     for i in range(3)]
        # the prediction of the score space is a full one (geometry, predicted tag)
        self.spred = data.SoundEventPrediction(
            uuid=U("sp"), sound_event=se("sp", data.TimeInterval(coordinates=[0.25, 0.5])), score=0.5,
            tags=[data.PredictedTag(tag=self.tag, score=0.5)])
        self.name_of = {}
        for i in range(3):
            self.name_of[self.ann[i].uuid] = str(i)
            self.name_of[self.pred[i].uuid] = str(i)
            self.name_of[self.clips[i].uuid] = i

    def build_ce(self):
        self.ca = {s: data.ClipAnnotation(uuid=U("CA"), clip=self.clips[0], sound_events=[self.ann[int(c)] for c in s],
                                          created_on=DT) for s in SUBSETS}
        self.cp = {(s, p): data.ClipPrediction(uuid=U("CP"), clip=self.clips[0 if p == "same" else 1],
                                               sound_events=[self.pred[int(c)] for c in s])
                   for s in SUBSETS for p in PAIRINGS}
        self.ca_py = {k: pickle.dumps(v.model_dump()) for k, v in self.ca.items()}
        self.cp_py = {k: pickle.dumps(v.model_dump()) for k, v in self.cp.items()}
        self.ca_js = {k: v.model_dump_json() for k, v in self.ca.items()}
        self.cp_js = {k: v.model_dump_json() for k, v in self.cp.items()}
        # dumps of the match of every (position, kind): the dump of a valid two-sided match whose uuid / source /
        # target are replaced by the dumps of the valid parts (or None)
        tmpl = data.Match(uuid=U("m0"), source=self.pred[0], target=self.ann[0], affinity=0.5)
        tp, tj = tmpl.model_dump(), tmpl.model_dump(mode="json")
        pp, pj = [x.model_dump() for x in self.pred], [x.model_dump(mode="json") for x in self.pred]
        ap, aj = [x.model_dump() for x in self.ann], [x.model_dump(mode="json") for x in self.ann]
        self.match_py, self.match_js = {}, {}
        for i in range(4):
            for k in KINDS:
                self.match_py[(i, k)] = pickle.dumps(dict(tp, uuid=U("m%d" % i), source=self.side(pp, k[0]),
                                                          target=self.side(ap, k[1])))
                self.match_js[(i, k)] = json.dumps(dict(tj, uuid=str(U("m%d" % i)), source=self.side(pj, k[0]),
                                                        target=self.side(aj, k[1])))
        # --- carrier: clip A (a0, a1 / p0, p1) is the clip evaluation under edit; clip B defines the foreign a2 / p2
        ceA = data.ClipEvaluation(uuid=U("ce"), annotations=self.ca["01"], predictions=self.cp[("01", "same")],
                                  matches=[self.make_match(0, "00"), self.make_match(1, "11")])
        ceB = data.ClipEvaluation(
            uuid=U("ceB"),
            annotations=data.ClipAnnotation(uuid=U("CAB"), clip=self.clips[1], sound_events=[self.ann[2]], created_on=DT),
            predictions=data.ClipPrediction(uuid=U("CPB"), clip=self.clips[1], sound_events=[self.pred[2]]),
            matches=[data.Match(uuid=U("mB"), source=self.pred[2], target=self.ann[2], affinity=0.5)])
        self.eval_carrier = data.Evaluation(uuid=U("ev"), created_on=DT, evaluation_task="sound_event_detection",
                                            clip_evaluations=[ceA, ceB])
        self.eval_doc = self.save(self.eval_carrier)
        d = self.eval_doc["data"]
        self.defined = {
            "ann": {x["uuid"] for x in d.get("sound_event_annotations") or []},
            "pred": {x["uuid"] for x in d.get("sound_event_predictions") or []},
            "clip": {x["uuid"] for x in d.get("clips") or []},
        }

    def build_project(self):
        self.tasks = {(i, c): data.AnnotationTask(uuid=U("task%d" % i), clip=self.clips[c], created_on=DT)
                      for i in range(4) for c in range(3)}
        self.pca = {(i, c): data.ClipAnnotation(uuid=U("pca%d" % i), clip=self.clips[c], created_on=DT)
                    for i in range(4) for c in range(3)}
        self.project = data.AnnotationProject(
            uuid=U("proj"), name="proj", created_on=DT,
            clip_annotations=[self.pca[(i, i)] for i in range(3)], tasks=[self.tasks[(i, i)] for i in range(3)])
        self.project_py = pickle.dumps(self.project.model_dump())
        self.project_js = self.project.model_dump(mode="json")
        self.tasks_py = {k: pickle.dumps(v.model_dump()) for k, v in self.tasks.items()}
        self.pca_py = {k: pickle.dumps(v.model_dump()) for k, v in self.pca.items()}
        self.tasks_js = {k: v.model_dump(mode="json") for k, v in self.tasks.items()}
        self.pca_js = {k: v.model_dump(mode="json") for k, v in self.pca.items()}
        self.project_doc = self.save(self.project)

    def build_carriers(self):
        """One clip, one prediction of every kind (score and clip spaces)."""
        seq = data.Sequence(uuid=U("seq"), sound_events=[self.spred.sound_event])
        self.seqp = data.SequencePrediction(uuid=U("seqp"), sequence=seq, score=0.5,
                                            tags=[data.PredictedTag(tag=self.tag, score=0.5)])
        self.ptag = data.PredictedTag(tag=self.tag, score=0.5)
        self.scp = data.ClipPrediction(uuid=U("sCP"), clip=self.clips[0], sound_events=[self.spred],
                                       sequences=[self.seqp], tags=[data.PredictedTag(tag=self.tag, score=0.5)])
        sann = data.SoundEventAnnotation(uuid=U("sa"), sound_event=self.spred.sound_event, created_on=DT)
        sca = data.ClipAnnotation(uuid=U("sCA"), clip=self.clips[0], sound_events=[sann], created_on=DT)
        self.sce = data.ClipEvaluation(
            uuid=U("sce"), annotations=sca, predictions=self.scp, score=0.5,
            matches=[data.Match(uuid=U("sm"), source=self.spred, target=sann, affinity=0.5)])
        carriers = {
            "annotation_set": data.AnnotationSet(uuid=U("c:as"), clip_annotations=[sca], created_on=DT),
            "annotation_project": data.AnnotationProject(
                uuid=U("c:ap"), name="p", clip_annotations=[sca], created_on=DT,
                tasks=[data.AnnotationTask(uuid=U("c:task"), clip=self.clips[0], created_on=DT)]),
            "evaluation_set": data.EvaluationSet(uuid=U("c:es"), name="e", clip_annotations=[sca], created_on=DT),
            "prediction_set": data.PredictionSet(uuid=U("c:ps"), clip_predictions=[self.scp], created_on=DT),
            "model_run": data.ModelRun(uuid=U("c:mr"), name="m", clip_predictions=[self.scp], created_on=DT),
            "evaluation": data.Evaluation(uuid=U("c:ev"), created_on=DT, evaluation_task="t", clip_evaluations=[self.sce]),
        }
        self.carrier_docs = {k: self.save(v) for k, v in carriers.items()}

    @staticmethod
    def side(pool, c):
        return None if c == "-" else pool[int(c)]

    def make_match(self, i, k):
        return data.Match(uuid=U("m%d" % i), source=self.side(self.pred, k[0]), target=self.side(self.ann, k[1]),
                          affinity=0.5)

    @staticmethod
    def save(obj):
        path = os.path.join(scratch_dir(), "c04-carrier.json")
        io.save(obj, path)
        with open(path) as f:
            return json.load(f)


_W = None


def W():
    global _W
    if _W is None:
        _W = World()
    return _W


# ---------------------------------------------------------------- observation helpers
def observe(fn, nonstd=False):
    """-> (observation, object | None); observation in accept / reject / unparseable / crash:<Type>."""
    try:
        return "accept", fn()
    except Exception as e:  # noqa
        if is_rejection(e):
            if nonstd and isinstance(e, ValidationError):
                try:
                    if any(er.get("type") == "json_invalid" for er in e.errors()):
                        return "unparseable", None
                except Exception:  # noqa
                    pass
            return "reject", None
        return "crash:" + type(e).__name__, None


_CASE_FILE = {}


def write_case_file(text):
    """Rewrite this process's scratch document in place (an O_TRUNC re-open costs 2 ms on this file system)."""
    pid = os.getpid()
    if pid not in _CASE_FILE:
        path = os.path.join(scratch_dir(), "c04-case.json")
        _CASE_FILE.clear()
        _CASE_FILE[pid] = (path, os.open(path, os.O_RDWR | os.O_CREAT | os.O_TRUNC, 0o600))
    path, fd = _CASE_FILE[pid]
    raw = text.encode("utf-8")
    os.pwrite(fd, raw, 0)
    os.ftruncate(fd, len(raw))
    return path


def aoef_load(doc, nonstd=False):
    path = write_case_file(json.dumps(doc))
    return observe(lambda: io.load(path), nonstd)


def edit_entry(doc, listname, uuid, **changes):
    """Copy of the document in which the entry `uuid` of data[listname] has the given keys replaced
    (value None: key removed).  Returns (doc, found)."""
    d = dict(doc["data"])
    found = False
    new = []
    for x in d.get(listname) or []:
        if x.get("uuid") == uuid:
            x = dict(x)
            for k, v in changes.items():
                if v is DROP:
                    x.pop(k, None)
                else:
                    x[k] = v
            found = True
        new.append(x)
    d[listname] = new
    return dict(doc, data=d), found


DROP = object()


class Paths:
    """Collects the per-path observations of one case and applies the oracles.

    A path label is "<base>" or "<base>:<carrier>[/<site>]"; violation classes carry the base (ctor/dict/json/aoef)
    and, for aoef, the carrier collection type; the full label goes to the detail."""

    def __init__(self, out, space, reasons, cls=None):
        self.out, self.space, self.reasons = out, space, reasons
        self.expected = "reject" if reasons else "accept"
        self.cls = cls or {}
        self.judged = []
        self.n = 0

    def _cls(self, path, **kw):
        base, _, rest = path.partition(":")
        c = dict(self.cls, space=self.space, path=base, **kw)
        if base == "aoef" and rest:
            c["via"] = rest.split("/")[0]
        return c

    def add(self, path, obs, expressed=True, valid_after=None, as_written=None):
        """obs: observation.  expressed False: the path cannot express the case (vacuous).
        valid_after: model reasons of the accepted object as read back (None: nothing accepted).
        as_written: for aoef, whether the accepted object carries what the document says (None: nothing accepted)."""
        self.n += 1
        out = self.out
        if obs == "unparseable" or not expressed:
            out.vac("accept_iff_model")
        else:
            out.expect("accept_iff_model", obs == self.expected, obs, self.expected,
                       self._cls(path, expected=self.expected, observed=obs,
                                 why=self.reasons[0] if self.reasons else "valid"),
                       {"model_reasons": self.reasons, "path": path})
            self.judged.append((path, obs))
        if valid_after is not None:
            out.expect("exists_only_if_valid", not valid_after, valid_after, [],
                       self._cls(path, why=valid_after[0] if valid_after else "valid"), {"path": path})
        if as_written is not None:
            out.expect("aoef_loaded_as_written", as_written, "loaded object differs from the document", "same content",
                       self._cls(path), {"path": path})

    def finish(self):
        out = self.out
        groups = {}
        for p, o in self.judged:
            groups.setdefault(o, []).append(p.split(":")[0])
        if len(self.judged) < 2:
            out.vac("paths_agree")
        else:
            pattern = " / ".join("%s: %s" % (o, ",".join(sorted(set(ps)))) for o, ps in sorted(groups.items()))
            out.expect("paths_agree", len(groups) == 1, pattern, "one verdict on every path",
                       dict(self.cls, space=self.space, pattern=pattern),
                       {"verdicts": [[p, o] for p, o in self.judged]})
        out.transitions = self.n
        out.validated = len(self.judged)
        out.klass = "%s:%s:%s" % (self.space, "invalid-" + self.reasons[0] if self.reasons else "valid",
                                  "+".join(sorted({o for _, o in self.judged})) or "unjudged")


def rb(after, obj):
    """Model reasons of an accepted object read back (None when nothing was accepted).  An accepted object that
    cannot even be read is reported as invalid, never as an exception of the check."""
    if obj is None:
        return None
    try:
        return after(obj)
    except Exception as e:  # noqa
        return ["unreadable:" + type(e).__name__]


def aoef_readback(obj, locate, after, same):
    """(model reasons, as-written flag) of the object an accepted document produced; (None, None) when rejected.
    locate(obj) finds the object under test in the loaded collection (None: not there)."""
    if obj is None:
        return None, None
    try:
        x = locate(obj)
        if x is None:
            return None, False
        return after(x), bool(same(x))
    except Exception as e:  # noqa
        return ["unreadable:" + type(e).__name__], False


def world_for(case, out):
    """The world, or None after recording that a valid part of this space could not be built."""
    w = W()
    for section in World.NEEDS[case["space"]]:
        if section in w.errors:
            out.fail("valid_part_constructs", w.errors[section], "every valid part and carrier can be built and saved",
                     {"space": case["space"], "section": section, "error": w.errors[section].split(":")[0]})
            out.transitions, out.validated, out.klass = 1, 0, case["space"] + ":world_failed"
            return None
    return w


# ---------------------------------------------------------------- space: clip_evaluation
def read_ce(w, ce):
    ann = [w.name_of.get(a.uuid, "?") for a in ce.annotations.sound_events]
    pred = [w.name_of.get(p.uuid, "?") for p in ce.predictions.sound_events]
    same = ce.annotations.clip.uuid == ce.predictions.clip.uuid
    ms = [(None if m.source is None else w.name_of.get(m.source.uuid, "?"),
           None if m.target is None else w.name_of.get(m.target.uuid, "?")) for m in ce.matches]
    return ann, pred, same, ms


def eval_doc_for(w, a, p, pairing, match_entries):
    """The evaluation carrier edited so that clip evaluation 'ce' is the case. -> (doc, expressed)."""
    doc = w.eval_doc
    ok = True
    ann_ids = [str(w.ann[int(c)].uuid) for c in a]
    pred_ids = [str(w.pred[int(c)].uuid) for c in p]
    clip_id = str(w.clips[0 if pairing == "same" else 1].uuid)
    doc, f = edit_entry(doc, "clip_annotations", str(U("CA")), sound_events=ann_ids)
    ok &= f
    doc, f = edit_entry(doc, "clip_predictions", str(U("CP")), sound_events=pred_ids, clip=clip_id)
    ok &= f
    doc, f = edit_entry(doc, "clip_evaluations", str(U("ce")), matches=[m["uuid"] for m in match_entries])
    ok &= f
    d = doc["data"]
    keep = [m for m in d.get("matches") or [] if m.get("uuid") == str(U("mB"))]
    ok &= len(keep) == 1
    d["matches"] = keep + match_entries
    # every id mentioned must be defined in the document, otherwise the lenient loader drops it silently
    ok &= all(i in w.defined["ann"] for i in ann_ids) and all(i in w.defined["pred"] for i in pred_ids)
    ok &= clip_id in w.defined["clip"]
    for m in match_entries:
        ok &= m.get("source") is None or m["source"] in w.defined["pred"]
        ok &= m.get("target") is None or m["target"] in w.defined["ann"]
    return doc, bool(ok)


def match_entry(w, i, kind, affinity=0.5, **extra):
    e = {"uuid": str(U("m%d" % i)), "affinity": affinity}
    if kind[0] != "-":
        e["source"] = str(w.pred[int(kind[0])].uuid)
    if kind[1] != "-":
        e["target"] = str(w.ann[int(kind[1])].uuid)
    e.update(extra)
    return e


def find_ce(ev, uuid):
    for ce in ev.clip_evaluations:
        if ce.uuid == uuid:
            return ce
    return None


def run_clip_evaluation(case):
    out = Out(case)
    w = world_for(case, out)
    if w is None:
        return out
    a, p, pairing, seq = case["ann"], case["pred"], case["pairing"], case["matches"]
    intended = (list(a), list(p), pairing == "same",
                [(None if k[0] == "-" else k[0], None if k[1] == "-" else k[1]) for k in seq])
    reasons = inv.clip_evaluation_reasons(*intended)
    P = Paths(out, "clip_evaluation", reasons)

    def after(obj):
        return inv.clip_evaluation_reasons(*read_ce(w, obj))

    # 1 constructor
    obs, obj = observe(lambda: data.ClipEvaluation(
        uuid=U("ce"), annotations=w.ca[a], predictions=w.cp[(p, pairing)],
        matches=[w.make_match(i, k) for i, k in enumerate(seq)]))
    P.add("ctor", obs, True, rb(after, obj))
    # 2 dict
    d = {"uuid": U("ce"), "annotations": pickle.loads(w.ca_py[a]), "predictions": pickle.loads(w.cp_py[(p, pairing)]),
         "matches": [pickle.loads(w.match_py[(i, k)]) for i, k in enumerate(seq)], "metrics": [], "score": None}
    obs, obj = observe(lambda: data.ClipEvaluation.model_validate(d))
    P.add("dict", obs, True, rb(after, obj))
    # 3 json
    text = '{"uuid":"%s","annotations":%s,"predictions":%s,"matches":[%s],"metrics":[],"score":null}' % (
        U("ce"), w.ca_js[a], w.cp_js[(p, pairing)], ",".join(w.match_js[(i, k)] for i, k in enumerate(seq)))
    obs, obj = observe(lambda: data.ClipEvaluation.model_validate_json(text))
    P.add("json", obs, True, rb(after, obj))
    # 4 aoef
    if case.get("aoef", True):
        doc, expressed = eval_doc_for(w, a, p, pairing, [match_entry(w, i, k) for i, k in enumerate(seq)])
        obs, ev = aoef_load(doc)
        va, aw = aoef_readback(ev, lambda e: find_ce(e, U("ce")), after, lambda ce: read_ce(w, ce) == intended)
        P.add("aoef", obs, expressed, va, aw)
    P.finish()
    out.nontrivial = bool(seq) and bool(a or p)
    return out


# ---------------------------------------------------------------- space: match
def run_match(case):
    out = Out(case)
    w = world_for(case, out)
    if w is None:
        return out
    sf, tf, an, sn = case["source"], case["target"], case["affinity"], case["score"]
    aff, score = VALUES[an], VALUES[sn]
    has_s, has_t = sf == "obj", tf == "obj"
    reasons = inv.match_reasons(has_s, has_t, aff, score)
    P = Paths(out, "match", reasons)
    nonstd = an in NONFINITE or sn in NONFINITE

    def after(m):
        return inv.match_reasons(m.source is not None, m.target is not None, m.affinity, m.score)

    def same(m):
        return ((m.source is not None) == has_s and (m.target is not None) == has_t
                and repr(float(m.affinity)) == repr(float(aff))
                and ((m.score is None) == (score is None)) and (score is None or repr(float(m.score)) == repr(float(score))))

    # 1 constructor
    kw = {"uuid": U("m0"), "affinity": aff, "score": score}
    if sf != "omit":
        kw["source"] = w.pred[0] if has_s else None
    if tf != "omit":
        kw["target"] = w.ann[0] if has_t else None
    obs, obj = observe(lambda: data.Match(**kw))
    P.add("ctor", obs, True, rb(after, obj))
    # 2 dict
    d = pickle.loads(w.match_py[(0, "00")])
    d["affinity"], d["score"] = aff, score
    for key, form in (("source", sf), ("target", tf)):
        if form == "none":
            d[key] = None
        elif form == "omit":
            del d[key]
    obs, obj = observe(lambda: data.Match.model_validate(d))
    P.add("dict", obs, True, rb(after, obj))
    # 3 json
    dj = json.loads(w.match_js[(0, "00")])
    dj["affinity"], dj["score"] = aff, score
    for key, form in (("source", sf), ("target", tf)):
        if form == "none":
            dj[key] = None
        elif form == "omit":
            del dj[key]
    text = json.dumps(dj)
    obs, obj = observe(lambda: data.Match.model_validate_json(text), nonstd)
    P.add("json", obs, True, rb(after, obj))
    # 4 aoef: the clip holds exactly the sound events the match mentions, so that only the Match can be wrong
    e = {"uuid": str(U("m0")), "affinity": aff}
    if score is not None:
        e["score"] = score
    if has_s:
        e["source"] = str(w.pred[0].uuid)
    elif sf == "none":
        e["source"] = None
    if has_t:
        e["target"] = str(w.ann[0].uuid)
    elif tf == "none":
        e["target"] = None
    doc, expressed = eval_doc_for(w, "0" if has_t else "", "0" if has_s else "", "same", [e])
    obs, ev = aoef_load(doc, nonstd)
    def only_match(e):
        ce = find_ce(e, U("ce"))
        return ce.matches[0] if ce is not None and len(ce.matches) == 1 else None

    va, aw = aoef_readback(ev, only_match, after, same)
    P.add("aoef", obs, expressed, va, aw)
    P.finish()
    out.nontrivial = an not in BORING or sn not in BORING or not (has_s and has_t)
    return out


# ---------------------------------------------------------------- space: project
def run_project(case):
    out = Out(case)
    w = world_for(case, out)
    if w is None:
        return out
    tasks, annotated = case["tasks"], case["annotated"]
    reasons = inv.project_reasons(tasks, annotated)
    P = Paths(out, "project", reasons)

    def read(pr):
        return ([w.name_of.get(t.clip.uuid, "?") for t in pr.tasks],
                [w.name_of.get(c.clip.uuid, "?") for c in pr.clip_annotations])

    def after(pr):
        return inv.project_reasons(*read(pr))

    obs, obj = observe(lambda: data.AnnotationProject(
        uuid=U("proj"), name="proj", created_on=DT,
        clip_annotations=[w.pca[(i, c)] for i, c in enumerate(annotated)],
        tasks=[w.tasks[(i, c)] for i, c in enumerate(tasks)]))
    P.add("ctor", obs, True, rb(after, obj))
    d = pickle.loads(w.project_py)
    d["tasks"] = [pickle.loads(w.tasks_py[(i, c)]) for i, c in enumerate(tasks)]
    d["clip_annotations"] = [pickle.loads(w.pca_py[(i, c)]) for i, c in enumerate(annotated)]
    obs, obj = observe(lambda: data.AnnotationProject.model_validate(d))
    P.add("dict", obs, True, rb(after, obj))
    dj = dict(w.project_js)
    dj["tasks"] = [w.tasks_js[(i, c)] for i, c in enumerate(tasks)]
    dj["clip_annotations"] = [w.pca_js[(i, c)] for i, c in enumerate(annotated)]
    text = json.dumps(dj)
    obs, obj = observe(lambda: data.AnnotationProject.model_validate_json(text))
    P.add("json", obs, True, rb(after, obj))
    # aoef: the carrier defines all three clips; tasks and clip annotations are inline objects
    base = w.project_doc
    dd = dict(base["data"])
    t_tmpl = {str(x["clip"]): x for x in dd.get("tasks") or []}
    c_tmpl = {str(x["clip"]): x for x in dd.get("clip_annotations") or []}
    defined = {x["uuid"] for x in dd.get("clips") or []}
    expressed = True
    new_t, new_c = [], []
    for i, c in enumerate(tasks):
        cid = str(w.clips[c].uuid)
        expressed &= cid in defined and cid in t_tmpl
        new_t.append(dict(t_tmpl.get(cid, {}), uuid=str(U("task%d" % i)), clip=cid))
    for i, c in enumerate(annotated):
        cid = str(w.clips[c].uuid)
        expressed &= cid in defined and cid in c_tmpl
        new_c.append(dict(c_tmpl.get(cid, {}), uuid=str(U("pca%d" % i)), clip=cid))
    dd["tasks"], dd["clip_annotations"] = new_t, new_c
    obs, pr = aoef_load(dict(base, data=dd))
    va, aw = aoef_readback(pr, lambda x: x if isinstance(x, data.AnnotationProject) else None, after,
                           lambda x: read(x) == (list(tasks), list(annotated)))
    P.add("aoef", obs, bool(expressed), va, aw)
    P.finish()
    out.nontrivial = bool(tasks) and bool(annotated)
    return out


# ---------------------------------------------------------------- space: clip
def loaded_clip(kind, obj):
    if kind in ("annotation_set", "annotation_project", "evaluation_set"):
        return obj.clip_annotations[0].clip
    if kind in ("prediction_set", "model_run"):
        return obj.clip_predictions[0].clip
    return obj.clip_evaluations[0].annotations.clip


def run_clip(case):
    out = Out(case)
    w = world_for(case, out)
    if w is None:
        return out
    s, e = VALUES[case["start"]], VALUES[case["end"]]
    reasons = inv.clip_reasons(s, e)
    P = Paths(out, "clip", reasons)

    def after(c):
        return inv.clip_reasons(c.start_time, c.end_time)

    def same(c):
        return repr(float(c.start_time)) == repr(float(s)) and repr(float(c.end_time)) == repr(float(e))

    obs, obj = observe(lambda: data.Clip(uuid=U("clip0"), recording=w.rec, start_time=s, end_time=e))
    P.add("ctor", obs, True, rb(after, obj))
    d = w.clips[0].model_dump()
    d["start_time"], d["end_time"] = s, e
    obs, obj = observe(lambda: data.Clip.model_validate(d))
    P.add("dict", obs, True, rb(after, obj))
    dj = w.clips[0].model_dump(mode="json")
    dj["start_time"], dj["end_time"] = s, e
    text = json.dumps(dj)
    obs, obj = observe(lambda: data.Clip.model_validate_json(text))
    P.add("json", obs, True, rb(after, obj))
    # the same two numbers in other representations the float fields accept: decimal text (also quoted in JSON), Decimal, a mix
    # of float and text, numpy float32 (where exact)
    def mk(a, b):
        return lambda: data.Clip(uuid=U("clip0"), recording=w.rec, start_time=a, end_time=b)

    ts, te_ = repr(float(s)), repr(float(e))
    for label, a, b in (("ctor:text", ts, te_), ("ctor:float+text", float(s), te_), ("ctor:text+float", ts, float(e)),
                        ("ctor:decimal", Decimal(ts), Decimal(te_))):
        obs, obj = observe(mk(a, b))
        P.add(label, obs, True, rb(after, obj))
    if float(np.float32(s)) == float(s) and float(np.float32(e)) == float(e):
        obs, obj = observe(mk(np.float32(s), np.float32(e)))
        P.add("ctor:float32", obs, True, rb(after, obj))
    dq = dict(dj, start_time=ts, end_time=te_)
    textq = json.dumps(dq)
    obs, obj = observe(lambda: data.Clip.model_validate_json(textq))
    P.add("json:quoted", obs, True, rb(after, obj))
    for kind in CLIP_CARRIERS:
        doc, found = edit_entry(w.carrier_docs[kind], "clips", str(U("clip0")), start_time=s, end_time=e)
        obs, obj = aoef_load(doc)
        va, aw = aoef_readback(obj, lambda o, kind=kind: loaded_clip(kind, o), after, same)
        P.add("aoef:" + kind, obs, found, va, aw)
    P.finish()
    out.nontrivial = case["start"] != case["end"]
    return out


# ---------------------------------------------------------------- space: score
class Box:
    """Holds a read-back score (which may legitimately be None) so that 'not found' stays distinguishable."""

    def __init__(self, v):
        self.v = v


def loaded_cp(kind, obj):
    if kind == "evaluation":
        return obj.clip_evaluations[0].predictions
    return obj.clip_predictions[0]


def run_score(case):
    out = Out(case)
    w = world_for(case, out)
    if w is None:
        return out
    cname, vn = case["cls"], case["value"]
    v = VALUES[vn]
    optional = OPTIONAL_SCORE[cname]
    reasons = inv.score_reasons(v, optional)
    P = Paths(out, "score", reasons, {"cls": cname})
    nonstd = vn in NONFINITE

    def after(x):
        return inv.score_reasons(x, optional)

    def same(x):
        return (x is None) == (v is None) and (v is None or repr(float(x)) == repr(float(v)))

    def direct(cls, valid, make):
        obs, obj = observe(make)
        P.add("ctor", obs, True, rb(lambda o: after(o.score), obj))
        d = valid.model_dump()
        d["score"] = v
        obs, obj = observe(lambda: cls.model_validate(d))
        P.add("dict", obs, True, rb(lambda o: after(o.score), obj))
        dj = valid.model_dump(mode="json")
        dj["score"] = v
        text = json.dumps(dj)
        obs, obj = observe(lambda: cls.model_validate_json(text), nonstd)
        P.add("json", obs, True, rb(lambda o: after(o.score), obj))

    def aoef(kind, listname, uuid, get, label, **changes):
        doc, found = edit_entry(w.carrier_docs[kind], listname, uuid, **changes)
        obs, obj = aoef_load(doc, nonstd)
        va, aw = aoef_readback(obj, lambda o: Box(get(o)), lambda b: after(b.v), lambda b: same(b.v))
        P.add(label, obs, found, va, aw)

    if cname == "PredictedTag":
        direct(data.PredictedTag, w.ptag, lambda: data.PredictedTag(tag=w.tag, score=v))
        # nested in every parent that holds predicted tags (dict / json of the parent, edited)
        parents = {"clip_predictions": (data.ClipPrediction, w.scp), "sound_event_predictions": (data.SoundEventPrediction, w.spred),
                   "sequence_predictions": (data.SequencePrediction, w.seqp)}
        for site, (cls, valid) in parents.items():
            d = valid.model_dump()
            d["tags"][0]["score"] = v
            obs, obj = observe(lambda: cls.model_validate(d))
            P.add("dict:in_" + site, obs, True, rb(lambda o: after(o.tags[0].score), obj))
            dj = valid.model_dump(mode="json")
            dj["tags"][0]["score"] = v
            text = json.dumps(dj)
            obs, obj = observe(lambda: cls.model_validate_json(text), nonstd)
            P.add("json:in_" + site, obs, True, rb(lambda o: after(o.tags[0].score), obj))
        getters = {
            "clip_predictions": (str(U("sCP")), lambda cp: cp.tags[0].score),
            "sound_event_predictions": (str(w.spred.uuid), lambda cp: cp.sound_events[0].tags[0].score),
            "sequence_predictions": (str(U("seqp")), lambda cp: cp.sequences[0].tags[0].score),
        }
        for kind in PRED_CARRIERS:
            for site in TAG_SITES:
                uuid, g = getters[site]
                entry = [x for x in w.carrier_docs[kind]["data"].get(site) or [] if x.get("uuid") == uuid]
                tags = entry[0].get("tags") if entry else None
                if not tags:
                    P.add("aoef:%s/%s.tags" % (kind, site), "unparseable", False)
                    continue
                aoef(kind, site, uuid, lambda o, g=g, kind=kind: g(loaded_cp(kind, o)),
                     "aoef:%s/%s.tags" % (kind, site), tags=[[tags[0][0], v]] + [list(t) for t in tags[1:]])
                # the same tag listed twice, the probed probability on the earlier entry (a later entry must not shadow it)
                aoef(kind, site, uuid, lambda o, g=g, kind=kind: g(loaded_cp(kind, o)),
                     "aoef:%s/%s.tags+repeat" % (kind, site),
                     tags=[[tags[0][0], v], [tags[0][0], 0.625]] + [list(t) for t in tags[1:]])
    elif cname == "SoundEventPrediction":
        direct(data.SoundEventPrediction, w.spred,
               lambda: data.SoundEventPrediction(uuid=U("sp"), sound_event=w.spred.sound_event, score=v))
        for kind in PRED_CARRIERS:
            aoef(kind, "sound_event_predictions", str(w.spred.uuid),
                 lambda o, kind=kind: loaded_cp(kind, o).sound_events[0].score, "aoef:" + kind, score=v)
    elif cname == "SequencePrediction":
        direct(data.SequencePrediction, w.seqp,
               lambda: data.SequencePrediction(uuid=U("seqp"), sequence=w.seqp.sequence, score=v))
        for kind in PRED_CARRIERS:
            aoef(kind, "sequence_predictions", str(U("seqp")),
                 lambda o, kind=kind: loaded_cp(kind, o).sequences[0].score, "aoef:" + kind, score=v)
    else:
        direct(data.ClipEvaluation, w.sce,
               lambda: data.ClipEvaluation(uuid=U("sce"), annotations=w.sce.annotations, predictions=w.sce.predictions,
                                           matches=list(w.sce.matches), score=v))
        aoef("evaluation", "clip_evaluations", str(U("sce")), lambda o: o.clip_evaluations[0].score, "aoef:evaluation",
             score=DROP if v is None else v)
        if v is None:  # None can also be written as an explicit null
            aoef("evaluation", "clip_evaluations", str(U("sce")), lambda o: o.clip_evaluations[0].score,
                 "aoef:evaluation/null", score=None)
    P.finish()
    out.nontrivial = vn not in BORING
    return out


# ---------------------------------------------------------------- blocks / cases
def project_lists(tier):
    c = CFG[tier]
    if c["project"] == "multisets":
        return [list(x) for x in multisets(range(3), c["project_len"])]
    return [list(x) for x in sequences(range(3), c["project_len"])]


def match_cases(tier):
    vals = CFG[tier]["values"]
    for sf in PRESENCE:
        for tf in PRESENCE:
            for an in vals:
                for sn in ["none"] + vals:
                    yield {"space": "match", "source": sf, "target": tf, "affinity": an, "score": sn}


def blocks(tier):
    c = CFG[tier]
    out = []
    for a in SUBSETS:
        for p in SUBSETS:
            for pairing in PAIRINGS:
                for part in range(c["ce_parts"]):
                    out.append({"space": "clip_evaluation", "tier": tier, "ann": a, "pred": p, "pairing": pairing,
                                "part": part, "parts": c["ce_parts"]})
    n = sum(1 for _ in match_cases(tier))
    out += [{"space": "match", "tier": tier, "range": [r[0], r[-1] + 1]} for r in chunk(range(n), 4 if tier == "quick" else 8)]
    lists = project_lists(tier)
    out += [{"space": "project", "tier": tier, "range": [r[0], r[-1] + 1]}
            for r in chunk(range(len(lists)), 4 if tier == "quick" else 8)]
    out.append({"space": "clip", "tier": tier})
    out += [{"space": "score", "tier": tier, "cls": cname} for cname in SCORE_CLASSES]
    out.append({"space": "defaults", "tier": tier})
    out.append({"space": "shared_uuid", "tier": tier})
    # environment axis: the small spaces once more in a child interpreter started with -O (assert statements compiled away)
    out += [{"space": "optimized", "tier": tier, "of": sp} for sp in ("project", "clip", "score", "match")]
    return out


ENV_O = "python -O"


def child_case(case):
    return [run_case(case)]


def optimized_cases(tier, of):
    c = CFG[tier]
    if of == "project":
        lists = project_lists(tier)
        for tasks in lists:
            for annotated in lists:
                yield {"space": "project", "tasks": tasks, "annotated": annotated}
    elif of == "clip":
        for s in c["clip_values"]:
            for e in c["clip_values"]:
                yield {"space": "clip", "start": s, "end": e}
    elif of == "score":
        for cname in SCORE_CLASSES:
            for vn in c["values"] + (["none"] if OPTIONAL_SCORE[cname] else []):
                yield {"space": "score", "cls": cname, "value": vn}
    else:
        yield from itertools.islice(match_cases(tier), 0, None, 1 if tier == "quick" else 4)


def run_block(block, rec):
    sp = block["space"]
    tier = block["tier"]
    c = CFG[tier]
    if sp == "clip_evaluation":
        for idx, seq in enumerate(sequences(KINDS, c["match_len"])):
            if idx % block["parts"] != block["part"]:
                continue
            case = {"space": sp, "ann": block["ann"], "pred": block["pred"], "pairing": block["pairing"],
                    "matches": list(seq), "aoef": len(seq) <= c["aoef_match_len"]}
            rec.add(run_case(case))
    elif sp == "match":
        lo, hi = block["range"]
        for case in itertools.islice(match_cases(tier), lo, hi):
            rec.add(run_case(case))
    elif sp == "project":
        lists = project_lists(tier)
        lo, hi = block["range"]
        for tasks in lists[lo:hi]:
            for annotated in lists:
                rec.add(run_case({"space": sp, "tasks": tasks, "annotated": annotated}))
    elif sp == "optimized":
        from mc import child
        for o in child.run_in_child("c04", ENV_O, list(optimized_cases(tier, block["of"]))):
            rec.add(o)
    elif sp == "shared_uuid":
        for v in SHARED_UUID_VARIANTS:
            rec.add(run_case({"space": sp, "variant": v}))
    elif sp == "defaults":
        for cname, fname in default_sites():
            rec.add(run_case({"space": sp, "cls": cname, "field": fname}))
    elif sp == "clip":
        for s in c["clip_values"]:
            for e in c["clip_values"]:
                rec.add(run_case({"space": sp, "start": s, "end": e}))
    else:
        vals = c["values"] + (["none"] if OPTIONAL_SCORE[block["cls"]] else [])
        for vn in vals:
            rec.add(run_case({"space": sp, "cls": block["cls"], "value": vn}))


def run_shared_uuid(case):
    """An annotation and a prediction that carry the SAME uuid (identifiers are only unique per kind of object): 'every annotated
    and every predicted sound event exactly once' is judged per side - targets against the annotated, sources against the predicted."""
    out = Out(case)
    rec = recording(duration=10.0)
    clip = data.Clip(uuid=_U("su:clip"), recording=rec, start_time=0.0, end_time=1.0)

    def se(name):
        return data.SoundEvent(uuid=_U("su:se:" + name), recording=rec, geometry=None)
    X, Y = _U("su:X"), _U("su:Y")
    a = data.SoundEventAnnotation(uuid=X, sound_event=se("a"), created_on=DT)
    p = data.SoundEventPrediction(uuid=X, sound_event=se("p"), score=0.5)          # same uuid as the annotation
    a2 = data.SoundEventAnnotation(uuid=Y, sound_event=se("a2"), created_on=DT)    # foreign annotation
    p2 = data.SoundEventPrediction(uuid=Y, sound_event=se("p2"), score=0.5)        # foreign prediction
    fa = data.SoundEventAnnotation(uuid=X, sound_event=se("fa"), created_on=DT)
    ca = data.ClipAnnotation(uuid=_U("su:CA"), clip=clip, sound_events=[a])
    cp = data.ClipPrediction(uuid=_U("su:CP"), clip=clip, sound_events=[p])
    variants = {
        "paired": ([data.Match(uuid=_U("su:m0"), source=p, target=a, affinity=0.5)], []),
        "both_unmatched": ([data.Match(uuid=_U("su:m0"), target=a, affinity=0.0), data.Match(uuid=_U("su:m1"), source=p, affinity=0.0)], []),
        "only_target": ([data.Match(uuid=_U("su:m0"), target=a, affinity=0.0)], ["missing"]),
        "only_source": ([data.Match(uuid=_U("su:m0"), source=p, affinity=0.0)], ["missing"]),
        "foreign_pair": ([data.Match(uuid=_U("su:m0"), target=a2, affinity=0.0), data.Match(uuid=_U("su:m1"), source=p2, affinity=0.0)], ["foreign"]),
        # the match holds an earlier snapshot of the annotation (same uuid, other tags): still that annotated sound event
        "paired_snapshot": ([data.Match(uuid=_U("su:m0"), source=p, target=a.model_copy(update={"tags": [data.Tag(term=term("snap"), value="v")]}), affinity=0.5)], []),
        "target_twice": ([data.Match(uuid=_U("su:m0"), source=p, target=a, affinity=0.5), data.Match(uuid=_U("su:m1"), target=a, affinity=0.0)], ["duplicate"]),
    }
    if case["variant"].startswith("listed_twice"):
        # the clip annotation lists the same annotated sound event twice: it is still one sound event, to be mentioned exactly once
        ca = data.ClipAnnotation(uuid=_U("su:CA"), clip=clip, sound_events=[a, a.model_copy()])
        variants["listed_twice_matched_once"] = ([data.Match(uuid=_U("su:m0"), source=p, target=a, affinity=0.5)], [])
        variants["listed_twice_matched_twice"] = ([data.Match(uuid=_U("su:m0"), source=p, target=a, affinity=0.5),
                                                   data.Match(uuid=_U("su:m1"), target=a, affinity=0.0)], ["duplicate"])
    if case["variant"].startswith("same_sound_event"):
        # two annotations (two annotators, two uuids) of the SAME sound event object: two annotated entries, each to be mentioned once
        a3 = data.SoundEventAnnotation(uuid=_U("su:Z"), sound_event=a.sound_event, created_on=DT)
        ca = data.ClipAnnotation(uuid=_U("su:CA"), clip=clip, sound_events=[a, a3])
        variants["same_sound_event_both_matched"] = ([data.Match(uuid=_U("su:m0"), source=p, target=a, affinity=0.5),
                                                      data.Match(uuid=_U("su:m1"), target=a3, affinity=0.0)], [])
        variants["same_sound_event_one_matched"] = ([data.Match(uuid=_U("su:m0"), source=p, target=a, affinity=0.5)], ["missing"])
    matches, reasons = variants[case["variant"]]
    P = Paths(out, "clip_evaluation", reasons, {"shared_uuid": True})
    obs, obj = observe(lambda: data.ClipEvaluation(uuid=_U("su:ce"), annotations=ca, predictions=cp, matches=matches))
    P.add("ctor", obs)
    d = {"uuid": _U("su:ce"), "annotations": ca.model_dump(), "predictions": cp.model_dump(), "matches": [m.model_dump() for m in matches]}
    obs, obj = observe(lambda: data.ClipEvaluation.model_validate(d))
    P.add("dict", obs)
    text = json.dumps({"uuid": str(_U("su:ce")), "annotations": json.loads(ca.model_dump_json()), "predictions": json.loads(cp.model_dump_json()),
                       "matches": [json.loads(m.model_dump_json()) for m in matches]})
    obs, obj = observe(lambda: data.ClipEvaluation.model_validate_json(text))
    P.add("json", obs)
    P.finish()
    out.nontrivial = True
    return out


SHARED_UUID_VARIANTS = ["paired", "paired_snapshot", "both_unmatched", "only_target", "only_source", "foreign_pair", "target_twice", "listed_twice_matched_once", "listed_twice_matched_twice",
                        "same_sound_event_both_matched", "same_sound_event_one_matched"]


def default_sites():
    """Every (model class, field) of soundevent.data whose default is a mutable container, found by reflection."""
    from pydantic import BaseModel
    out = []
    for name in sorted(dir(data)):
        klass = getattr(data, name)
        if not (isinstance(klass, type) and issubclass(klass, BaseModel) and klass.__module__.startswith("soundevent.")):
            continue
        for fname, field in klass.model_fields.items():
            if field.is_required():
                continue
            try:
                v = field.get_default(call_default_factory=True)
            except Exception:  # noqa  -- a factory that needs arguments: not a container default
                continue
            if isinstance(v, (list, dict, set)):
                out.append((name, fname))
    return out


def run_defaults(case):
    """History: instance 1 built with defaults, its container mutated in place, instance 2 built with defaults.  Instance 2 must
    not hold what was given to instance 1 (otherwise an object exists whose content was never offered to its validators), and the
    default container must keep what is put into it."""
    from types import SimpleNamespace
    out = Out(case)
    klass = getattr(data, case["cls"])
    f = case["field"]
    cls = {"space": "defaults", "cls": case["cls"], "field": f}
    sentinel = SimpleNamespace(uuid=_U("c04:default-sentinel"), key="k", term=None, value=0.0)
    makers = {"construct": lambda: klass.model_construct()}
    for via, make in makers.items():
        a = make()
        va = getattr(a, f)
        if isinstance(va, list):
            va.append(sentinel)
            va.append(sentinel)
            out.expect("default_container_keeps_items", len(va) == 2 and va[0] is sentinel and va[1] is sentinel, len(va), 2, cls)
        elif isinstance(va, dict):
            va["c04-sentinel"] = sentinel
        else:
            va.add("c04-sentinel")
        b = make()
        vb = getattr(b, f)
        out.expect("default_is_fresh", vb is not va and len(vb) == 0, "second instance starts with %d item(s)" % len(vb), "empty", cls)
        out.transitions += 2
    out.nontrivial = True
    out.klass = "defaults:%s" % ("fresh" if not out.viol else "shared")
    return out


RUNNERS = {"clip_evaluation": run_clip_evaluation, "match": run_match, "project": run_project, "clip": run_clip,
           "score": run_score, "defaults": run_defaults, "shared_uuid": run_shared_uuid}


def run_case(case):
    return RUNNERS[case["space"]](case)


def replay_case(case):
    if case.get("env"):
        from mc import child
        return child.run_in_child("c04", case["env"], [{k: v for k, v in case.items() if k != "env"}])[0]
    return run_case(case)
