"""Helpers shared by the property modules (construction of real soundevent objects)."""
from __future__ import annotations

import datetime
import uuid
from fractions import Fraction

from soundevent import data

NS = uuid.UUID(int=7)
DT = datetime.datetime(2020, 1, 2, 3, 4, 5, 678)
MAXF = data.MAX_FREQUENCY

GEOM_CLASSES = {
    "TimeStamp": data.TimeStamp, "TimeInterval": data.TimeInterval, "Point": data.Point,
    "LineString": data.LineString, "Polygon": data.Polygon, "BoundingBox": data.BoundingBox,
    "MultiPoint": data.MultiPoint, "MultiLineString": data.MultiLineString, "MultiPolygon": data.MultiPolygon,
}


def U(name):
    return uuid.uuid5(NS, str(name))


def mkgeom(gtype, coords):
    return GEOM_CLASSES[gtype](coordinates=coords)


def fr(x):
    """Exact Fraction of a float / int / Fraction."""
    return x if isinstance(x, Fraction) else Fraction(x)


def is_rejection(exc):
    """The error class the properties call 'rejected': any ValueError subclass (incl. pydantic.ValidationError)."""
    return isinstance(exc, ValueError)


def term(label):
    # the simple term of a key as the data model documents it, built here so that no library-side cache or normalisation of
    # data.term_from_key can leak into the expected values
    return data.Term(label=label, name="soundevent:%s" % label, definition="Unknown")


def recording(name="r", path="/data/r.wav", duration=10.0, samplerate=8000, channels=1, **kw):
    return data.Recording(uuid=U("rec:" + name), path=path, duration=duration, channels=channels, samplerate=samplerate, **kw)
