"""C12 — Overlap predicates agree with exact interval arithmetic.

Exhaustive over all ordered pairs of lattice intervals x all thresholds, all
ordered pairs of pooled geometries x thresholds x {time, frequency}, and all
clip/geometry placements x minimum overlaps.  Reference model: Fraction
arithmetic on raw coordinates (models.intervals / models.geometry).
"""
from __future__ import annotations

import itertools
from fractions import Fraction as F

from soundevent import data
from soundevent.geometry.operations import (
    have_frequency_overlap,
    have_temporal_overlap,
    intervals_overlap,
    is_in_clip,
)

from mc.runner import Out
from mc.space import chunk
from models import geometry as gm
from props.common import MAXF, U, is_rejection, mkgeom, recording

ID = "C12"
RULE = (
    "[representations] every interval pair is judged once more with each interval in another representation (tuple / list / ndarray float64, float32, int64 / numpy scalars), "
    "and every whole-number interval in every representation against every half-lattice interval; is_in_clip also for a clip two hours into a recording with geometry "
    "edges 2^-20 s around its edges. Thorough tier: quarter-second lattice, 9 absolute / 6 relative thresholds, 9 placements. "
    "every ordered pair of intervals over the lattice x every threshold; every ordered pair of pooled "
    "geometries (9 types x placements) x threshold x axis; every clip x geometry extent x realisation x "
    "minimum_overlap. A case is non-trivial when both verdicts (True and False) or a rejection occur among "
    "its threshold settings; distinct = distinct case descriptor."
)
ASSUMPTIONS = [
    "coordinates on a dyadic lattice, thresholds dyadic: float arithmetic in the implementation is exact and the Fraction model is the real-number answer",
    "negative absolute thresholds are outside the property and not enumerated",
]

ABS = [0.0, 0.5, 1.0, 2.0, 5.0]
REL = [0.0, 0.25, 0.5, 1.0]
ABS_T = [0.0, 0.25, 0.5, 0.75, 1.0, 1.5, 2.0, 2.75, 5.0]  # thorough tier
REL_T = [0.0, 0.125, 0.25, 0.5, 0.75, 1.0]
FABS_T = [0.0, 250.0, 500.0, 1000.0, 1500.0, 2000.0, 3000.0, 5e6]
MINOV_T = [0, 0.25, 0.5, 1, 1.5, 2, 3]
BAD_REL = [-0.125, 1.125]


def thr(case, name):
    """Threshold alphabet of a case: the thorough tier's cases carry tier='thorough' (replays then use the same alphabets)."""
    thorough = case.get("tier") == "thorough"
    return {"abs": ABS_T if thorough else ABS, "rel": REL_T if thorough else REL, "fabs": FABS_T if thorough else FABS,
            "minov": MINOV_T if thorough else MINOV}[name]


def lattice(tier):
    return [0, 1, 2, 3, 4] if tier == "quick" else [k * 0.25 for k in range(17)] + [6, 8]


def bounds(tier):
    return {
        "interval_lattice": lattice(tier), "abs_thresholds": ABS if tier == "quick" else ABS_T,
        "rel_thresholds": REL if tier == "quick" else REL_T, "invalid_rel": BAD_REL,
        "geometry_pool": len(geom_pool(tier)), "freq_abs_thresholds": FABS if tier == "quick" else FABS_T,
        "clip_bounds": CLIPS + [FAR_CLIP], "far_clip_geometry_edges": FAR_EDGES, "interval_representations": REPS, "minimum_overlap": MINOV if tier == "quick" else MINOV_T, "geometry_realisations": REALS,
    }


# ---------------------------------------------------------------- model
def model_overlap(a, b, mode, thr):
    a0, a1, b0, b1 = F(a[0]), F(a[1]), F(b[0]), F(b[1])
    signed = min(a1, b1) - max(a0, b0)
    if mode == "none":
        need = F(0)
    elif mode == "abs":
        need = F(thr)
    else:
        need = F(thr) * min(a1 - a0, b1 - b0)
    return signed >= need


def call(fn, *a, **kw):
    try:
        r = fn(*a, **kw)
        if type(r).__module__ == "numpy" and type(r).__name__ in ("bool_", "bool"):
            r = bool(r)  # a numpy boolean is as good an answer as a Python one
        return ("ok", r)
    except Exception as e:  # noqa
        return ("reject" if is_rejection(e) else "crash", type(e).__name__)


def kwargs_of(mode, thr):
    if mode == "none":
        return {}
    if mode == "abs":
        return {"min_absolute_overlap": thr}
    return {"min_relative_overlap": thr}


def check_pair(out, fn, x, y, ia, ib, abs_list, rel_list, prefix, cls):
    """Run every threshold setting of one ordered pair through fn and the model."""
    verdicts = set()
    res = {}
    n = 0
    settings = [("none", None)] + [("abs", t) for t in abs_list] + [("rel", t) for t in rel_list]
    for mode, thr in settings:
        kw = kwargs_of(mode, thr)
        r = call(fn, x, y, **kw)
        r2 = call(fn, y, x, **kw)
        n += 2
        exp = model_overlap(ia, ib, mode, thr)
        c = dict(cls, mode=mode)
        out.expect(prefix + "equals_model", r == ("ok", exp), r, ["ok", exp], c, {"thr": thr})
        out.expect(prefix + "symmetric", r == r2, [r, r2], "equal", c, {"thr": thr})
        res[(mode, thr)] = r
        verdicts.add(r)
    for mode, lst in (("abs", abs_list), ("rel", rel_list)):
        for t1, t2 in itertools.combinations(sorted(lst), 2):
            r1, r2 = res[(mode, t1)], res[(mode, t2)]
            if r1[0] == "ok" and r2[0] == "ok":
                out.expect(prefix + "monotone_in_threshold", (not r2[1]) or r1[1], [t1, r1, t2, r2],
                           "true at larger threshold implies true at smaller", dict(cls, mode=mode))
    # default threshold is the zero threshold
    out.expect(prefix + "default_is_zero", res[("none", None)] == res[("abs", abs_list[0])] if abs_list[0] == 0 else True,
               [res[("none", None)], res[("abs", abs_list[0])]], "equal", cls)
    for t in BAD_REL:
        r = call(fn, x, y, min_relative_overlap=t)
        n += 1
        out.expect(prefix + "rejects_bad_relative", r[0] == "reject", r, "ValueError", dict(cls, rel=t))
        verdicts.add(r[0])
    for ta, tr in ((0.0, 0.0), (1.0, 0.5)):
        r = call(fn, x, y, min_absolute_overlap=ta, min_relative_overlap=tr)
        n += 1
        out.expect(prefix + "rejects_both", r[0] == "reject", r, "ValueError", cls)
    out.transitions = n
    out.validated = n
    vs = {v for v in verdicts if isinstance(v, tuple)}
    out.nontrivial = len({v[1] for v in vs if v[0] == "ok"}) == 2
    out.klass = prefix + "".join(sorted("T" if v[1] is True else "F" for v in vs if v[0] == "ok"))


# ---------------------------------------------------------------- geometry pool
FABS = [0.0, 500.0, 1000.0, 2000.0, 5e6]
PLACEMENTS = [  # (t0, t1, f0, f1)
    (0, 2, 0, 2000),
    (1, 3, 1000, 3000),
    (2, 4, 2000, MAXF),
    (3, 4, 250, 500),
    # placement 0 moved inwards by 2^-22 (2.4e-7) on every edge: equal to placement 0 at six decimals, but touching / nested
    # relations with the other placements flip; still dyadic, so the Fraction model is exact
    (2.0 ** -22, 2 - 2.0 ** -22, 2.0 ** -22, 2000 - 2.0 ** -22),
]


def realise(gtype, t0, t1, f0, f1):
    """A geometry of the given type whose extent is (t0..t1, f0..f1) as far as the type allows."""
    if gtype == "TimeStamp":
        return t0
    if gtype == "TimeInterval":
        return [t0, t1]
    if gtype == "Point":
        return [t0, f0]
    if gtype == "BoundingBox":
        return [t0, f0, t1, f1]
    if gtype == "LineString":
        if t0 < t1 and int(t0) % 2 == 1:
            return [[(t0 + t1) / 2, f1], [t0, f0], [t1, (f0 + f1) / 2]]  # starts in the middle, doubles back to its earliest vertex
        return [[t0, f1], [(t0 + t1) / 2, f0], [t1, (f0 + f1) / 2]]
    if gtype == "Polygon":
        if t0 < t1 and f0 < f1 and int(t0) % 2 == 1:
            return [[[t0, f0], [t1, f1], [t1, f0], [t0, f1]]]  # a self-crossing outline (bow tie): its extent is that of its vertices
        return [[[t0, f0], [t1, f0], [(t0 + t1) / 2, f1]]]
    if gtype == "MultiPoint":
        return [[t1, f0], [t0, f1]]
    if gtype == "MultiLineString":
        return [[[t0, f0], [(t0 + t1) / 2, f1]], [[(t0 + t1) / 2, f1], [t1, f0]]]
    if gtype == "MultiPolygon":
        tm = (t0 + t1) / 2
        return [[[[t0, f0], [tm, f0], [t0, f1]]], [[[tm, f1], [t1, f1], [t1, f0]]]]
    raise ValueError(gtype)


PLACEMENTS_T = [  # thorough tier: more relations (nested, touching at one edge, equal extents on one axis only, far apart)
    (0.5, 1.5, 500, 1500),
    (2, 3, 0, 2000),
    (0, 4, 2000, 2500),
    (4, 6, 3000, MAXF),
]


def geom_pool(tier="quick"):
    pool = []
    for gtype in gm.TYPES:
        for i, pl in enumerate(PLACEMENTS + (PLACEMENTS_T if tier != "quick" else [])):
            c = realise(gtype, *pl)
            pool.append({"type": gtype, "coordinates": c, "place": i})
    return pool


# ---------------------------------------------------------------- in_clip
CLIPS = [(0, 0), (0, 2), (0, 4), (2, 2), (2, 4), (4, 4), (1, 3), (-1, 1)]  # the last one starts before its recording does
# a clip two hours into a recording, with geometry edges 2^-20 s (1 us) around its edges: a tolerance that scales with the
# magnitude of the times (1e-9 x 7200 s = 7 us) shows here and nowhere near the origin; all values are exact doubles
FAR_CLIP = (7200, 7210)
_E = 2.0 ** -20
FAR_EDGES = [7200 - _E, 7200, 7200 + _E, 7200.5, 7200.5 + _E, 7205, 7209.5 - _E, 7209.5, 7210 - _E, 7210, 7210 + _E]

# representations of an interval handed to intervals_overlap (same two numbers each time)
REPS = ["tuple_float", "list_float", "ndarray_float64", "ndarray_int64", "tuple_int", "ndarray_float32", "numpy_scalars"]


# intervals whose gap, overlap or distance from the threshold is 2^-30 (1e-9) or a 2^-8 part of a 1024-long interval: far below any
# 'close enough' tolerance, still exact doubles ('at least the threshold' is an exact comparison)
_N = 2.0 ** -30
NEAR_PAIRS = [((1, 2), (2 + _N, 3)), ((1, 2), (2 - _N, 3)), ((1, 2), (2, 3)), ((1, 2 + _N), (2, 3)),
              ((0, 20000), (0.125, 30000)), ((0, 20000), (0, 30000)), ((0, 1024), (2.0 ** -8, 2000)), ((0, 1024), (0, 2000)),
              ((5, 5), (5 + _N, 6)), ((5, 5), (5, 6))]
NEAR_ABS = [0.0, _N / 2, _N, 2 * _N, 1024.0, 20000.0]
REP_A = [0, 1, 2, 3, 4]
REP_B = [0, 0.5, 1, 1.5, 2, 2.5, 3, 3.5, 4]


def represent(iv, rep):
    """The interval in the given representation, or None when the representation cannot hold its two values exactly."""
    import numpy as np
    a, b = float(iv[0]), float(iv[1])
    integral = a == int(a) and b == int(b)
    if rep == "tuple_float":
        return (a, b)
    if rep == "list_float":
        return [a, b]
    if rep == "ndarray_float64":
        return np.array([a, b], dtype=np.float64)
    if rep == "numpy_scalars":
        return (np.float64(a), np.float64(b))
    if rep == "ndarray_int64":
        return np.array([int(a), int(b)], dtype=np.int64) if integral else None
    if rep == "tuple_int":
        return (int(a), int(b)) if integral else None
    if rep == "ndarray_float32":
        return np.array([a, b], dtype=np.float32) if (float(np.float32(a)) == a and float(np.float32(b)) == b) else None
    raise ValueError(rep)
MINOV = [0, 0.5, 1, 3]
REALS = ["TimeStamp", "Point", "MultiPoint", "TimeInterval", "BoundingBox", "LineString", "Polygon", "MultiLineString",
         # a multi-point whose two points lie at the two ends of the extent (nothing in between), a line whose earliest vertex is an
         # interior one, a multi-polygon of two far-apart parts: the extent is that of the whole geometry
         "MultiPoint:ends", "LineString:back", "MultiPolygon:ends", "Polygon:bowtie"]


def realise_extent(kind, a, b):
    if kind == "MultiPoint:ends":
        return [[a, 1000], [b, 3000]] if a < b else None
    if kind == "LineString:back":
        return [[(a + b) / 2, 500], [a, 1000], [b, 1500]] if a < b else None
    if kind == "Polygon:bowtie":
        return [[[a, 500], [b, 1500], [b, 500], [a, 1500]]] if a < b else None
    if kind == "MultiPolygon:ends":
        w = (b - a) / 8
        return [[[[a, 500], [a + w, 500], [a, 1500]]], [[[b - w, 500], [b, 500], [b, 1500]]]] if a < b else None
    if kind in ("TimeStamp", "Point", "MultiPoint") and a != b:
        return None
    if kind == "MultiLineString" and not a < b:
        return None
    if kind == "TimeStamp":
        return a
    if kind == "Point":
        return [a, 1000]
    if kind == "MultiPoint":
        return [[a, 1000], [a, 3000]]
    if kind == "TimeInterval":
        return [a, b]
    if kind == "BoundingBox":
        return [a, 500, b, 1500]
    if kind == "LineString":
        return [[a, 500], [b, 1500]]
    if kind == "Polygon":
        return [[[a, 500], [b, 500], [(a + b) / 2, 1500]]]
    if kind == "MultiLineString":
        return [[[a, 500], [b, 1500]], [[a, 100], [(a + b) / 2, 200]]]


# ---------------------------------------------------------------- blocks / cases
def blocks(tier):
    lat = lattice(tier)
    ivs = [(a, b) for i, a in enumerate(lat) for b in lat[i:]]
    pairs = list(itertools.product(range(len(ivs)), repeat=2))
    out = [{"space": "intervals", "tier": tier, "pairs": c} for c in chunk(pairs, 16 if tier == "quick" else 64)]
    out.append({"space": "near", "tier": tier})
    # representations: whole-number intervals in every representation against intervals on the half lattice as float tuples / arrays
    ra = [(a, b) for i, a in enumerate(REP_A) for b in REP_A[i:]]
    out += [{"space": "reps", "a": list(iv), "tier": tier} for iv in ra]
    n = len(geom_pool(tier))
    gp = list(itertools.product(range(n), repeat=2))
    out += [{"space": "geoms", "pairs": c, "tier": tier} for c in chunk(gp, 32 if tier == "quick" else 96)]
    lat2 = [0, 1, 2, 3, 4] if tier == "quick" else [k * 0.25 for k in range(21)]
    ivs2 = [(a, b) for i, a in enumerate(lat2) for b in lat2[i:]]
    cc = [(ci, iv) for ci in range(len(CLIPS)) for iv in ivs2]
    cc += [(-1, (a, b)) for i, a in enumerate(FAR_EDGES) for b in FAR_EDGES[i:]]
    out += [{"space": "in_clip", "items": c, "tier": tier} for c in chunk(cc, 16 if tier == "quick" else 64)]
    return out


def run_block(block, rec):
    sp = block["space"]
    tag = {"tier": "thorough"} if block.get("tier") == "thorough" else {}
    if sp == "intervals":
        lat = lattice(block["tier"])
        ivs = [(a, b) for i, a in enumerate(lat) for b in lat[i:]]
        for i, j in block["pairs"]:
            rec.add(run_case(dict({"space": "intervals", "a": list(ivs[i]), "b": list(ivs[j])}, **tag)))
            # the same pair once more in another representation of each interval (all 49 combinations occur over the pairs)
            k = i * len(ivs) + j
            ra, rb = REPS[k % len(REPS)], REPS[(k // len(REPS)) % len(REPS)]
            if (ra, rb) != ("tuple_float", "tuple_float"):
                rec.add(run_case(dict({"space": "intervals", "a": list(ivs[i]), "b": list(ivs[j]), "rep": [ra, rb]}, **tag)))
    elif sp == "near":
        for a, b in NEAR_PAIRS:
            rec.add(run_case({"space": "intervals", "a": list(a), "b": list(b), "near": 1}))
    elif sp == "reps":
        for j, b0 in enumerate(REP_B):
            for b1 in REP_B[j:]:
                for ra in REPS:
                    for rb in ("tuple_float", "ndarray_float64", "ndarray_float32"):
                        rec.add(run_case(dict({"space": "intervals", "a": block["a"], "b": [b0, b1], "rep": [ra, rb]}, **tag)))
    elif sp == "geoms":
        pool = geom_pool(block.get("tier", "quick"))
        for i, j in block["pairs"]:
            for axis in ("time", "freq"):
                rec.add(run_case(dict({"space": "geoms", "axis": axis, "g": pool[i], "h": pool[j]}, **tag)))
    else:
        for ci, iv in block["items"]:
            for kind in REALS:
                c = realise_extent(kind, iv[0], iv[1])
                if c is None:
                    continue
                rec.add(run_case(dict({"space": "in_clip", "clip": list(FAR_CLIP if ci == -1 else CLIPS[ci]), "kind": kind, "coords": c}, **tag)))


def run_case(case):
    out = Out(case)
    sp = case["space"]
    if sp == "intervals":
        a, b = tuple(float(x) for x in case["a"]), tuple(float(x) for x in case["b"])
        xa, xb = a, b
        cls = {"fn": "intervals_overlap"}
        if case.get("rep"):
            xa, xb = represent(a, case["rep"][0]), represent(b, case["rep"][1])
            if xa is None or xb is None:
                out.vac("equals_model")
                out.klass = "representation_not_applicable"
                return out
            cls = {"fn": "intervals_overlap", "rep": "+".join(sorted(set(case["rep"])))}
        if case.get("near"):
            check_pair(out, intervals_overlap, xa, xb, a, b, NEAR_ABS, REL_T, "", dict(cls, near=True))
        else:
            check_pair(out, intervals_overlap, xa, xb, a, b, thr(case, "abs"), thr(case, "rel"), "", cls)
    elif sp == "geoms":
        g, h = case["g"], case["h"]
        G, H = mkgeom(g["type"], g["coordinates"]), mkgeom(h["type"], h["coordinates"])
        if g == h:
            H = G  # a geometry compared with itself is the very same object
        eg, eh = gm.extent(g["type"], g["coordinates"]), gm.extent(h["type"], h["coordinates"])
        if case["axis"] == "time":
            check_pair(out, have_temporal_overlap, G, H, (eg[0], eg[2]), (eh[0], eh[2]), thr(case, "abs"), thr(case, "rel"), "geometry_",
                       {"fn": "have_temporal_overlap"})
        else:
            check_pair(out, have_frequency_overlap, G, H, (eg[1], eg[3]), (eh[1], eh[3]), thr(case, "fabs"), thr(case, "rel"), "geometry_",
                       {"fn": "have_frequency_overlap"})
    else:
        cs, ce = case["clip"]
        rec_ = recording(duration=10.0)
        try:
            clip = data.Clip(uuid=U("clip"), recording=rec_, start_time=cs, end_time=ce)
        except ValueError:  # which clips exist is C04's subject
            out.vac("in_clip_model")
            out.klass = "clip_rejected"
            return out
        gkind = case["kind"].split(":")[0]
        G = mkgeom(gkind, case["coords"])
        t0, _, t1, _ = gm.extent(gkind, case["coords"])
        seen = set()
        n = 0
        prev = None
        for m in thr(case, "minov"):
            r = call(is_in_clip, G, clip, minimum_overlap=m)
            n += 1
            exp = (F(t1) > F(cs) + F(m)) and (F(t0) < F(ce) - F(m))
            out.expect("in_clip_model", r == ("ok", exp), r, ["ok", exp], {"fn": "is_in_clip"}, {"m": m})
            seen.add(r)
            if prev is not None and prev[0] == "ok" and r[0] == "ok":
                out.expect("in_clip_monotone", (not r[1]) or prev[1], [prev, r], "monotone", {"fn": "is_in_clip"})
            prev = r
        r0 = call(is_in_clip, G, clip)
        out.expect("in_clip_default_zero", r0 == call(is_in_clip, G, clip, minimum_overlap=0), r0, "same as 0", {"fn": "is_in_clip"})
        for m in (-0.5, -2.0 ** -20):
            r = call(is_in_clip, G, clip, minimum_overlap=m)
            n += 1
            out.expect("negative_minimum_rejected", r[0] == "reject", r, "ValueError", {"fn": "is_in_clip"})
        out.transitions = n + 2
        out.validated = n
        out.nontrivial = len({s[1] for s in seen if s[0] == "ok"}) == 2
        out.klass = "in_clip_" + "".join(sorted("T" if s[1] is True else "F" for s in seen if s[0] == "ok"))
    return out


def replay_case(case):
    return run_case(case)
