"""C17 — Cropping and extending keep data on its coordinates and hit the requested size.

Explicit-state BFS over sequences of real crop_dim / extend_dim /
adjust_dim_width / crop_dim_width / extend_dim_width calls.  A state is a
DataArray whose axis is a run of lattice points first + i*step, i in [lo, hi];
the model state is (lo, hi, value per lattice index) in integer arithmetic.
After every transition the result is compared with the model: exact size,
coordinates on the lattice, every surviving original sample still at its
lattice index, the right fill value everywhere else, and rejection of
out-of-contract requests.
"""
from __future__ import annotations

import itertools
from fractions import Fraction as F

import numpy as np
import xarray as xr

from soundevent.arrays.operations import adjust_dim_width, crop_dim, extend_dim
from soundevent.arrays.operations import crop_dim_width, extend_dim_width
from soundevent.arrays import get_coord_index

from mc import bfs as B
from mc.runner import Out

ID = "C17"
RULE = (
    "[decreasing] one block: adjust_dim_width on axes that count down (lengths 1, 4, 5; steps -1, -0.5; step attribute or estimated; every width 1..len+3 x {start, center, end}): size, lattice, data on coordinates, fill elsewhere, placement. "
    "BFS to depth d (2 quick; thorough: 3 from 1-D axes of length <= 3, 2 otherwise) from every initial axis (first x step x length x step-attribute/estimated x array layout, "
    "plus the frequency axis of a real compute_spectrogram result with a fractional-sample window, attributes as the library wrote them; plus integer-typed data "
    "with a fractional fill value; plus an 8200-sample axis with a fixed depth-1 menu of crops / extensions / width changes at its ends and in its middle); "
    "transitions: crop_dim with both bounds on existing coordinates or midway between neighbours (all pairs, all four closedness settings), "
    "extend_dim with bounds 0..2 steps beyond each end on lattice points or half a step further (closedness per the soundness rule), "
    "adjust_dim_width / crop_dim_width / extend_dim_width for every width 0..len+3 x {start, center, end}. One evaluation per transition; "
    "state key = (initial axis, step attribute present, lo, hi, values). Non-trivial = the transition changes the set of lattice points."
)
ASSUMPTIONS = [
    "crop bounds are taken from the array's own coordinate values (or the midpoint of two neighbours), so 'coordinate lies in the interval' is decided on identical floats on every lattice",
    "extend bounds beyond the axis are computed as end -/+ k*step in floats: on inexact lattices (first or step not dyadic) an OPEN bound is only placed half a step off the lattice, "
    "because whether a regenerated lattice point is < a numerically identical bound is decided by the last bit and the property does not define membership at that resolution; closed bounds are requested on lattice points on every lattice",
    "the requested extend interval contains the current axis (the property's precondition); the step must be known from the attribute or estimable (length >= 2)",
    "'centre' placement means the numbers of samples removed/added on the two sides differ by at most one",
    "coordinates are compared with the lattice with tolerance 1e-9*step; data values and fills exactly",
]

FIRSTS = {"0": 0.0, "half": 0.5, "10/3": 10.0 / 3.0, "36000": 36000.0}
STEPS = {"1": 1.0, "half": 0.5, "0.01": 0.01, "1/3": 1.0 / 3.0, "quarter": 0.25, "spec": 2000.0}
# the 'spec' axis is the frequency axis of a real compute_spectrogram result (8000 Hz source, window of 4.5 samples -> 4 samples ->
# bins 0, 2000, 4000 Hz); its step attribute is whatever the library wrote, the model lattice is the bins' own
SPEC_RATE, SPEC_WINDOW, SPEC_HOP = 8000, 4.5 / 8000, 2.0 / 8000
DYADIC = {("0", "1"), ("0", "half"), ("half", "1"), ("half", "half"), ("36000", "quarter"), ("0", "quarter")}
FILLS = [-7.0, -9.0, -11.0, -13.0]


def inits(tier):
    if tier == "quick":
        firsts, steps, lens, layouts = ["0", "10/3"], ["1", "0.01", "1/3"], [1, 3, 4], ["1d", "2d_last"]
    else:
        firsts, steps, lens, layouts = ["0", "half", "10/3"], ["1", "half", "0.01", "1/3"], [1, 2, 3, 4, 5], ["1d", "2d_first", "2d_last"]
    out = []
    # an axis far from the origin (ten hours into a recording, 0.25 s step): coordinates are 1e5 steps large, so any
    # tolerance that scales with the magnitude of the bound instead of with the step shows up here
    for n in ([4] if tier == "quick" else [2, 4, 5]):
        for attr in ([True] if tier == "quick" else [True, False]):
            out.append({"first": "36000", "step": "quarter", "n": n, "attr": attr, "layout": "1d"})
    # an integer-typed axis 0..n-1 (step 1): fractional bounds must not be truncated to the axis dtype
    for n in ([4] if tier == "quick" else [2, 4, 5]):
        for attr in ([True] if tier == "quick" else [True, False]):
            out.append({"first": "0", "step": "1", "n": n, "attr": attr, "layout": "1d", "dtype": "int"})
    out.append({"first": "0", "step": "spec", "n": 3, "attr": True, "layout": "1d", "source": "spectrogram"})
    # integer-typed DATA (counts): the fill value of an extension (x.5 here) must arrive unchanged
    out.append({"first": "0", "step": "1", "n": 3, "attr": True, "layout": "1d", "data": "int"})
    out.append({"first": "10/3", "step": "0.01", "n": 3, "attr": True, "layout": "2d_last", "data": "int"})
    # data with a missing (NaN) sample: filling new samples must not touch it
    out.append({"first": "0", "step": "1", "n": 3, "attr": True, "layout": "1d", "nan": True})
    out.append({"first": "half", "step": "half", "n": 3, "attr": True, "layout": "2d_last", "nan": True})
    # a long axis with a fixed menu of transitions (depth 1)
    out.append({"first": "0", "step": "quarter", "n": LONG_N, "attr": True, "layout": "1d", "long": True})
    out.append({"first": "36000", "step": "quarter", "n": LONG_N, "attr": False, "layout": "1d", "long": True})
    for f, s, n, attr, lay in itertools.product(firsts, steps, lens, [True, False], layouts):
        if not attr and n < 2:
            continue
        if tier == "quick" and lay == "2d_last" and not (n == 3 and attr):
            continue
        out.append({"first": f, "step": s, "n": n, "attr": attr, "layout": lay})
    return out


def bounds(tier):
    return {"firsts": (["0", "half", "10/3"] if tier != "quick" else ["0", "10/3"]) + ["36000 (with step 0.25 only)"],
            "steps": ["1", "half", "0.01", "1/3"] if tier != "quick" else ["1", "0.01", "1/3"],
            "lengths": [1, 2, 3, 4, 5] if tier != "quick" else [1, 3, 4],
            "depth": 2 if tier == "quick" else "3 from 1-D axes of length <= 3, 2 from longer axes and 2-D layouts",
            "extend_reach_steps": 2, "widths": "0..len+3", "positions": ["start", "center", "end"], "initial_states": len(inits(tier))}


def depth_for(tier, init):
    if tier == "quick":
        return 2
    # depth 3 from the short axes (1-D), depth 2 from the long ones and from the 2-D layouts (cost grows ~350x per level)
    return 3 if (init["n"] <= 3 and init["layout"] == "1d") else 2


def blocks(tier):
    return [{"init": i, "depth": depth_for(tier, i)} for i in inits(tier)] + [{"decreasing": 1, "tier": tier}]


# ---------------------------------------------------------------- state
class St:
    __slots__ = ("init", "arr", "lo", "hi", "vals", "depth")

    def __init__(self, init, arr, lo, hi, vals, depth):
        self.init, self.arr, self.lo, self.hi, self.vals, self.depth = init, arr, lo, hi, vals, depth


def make_initial(init):
    first, step, n = FIRSTS[init["first"]], STEPS[init["step"]], init["n"]
    coords = first + np.arange(n) * step
    if init.get("dtype") == "int":
        coords = np.arange(n, dtype=np.int64) + int(first)  # an integer-typed axis (sample or frame numbers)
    var = xr.Variable("x", coords, attrs={"step": step} if init["attr"] else {})
    if init.get("source") == "spectrogram":
        var = spectrogram_axis()
        assert list(var.data) == list(coords), (list(var.data), list(coords))
    base = np.arange(n) + 1.0
    if init.get("data") == "int":
        base = np.arange(n, dtype=np.int64) + 1
    lay = init["layout"]
    if lay == "1d":
        arr = xr.DataArray(base.copy(), dims=["x"], coords={"x": var})
    elif lay == "2d_first":
        arr = xr.DataArray(np.stack([base, base * 100], axis=1), dims=["x", "ch"], coords={"x": var, "ch": [0, 1]})
    else:
        arr = xr.DataArray(np.stack([base, base * 100], axis=0), dims=["ch", "x"], coords={"x": var, "ch": [0, 1]})
    vals = {k: float(k + 1) for k in range(n)}
    if init.get("nan"):
        # one sample is missing (NaN) in the data: it must still be NaN, and only it, after every operation
        arr = arr.copy()
        arr.data[(1,) if lay == "1d" else ((1, slice(None)) if lay == "2d_first" else (slice(None), 1))] = np.nan
        vals[1] = float("nan")
    return St(init, arr, 0, n - 1, vals, 0)


def spectrogram_axis():
    """Frequency coordinate (with the attributes the library gave it) of a spectrogram whose window is a fractional number of samples."""
    from soundevent import audio
    from soundevent.arrays import create_time_dim_from_array
    t = np.arange(16) / SPEC_RATE
    wav = xr.DataArray(np.sin(np.arange(16.0))[:, None], dims=["time", "channel"],
                       coords={"time": create_time_dim_from_array(t, samplerate=SPEC_RATE), "channel": [0]})
    spec = audio.compute_spectrogram(wav, window_size=SPEC_WINDOW, hop_size=SPEC_HOP)
    f = spec.coords["frequency"]
    return xr.Variable("x", np.asarray(f.data, dtype=float), attrs=dict(f.attrs))


def has_attr(arr):
    return "step" in arr.coords["x"].attrs


def canon(st):
    return (has_attr(st.arr), st.lo, st.hi, tuple(st.vals.get(k) for k in range(st.lo, st.hi + 1)))


def is_dyadic(init):
    return (init["first"], init["step"]) in DYADIC


# ---------------------------------------------------------------- operations enabled in a state
LONG_N = 8200  # longer than any plausible 'small axis' threshold (4096, 8192) at which an implementation might switch algorithm


def long_ops(st):
    """A fixed menu of transitions for the long axis (the full menu grows with the square of the length)."""
    lo, hi, n = st.lo, st.hi, st.hi - st.lo + 1
    out = []
    pts = [F(lo), F(lo + 100), F(lo + 100) + F(1, 2), F(lo + 200), F(hi) - F(1, 2), F(hi)]
    for a, b in itertools.combinations_with_replacement(pts, 2):
        for lc, rc in itertools.product([True, False], repeat=2):
            out.append({"op": "crop", "a": str(a), "b": str(b), "lc": lc, "rc": rc})
    for a, b in itertools.product([F(lo), F(lo) - F(3, 2), F(lo) - 2], [F(hi), F(hi) + F(1, 2), F(hi) + 2]):
        for lc, rc in itertools.product([True, False], repeat=2):
            if (not lc and a == lo) or (not rc and b == hi):
                continue  # the requested interval must still contain the axis
            out.append({"op": "extend", "a": str(a), "b": str(b), "lc": lc, "rc": rc})
    for w in (1, n - 1, n, n + 1, n + 3):
        for pos in ("start", "center", "end"):
            out.append({"op": "adjust_width", "w": w, "pos": pos})
            if w < n:
                out.append({"op": "crop_width", "w": w, "pos": pos})
            if w > n:
                out.append({"op": "extend_width", "w": w, "pos": pos})
    return out


def ops(st):
    n = st.hi - st.lo + 1
    out = []
    if n <= 0:
        return out
    if st.init.get("long"):
        return long_ops(st) if st.depth == 0 else []
    # crop_dim: positions in index space, j or j + 1/2
    pts = [F(k) for k in range(st.lo, st.hi + 1)] + [F(k) + F(1, 2) for k in range(st.lo, st.hi)]
    pts.sort()
    for a, b in itertools.combinations_with_replacement(pts, 2):
        for lc, rc in itertools.product([True, False], repeat=2):
            out.append({"op": "crop", "a": str(a), "b": str(b), "lc": lc, "rc": rc})
    # out-of-contract crops
    out.append({"op": "crop", "a": str(F(st.lo) - 1), "b": str(F(st.hi)), "lc": True, "rc": True, "bad": "outside"})
    out.append({"op": "crop", "a": str(F(st.lo)), "b": str(F(st.hi) + 1), "lc": True, "rc": True, "bad": "outside"})
    if n >= 2:
        out.append({"op": "crop", "a": str(F(st.hi)), "b": str(F(st.lo)), "lc": True, "rc": True, "bad": "reversed"})
    can_step = has_attr(st.arr) or n >= 2
    if can_step:
        dy = is_dyadic(st.init)
        lows = [(F(st.lo) - k - h) for k in range(0, 3) for h in (F(0), F(1, 2))]
        highs = [(F(st.hi) + k + h) for k in range(0, 3) for h in (F(0), F(1, 2))]
        for a, b in itertools.product(lows, highs):
            for lc, rc in itertools.product([True, False], repeat=2):
                if a.denominator == 1 and not lc and (not dy or a == st.lo):
                    continue  # open bound on a lattice point: only dyadic lattices, and it must still contain the axis
                if b.denominator == 1 and not rc and (not dy or b == st.hi):
                    continue
                out.append({"op": "extend", "a": str(a), "b": str(b), "lc": lc, "rc": rc})
    for w in range(0, n + 4):
        for pos in ("start", "center", "end"):
            if w <= n or can_step:
                out.append({"op": "adjust_width", "w": w, "pos": pos})
            if w >= 1:
                out.append({"op": "crop_width", "w": w, "pos": pos})  # w >= n is out of contract
                if can_step:
                    out.append({"op": "extend_width", "w": w, "pos": pos})  # w <= n is out of contract
    return out


def position_value(st, p):
    """Float coordinate of index-space position p (Fraction) relative to the array's own coordinates."""
    c = st.arr.coords["x"].data
    step = STEPS[st.init["step"]]
    if p.denominator == 1 and st.lo <= p <= st.hi:
        return float(c[int(p) - st.lo])
    if st.lo <= p <= st.hi:
        i = int(p - F(1, 2)) - st.lo
        return float((c[i] + c[i + 1]) / 2)
    if p < st.lo:
        return float(c[0] - float(st.lo - p) * step)
    return float(c[-1] + float(p - st.hi) * step)


def call(fn, *a, **kw):
    try:
        return ("ok", fn(*a, **kw))
    except Exception as e:  # noqa
        return ("reject" if isinstance(e, ValueError) else "crash", "%s: %s" % (type(e).__name__, str(e)[:160]))


def inside(k, a, b, lc, rc):
    return (k > a or (k == a and lc)) and (k < b or (k == b and rc))


def lattice_indices(st, arr):
    """Map result coordinates to lattice indices; returns (indices, worst deviation in steps)."""
    first, step = FIRSTS[st.init["first"]], STEPS[st.init["step"]]
    c = np.asarray(arr.coords["x"].data, dtype=float)
    ks, worst = [], 0.0
    for v in c:
        k = int(round((v - first) / step))
        worst = max(worst, abs(v - (first + k * step)) / step)
        ks.append(k)
    return ks, worst


def values_of(arr, init):
    """Per coordinate the tuple of data values along x (one per channel), channel 1 scaled back."""
    lay = init["layout"]
    d = np.asarray(arr.transpose("x", ...).data) if lay != "1d" else np.asarray(arr.data)
    if lay == "1d":
        return [(float(v),) for v in d]
    return [(float(r[0]), float(r[1])) for r in d]


def same_values(a, b):
    """Tuple equality in which NaN equals NaN (a missing sample must stay a missing sample)."""
    return len(a) == len(b) and all((x == y) or (x != x and y != y) for x, y in zip(a, b))


def expected_tuple(v, init, is_fill):
    if init["layout"] == "1d":
        return (v,)
    return (v, v if is_fill else v * 100)


# ---------------------------------------------------------------- one transition with all oracles
def step_fn(st, op, out):
    """Apply op to st; record oracles on out; return the next state or None."""
    n = st.hi - st.lo + 1
    arr = st.arr
    fill = FILLS[min(st.depth, len(FILLS) - 1)] - (0.5 if st.init.get("data") == "int" else 0.0)
    cls = {"fn": op["op"]}
    kind = op["op"]
    exp_idx = None  # list of expected lattice indices, or None for a width op (checked structurally)
    expect_reject = False
    if kind == "crop":
        a, b = F(op["a"]), F(op["b"])
        if op.get("bad"):
            expect_reject = True
            cls["contract"] = op["bad"]
        else:
            exp_idx = [k for k in range(st.lo, st.hi + 1) if inside(k, a, b, op["lc"], op["rc"])]
        res = call(crop_dim, arr, "x", position_value(st, a), position_value(st, b), right_closed=op["rc"], left_closed=op["lc"])
        cls["closed"] = "%s%s" % ("[" if op["lc"] else "(", "]" if op["rc"] else ")")
    elif kind == "extend":
        a, b = F(op["a"]), F(op["b"])
        lo2 = min(k for k in range(int(a) - 2, st.lo + 1) if inside(k, a, b, op["lc"], op["rc"]))
        hi2 = max(k for k in range(st.hi, int(b) + 3) if inside(k, a, b, op["lc"], op["rc"]))
        exp_idx = list(range(lo2, hi2 + 1))
        res = call(extend_dim, arr, "x", position_value(st, a), position_value(st, b), fill_value=fill, left_closed=op["lc"], right_closed=op["rc"])
        cls["closed"] = "%s%s" % ("[" if op["lc"] else "(", "]" if op["rc"] else ")")
        cls["on_lattice"] = "%s%s" % ("L" if a.denominator == 1 else "h", "L" if b.denominator == 1 else "h")
    else:
        w, pos = op["w"], op["pos"]
        cls["pos"] = pos
        if kind == "adjust_width":
            expect_reject = w < 1
            res = call(adjust_dim_width, arr, "x", w, fill_value=fill, position=pos)
        elif kind == "crop_width":
            expect_reject = w >= n
            res = call(crop_dim_width, arr, "x", w, position=pos)
        else:
            expect_reject = w <= n
            res = call(extend_dim_width, arr, "x", w, fill_value=fill, position=pos)
        cls["dir"] = "same" if w == n else ("crop" if w < n else "extend")
        if expect_reject:
            cls["contract"] = "width"
    out.transitions = 1
    if expect_reject:
        out.expect("rejects_out_of_contract", res[0] == "reject", list(res) if res[0] != "ok" else "accepted", "ValueError", cls)
        out.klass = "%s:rejected" % kind
        return None
    if res[0] != "ok":
        out.fail("no_crash", list(res), "a DataArray", dict(cls, outcome=res[0]))
        out.klass = "%s:%s" % (kind, res[0])
        return None
    r = res[1]
    ks, worst = lattice_indices(st, r) if r.sizes["x"] else ([], 0.0)
    out.expect("coords_on_lattice", worst <= 1e-9, worst, "<= 1e-9 step", cls)
    contiguous = all(ks[i + 1] == ks[i] + 1 for i in range(len(ks) - 1))
    if exp_idx is not None:
        ok = ks == exp_idx
        det = {"got": ks[:12], "expected": exp_idx[:12]}
        if not ok and len(ks) == len(exp_idx) + 1:
            cls = dict(cls, kind="one_extra")
        elif not ok and len(ks) + 1 == len(exp_idx):
            cls = dict(cls, kind="one_missing")
        out.expect("size" if len(ks) != len(exp_idx) else "members", ok, det, "exactly the lattice points in the requested interval", cls)
        if not ok:
            out.klass = "%s:wrong_members" % kind
            return None
    else:
        w, pos = op["w"], op["pos"]
        out.expect("size", len(ks) == w and contiguous, {"got": len(ks), "indices": ks[:12]}, w, cls)
        if len(ks) != w or not contiguous or not ks:
            out.klass = "%s:wrong_size" % kind
            return None
        lo2, hi2 = ks[0], ks[-1]
        if w <= n:
            left, right = lo2 - st.lo, st.hi - hi2
            within = st.lo <= lo2 and hi2 <= st.hi
        else:
            left, right = st.lo - lo2, hi2 - st.hi
            within = lo2 <= st.lo and st.hi <= hi2
        placed = within and ((pos == "start" and lo2 == st.lo) or (pos == "end" and hi2 == st.hi) or (pos == "center" and abs(left - right) <= 1))
        out.expect("placement", placed, {"left": left, "right": right, "indices": [lo2, hi2]}, pos, cls)
        if not placed:
            out.klass = "%s:misplaced" % kind
            return None
    # the result is an axis like any other: coordinate look-ups on it answer for ITS coordinates (half a step outside either end
    # is outside, the end coordinates are the first and the last index), whatever the operation left in the attributes
    if ks:
        cr = r.coords["x"].data
        stp = STEPS[st.init["step"]]
        for v, want in ((float(cr[0]) - stp / 2, None), (float(cr[-1]) + stp / 2, None), (float(cr[0]), 0), (float(cr[-1]), len(ks) - 1)):
            try:
                gi = ("ok", int(get_coord_index(r, "x", v, raise_error=True)))
            except (KeyError, ValueError) as e:
                gi = ("raise", type(e).__name__)
            except Exception as e:  # noqa
                gi = ("crash", type(e).__name__)
            okl = gi[0] == "raise" if want is None else gi == ("ok", want)
            out.expect("lookup_on_result", okl, list(gi), "raises" if want is None else want,
                       dict(cls, where="outside" if want is None else "end_coordinate"))
    # data stays on its coordinate; fill elsewhere
    got = values_of(r, st.init)
    newvals = {}
    bad_data, bad_fill = None, None
    for k, g in zip(ks, got):
        if k in st.vals and st.lo <= k <= st.hi:
            v = st.vals[k]
            isfill = v < 0
            if not same_values(g, expected_tuple(v, st.init, isfill)) and bad_data is None:
                bad_data = {"index": k, "got": g, "expected": expected_tuple(v, st.init, isfill)}
            newvals[k] = v
        else:
            if not same_values(g, expected_tuple(fill, st.init, True)) and bad_fill is None:
                bad_fill = {"index": k, "got": g, "expected": fill}
            newvals[k] = fill
    kept = [k for k in ks if st.lo <= k <= st.hi]
    if kept:
        out.expect("data_stays_on_coordinate", bad_data is None, bad_data, "every kept sample at its lattice index", cls)
    else:
        out.vac("data_stays_on_coordinate")
    if len(kept) < len(ks):
        out.expect("fill_elsewhere", bad_fill is None, bad_fill, "fill value on every new lattice point", cls)
    else:
        out.vac("fill_elsewhere")
    if bad_data or bad_fill:
        out.klass = "%s:wrong_data" % kind
        return None
    out.expect("other_dims_untouched", tuple(d for d in r.dims) == tuple(arr.dims) and all(r.sizes[d] == arr.sizes[d] for d in r.dims if d != "x"),
               list(r.dims), list(arr.dims), cls)
    out.nontrivial = ks != list(range(st.lo, st.hi + 1))
    out.klass = "%s:%s" % (kind, "empty" if not ks else ("same" if not out.nontrivial else "changed"))
    if not ks:
        return St(st.init, r, 0, -1, {}, st.depth + 1)
    return St(st.init, r, ks[0], ks[-1], newvals, st.depth + 1)


def run_decreasing(case):
    """The width functions on a regular axis that counts DOWN (negative step): exactly `width` samples, an arithmetic progression
    with the axis' own step, the original samples kept at their coordinates as a block at the start / centre / end, fill elsewhere."""
    out = Out(case)
    n, step, w, pos, attr = case["n"], case["step"], case["w"], case["pos"], case["attr"]
    coords = np.array([10.0 + step * i for i in range(n)])
    var = xr.Variable("x", coords, attrs={"step": step} if attr else {})
    arr = xr.DataArray(np.arange(n) + 1.0, dims=["x"], coords={"x": var})
    res = call(adjust_dim_width, arr, "x", w, fill_value=-7.0, position=pos)
    out.transitions = out.validated = 1
    out.nontrivial = w != n
    cls = {"fn": "adjust_width", "axis": "decreasing", "pos": pos, "dir": "same" if w == n else "crop" if w < n else "extend"}
    if res[0] != "ok":
        out.fail("no_crash", list(res), "a DataArray", dict(cls, outcome=res[0]))
        return out
    r = res[1]
    c = [float(v) for v in r.coords["x"].data]
    d = [float(v) for v in r.data]
    out.expect("size", len(c) == w, len(c), w, cls)
    prog = all(abs((c[i + 1] - c[i]) - step) <= 1e-9 * abs(step) for i in range(len(c) - 1))
    out.expect("coords_on_lattice", prog, c[:8], "an arithmetic progression with step %g" % step, cls)
    if len(c) == w and prog:
        orig = {float(x): float(v) for x, v in zip(coords, arr.data)}
        kept = [i for i, x in enumerate(c) if any(abs(x - y) <= 1e-9 for y in orig)]
        okd = all(abs(d[i] - orig[min(orig, key=lambda y: abs(y - c[i]))]) == 0 for i in kept)
        okf = all(d[i] == -7.0 for i in range(w) if i not in kept)
        out.expect("data_stays_on_coordinate", okd and len(kept) == min(n, w), {"coords": c[:8], "data": d[:8]}, "original samples at their coordinates", cls)
        out.expect("fill_elsewhere", okf, d[:8], "fill value on every new sample", cls)
        if kept:
            left, right = kept[0], w - 1 - kept[-1]
            if w >= n:
                placed = (pos == "start" and left == 0) or (pos == "end" and right == 0) or (pos == "center" and abs(left - right) <= 1)
            else:
                first = int(round((c[0] - coords[0]) / step))
                l2, r2 = first, n - w - first
                placed = (pos == "start" and l2 == 0) or (pos == "end" and r2 == 0) or (pos == "center" and abs(l2 - r2) <= 1)
            out.expect("placement", placed, {"coords": c[:8]}, pos, cls)
    out.klass = "decreasing:%s" % ("ok" if not out.viol else "viol")
    return out


def run_block(block, rec):
    if block.get("decreasing"):
        for n in (1, 4, 5):
            for step in (-1.0, -0.5):
                for attr in (True, False):
                    if not attr and n < 2:
                        continue
                    for w in range(1, n + 4):
                        for pos in ("start", "center", "end"):
                            rec.add(run_decreasing({"decreasing": 1, "n": n, "step": step, "w": w, "pos": pos, "attr": attr}))
        return
    init = block["init"]
    st0 = make_initial(init)

    def apply_op(st, op):
        # the case descriptor is completed by on_transition (history); here only compute
        out = Out(None)
        nxt = step_fn(st, op, out)
        apply_op.last = out
        return nxt

    def on_transition(hist, st, op, nxt):
        out = apply_op.last
        out.case = {"init": init, "history": hist[1:]}
        out.key = [init, list(canon(nxt))] if nxt is not None else [init, "end", hist[1:]]
        rec.add(out)

    s = B.bfs((init, st0), ops, apply_op, canon, block["depth"], on_transition=on_transition)
    rec.count("bfs_states", s.states)
    rec.count("bfs_merged", s.merged)


def replay_case(case):
    if "decreasing" in case:
        return run_decreasing(case)
    st = make_initial(case["init"])
    merged = Out(case)
    for op in case["history"]:
        out = Out(case)
        nxt = step_fn(st, op, out)
        for o, (c, v) in out.checks.items():
            m = merged.checks.setdefault(o, [0, 0])
            m[0] += c
            m[1] += v
        merged.viol.extend(out.viol)
        if nxt is None:
            break
        st = nxt
    return merged
