"""C07 — Matching is an optimal one-to-one assignment that covers every geometry once.

Function under test: soundevent.evaluation.match_geometries.

Exhaustive over EVERY pair of lists (source, target) up to a length bound over a
small pool of lattice geometries, for the default buffers and one non-default
buffer pair.  Reference model: the affinity matrix comes from the public
``compute_affinity`` (decided separately by C06) called with the same buffers and
cached per (pool member, pool member, buffer setting); the optimum is the brute
force over all partial injective pairings (models.matching, exact arithmetic).
"""
from __future__ import annotations

import inspect
import math
import numbers
from fractions import Fraction

from soundevent.evaluation import compute_affinity, match_geometries

from mc.runner import Out
from models import matching as mm
from props.common import is_rejection, mkgeom

ID = "C07"
RULE = (
    "every ordered pair of lists (source, target) with lengths 0..L x 0..L (repeats allowed, so identical copies, "
    "rectangular and empty inputs are all included) over a pool of lattice geometries x {default buffers, one "
    "non-default buffer pair}; one call of match_geometries per case, compared with the compute_affinity matrix and "
    "the brute-force optimum over all partial injective pairings. A case is non-trivial when at least one "
    "(source, target) pair of the case has positive affinity (a pairing decision has to be made); distinct = "
    "distinct case descriptor (pool, buffer setting, index lists). Outcome class = number of reported pairs with "
    "positive / zero affinity and whether the optimal positive pairing is unique or tied."
)
ASSUMPTIONS = [
    "the affinity of a pair is what the public compute_affinity returns for (source, target) with the same buffers "
    "(its own correctness is property C06); compute_affinity is deterministic for fixed arguments",
    "'default buffers' means the defaults declared in match_geometries' own signature (read by inspect); the "
    "property does not fix their values",
    "totals are compared with the declared tolerance 1e-12 (DESIGN.md C07.optimal); everything else is exact",
    "indices may be any integral type (numpy integers are what linear_sum_assignment returns) but not bool",
]

TOL = Fraction(1, 10 ** 12)

# ---------------------------------------------------------------- pools
# q6: three boxes forming a chain with a tie (aff(A,B) == aff(B,C) == 1/3, A and C touch: affinity exactly 0),
#     an interval tied between A and B (0.5 each, 0 with C), a time stamp whose affinities exist only through the
#     buffers (so the two buffer settings give different matrices), and a box that overlaps nothing.
#     Identical copies arise from repeats of a pool member inside a list.
POOLS = {
    "q6": [
        ("BoundingBox", [0, 0, 2, 1000]),       # A
        ("BoundingBox", [1, 0, 3, 1000]),       # B   A∩B, B∩C
        ("BoundingBox", [2, 0, 4, 1000]),       # C   A∩C has no area
        ("TimeInterval", [1, 2]),               # I   0.5 with A and with B, 0 with C
        ("TimeStamp", 2.25),                    # S   buffer dependent
        ("BoundingBox", [8, 0, 9, 1000]),       # far overlaps nothing under either buffer setting
    ],
    "t5": [
        ("BoundingBox", [0, 0, 2, 1000]),
        ("BoundingBox", [1, 0, 3, 1000]),
        ("BoundingBox", [2, 0, 4, 1000]),
        ("TimeStamp", 2.25),
        ("BoundingBox", [8, 0, 9, 1000]),
    ],
    # thin (buffered) kinds placed at gaps between one and two buffers, in time and in frequency, for both buffer settings:
    # two buffered geometries still overlap up to a gap of 2 x buffer (a pre-filter with half the slack loses these pairs)
    "thin6": [
        ("TimeStamp", 2.25),
        ("TimeStamp", 2.265),                   # gap 0.015 in (0.01, 0.02]: overlaps 2.25 under the default time buffer
        ("TimeStamp", 3.0),                     # gap 0.75 in (0.5, 1.0]: overlaps 2.25 under the 0.5 s buffer
        ("Point", [2.25, 1000]),
        ("Point", [2.265, 1000]),
        ("Point", [2.25, 1150]),                # frequency gap 150 in (100, 200]
    ],
    # a time-only geometry has affinity exactly 1 with every box spanning the same time range, whatever its band; pairing
    # such 1.0 entries greedily is not optimal here: optimum = I-D (0.9) + B90-B100 (0.9) = 1.8, greedy = 1.0 + 0.048.
    # The two multipoints have identical bounds but share no point (affinity 0): bounds must not stand in for shapes.
    "mix6": [
        ("TimeInterval", [0, 1]),
        ("BoundingBox", [0, 0, 1, 90]),
        ("BoundingBox", [0, 0, 1, 100]),
        ("BoundingBox", [0, 80, 0.875, 200]),
        ("MultiPoint", [[3, 1000], [5, 3000]]),
        ("MultiPoint", [[3, 3000], [5, 1000]]),
    ],
    # affinities far below any 'is it zero?' tolerance: millisecond clicks inside a box covering a whole ten-minute recording
    # (IoU 1.7e-9); still positive, so the pair is the optimum and must be reported with that affinity
    "tiny4": [
        ("BoundingBox", [0, 0, 600, 96000]),
        ("BoundingBox", [10, 1000, 10.001, 1100]),
        ("BoundingBox", [20, 2000, 20.001, 2100]),
        ("BoundingBox", [700, 0, 701, 1000]),
    ],
    # boxes only, with pairs that are disjoint in time AND in frequency by small gaps (the product of two negative extents is
    # positive), one box overlapping both neighbours, one far away on both axes
    "boxes4": [
        ("BoundingBox", [0, 0, 2, 1000]),
        ("BoundingBox", [2.5, 1500, 4, 3000]),
        ("BoundingBox", [1, 500, 3, 2000]),
        ("BoundingBox", [5, 4000, 6, 5000]),
    ],
    # the remaining geometry types (+ one box for cross-type pairs)
    "x7": [
        ("Point", [1, 1000]),
        ("MultiPoint", [[1, 1000], [3, 2000]]),
        ("LineString", [[0.5, 500], [1.5, 1500], [2.5, 500]]),
        ("MultiLineString", [[[0.5, 1500], [1.5, 500]], [[2.5, 2000], [3.5, 2000]]]),
        ("Polygon", [[[0.5, 500], [2.5, 500], [1.5, 2500]]]),
        ("MultiPolygon", [[[[0, 0], [1, 0], [0, 1000]]], [[[3, 1500], [4, 1500], [4, 2500]]]]),
        ("BoundingBox", [0, 0, 2, 1000]),
    ],
}
# buffer settings: index 0 = call without buffer arguments, index 1 = explicit non-default (dyadic time buffer)
BUFFERS = [None, [0.5, 1000.0], [0, 0]]  # defaults (nothing passed); generous buffers; explicit zeros (passed as the ints 0, 0)

# (pool, maximum list length, number of shards per buffer setting)
PLAN = {
    "quick": [("q6", 3, 32), ("thin6", 2, 2), ("mix6", 2, 2), ("tiny4", 2, 1), ("boxes4", 2, 1)],
    "thorough": [("q6", 3, 8), ("t5", 4, 40), ("x7", 3, 16), ("thin6", 3, 8), ("mix6", 3, 8), ("tiny4", 3, 4), ("boxes4", 3, 4)],
}


def n_sequences(p, L):
    return sum(p ** k for k in range(L + 1))


def bounds(tier):
    spaces = []
    for pool, L, _ in PLAN[tier]:
        p = len(POOLS[pool])
        spaces.append({
            "pool": pool, "geometries": [{"type": t, "coordinates": c} for t, c in POOLS[pool]],
            "max_len_source": L, "max_len_target": L,
            "list_pairs": n_sequences(p, L) ** 2, "cases": n_sequences(p, L) ** 2 * len(BUFFERS),
        })
    return {"spaces": spaces, "buffers": ["signature defaults (no buffer arguments passed)", BUFFERS[1]],
            "sum_tolerance": "1e-12"}


# ---------------------------------------------------------------- enumeration
def list_pairs(p, L):
    """Every (source, target) pair of index lists over range(p) with lengths 0..L, simplest first
    (by total length, then source length, then lexicographically)."""
    import itertools
    by_len = {k: list(itertools.product(range(p), repeat=k)) for k in range(L + 1)}
    for total in range(2 * L + 1):
        for n in range(L + 1):
            m = total - n
            if 0 <= m <= L:
                for s in by_len[n]:
                    for t in by_len[m]:
                        yield s, t


def blocks(tier):
    out = []
    for pool, L, shards in PLAN[tier]:
        for b in range(len(BUFFERS)):
            for k in range(shards):
                out.append({"tier": tier, "pool": pool, "max_len": L, "buf": b, "shard": k, "of": shards})
    # costly spaces first so that the tail of the run is made of cheap blocks
    out.sort(key=lambda d: (-d["max_len"] * len(POOLS[d["pool"]]), d["pool"], d["buf"], d["shard"]))
    out.append({"tier": tier, "space": "large"})
    return out


# ---------------------------------------------------------------- large instances (more than 1000 candidate pairs)
def run_large(case):
    """n time stamps against n time stamps 15 ms later, 10 s apart from the next pair, default buffers (10 ms): each source has a
    positive affinity to its own target only (the gap lies between one and two buffers), so the optimum pairs i with i.  The instance
    is far beyond the brute-force model; its optimum is known by construction and the affinities come from compute_affinity."""
    out = Out(case)
    n = case["n"]
    S = [mkgeom("TimeStamp", 10.0 * i) for i in range(n)]
    T = [mkgeom("TimeStamp", 10.0 * i + 0.015) for i in range(n)]
    diag = [float(compute_affinity(S[i], T[i])) for i in range(n)]
    off = max(float(compute_affinity(S[i], T[j])) for i in range(n) for j in (i - 1, i + 1) if 0 <= j < n)
    out.transitions = out.validated = 1
    out.nontrivial = True
    if not (min(diag) > 0 and off == 0):
        out.vac("optimal")  # the construction does not hold (affinity is C06's subject): nothing to judge here
        out.klass = "large:construction_fails"
        return out
    cls = {"fn": FN, "kind": "large", "n": n}
    try:
        result = list(match_geometries(S, T))
    except Exception as e:  # noqa
        out.fail("covers_once", ["raised", type(e).__name__, str(e)[:200]], "a list of matches", dict(cls, exc=type(e).__name__))
        out.klass = "large:raised"
        return out
    src = sorted(e[0] for e in result if e[0] is not None)
    tgt = sorted(e[1] for e in result if e[1] is not None)
    out.expect("covers_once", src == list(range(n)) and tgt == list(range(n)), {"sources": len(src), "targets": len(tgt)}, n, cls)
    pairs = {(e[0], e[1]): e[2] for e in result if e[0] is not None and e[1] is not None}
    total = sum(diag[i] for (i, j) in pairs if i == j)
    missing = [i for i in range(n) if (i, i) not in pairs]
    out.expect("optimal", not missing, {"unpaired_diagonal": missing[:5], "n_missing": len(missing), "total": total},
               {"total": sum(diag)}, dict(cls, kind="large_sum_below_optimum"))
    bad = [[i, j, a] for (i, j), a in pairs.items() if i != j or abs(a - diag[i]) > 1e-9]
    out.expect("affinity_value", not bad, bad[:3], "reported affinity = compute_affinity of the pair", cls)
    out.klass = "large:%s" % ("ok" if not out.viol else "viol")
    return out


def run_crowded(case):
    """k calls (boxes, 2 s apart) present on both sides plus one long band on each side that covers them all and reaches a little
    further on its own side: every call pairs with itself (affinity 1), and the two bands - whose mutual affinity is lower than
    their affinity with any single call - pair with each other.  Optimum = k + a(band, band), by construction (any other use of a
    band costs a whole call)."""
    out = Out(case)
    k = case["k"]
    calls = [mkgeom("BoundingBox", [2.0 * i + 1.0, 1000.0, 2.0 * i + 2.0, 3000.0]) for i in range(k)]
    T1 = 2.0 * k + 1.0
    S = calls + [mkgeom("BoundingBox", [0.0, 0.0, T1 + 20.0, 2000.0])]
    T = [mkgeom(c.type, list(c.coordinates)) for c in calls] + [mkgeom("BoundingBox", [0.0, 2000.0, T1 + 20.0, 4000.0])]
    # the two bands only share the line f = 2000: give them a thin common strip instead
    T[-1] = mkgeom("BoundingBox", [0.0, 1990.0, T1 + 20.0, 4000.0])
    band = float(compute_affinity(S[-1], T[-1]))
    call_band = max(float(compute_affinity(calls[0], T[-1])), float(compute_affinity(S[-1], calls[0])))
    out.transitions = out.validated = 1
    out.nontrivial = True
    if not (0 < band < call_band < 0.5 and float(compute_affinity(calls[0], calls[0])) == 1.0):
        out.vac("optimal")
        out.klass = "crowded:construction_fails"
        return out
    cls = {"fn": FN, "kind": "crowded", "n": k + 1}
    try:
        result = list(match_geometries(S, T))
    except Exception as e:  # noqa
        out.fail("covers_once", ["raised", type(e).__name__, str(e)[:200]], "a list of matches", dict(cls, exc=type(e).__name__))
        return out
    total = sum(e[2] for e in result if e[0] is not None and e[1] is not None)
    best = k + band
    out.expect("optimal", total >= best - 1e-9, {"total": total, "pairs": sorted((e[0], e[1]) for e in result if e[0] is not None and e[1] is not None)[-3:]},
               {"optimum": best}, dict(cls, kind="crowded_sum_below_optimum"))
    out.klass = "crowded:%s" % ("ok" if not out.viol else "viol")
    return out


def run_block(block, rec):
    if block.get("space") == "large":
        for n in (31, 32, 33, 40):
            rec.add(run_large({"space": "large", "n": n}))
        for k in (7, 8, 9, 12, 20):
            rec.add(run_case({"space": "crowded", "k": k}))
        return
    pool, L, b, k, of = block["pool"], block["max_len"], block["buf"], block["shard"], block["of"]
    p = len(POOLS[pool])
    total = 0
    for pos, (s, t) in enumerate(list_pairs(p, L)):
        total += 1
        if pos % of == k:
            rec.add(run_case({"pool": pool, "buf": b, "src": list(s), "tgt": list(t)}))
    # a silently truncated enumeration must not pass as exhaustive
    assert total == n_sequences(p, L) ** 2, (total, p, L)


# ---------------------------------------------------------------- model side (cached per process)
_GEOMS = {}
_AFF = {}


def geoms(pool):
    if pool not in _GEOMS:
        _GEOMS[pool] = [mkgeom(t, c) for t, c in POOLS[pool]]
    return _GEOMS[pool]


def buffer_values(b):
    """The (time_buffer, freq_buffer) the model uses for buffer setting b."""
    if BUFFERS[b] is not None:
        return tuple(BUFFERS[b])
    params = inspect.signature(match_geometries).parameters
    tb = params["time_buffer"].default if "time_buffer" in params else 0.01
    fb = params["freq_buffer"].default if "freq_buffer" in params else 100
    if tb is inspect.Parameter.empty:
        tb = 0.01
    if fb is inspect.Parameter.empty:
        fb = 100
    return tb, fb


def affinity(pool, b, i, j):
    """Model affinity of pool member i (as source) and j (as target): ('ok', float) or ('error', name)."""
    key = (pool, b)
    if key not in _AFF:
        gs = geoms(pool)
        tb, fb = buffer_values(b)
        table = {}
        for x, g in enumerate(gs):
            for y, h in enumerate(gs):
                try:
                    table[(x, y)] = ("ok", float(compute_affinity(g, h, time_buffer=tb, freq_buffer=fb)))
                except Exception as e:  # noqa
                    table[(x, y)] = ("error", type(e).__name__)
        _AFF[key] = table
    return _AFF[key][(i, j)]


# ---------------------------------------------------------------- one case
FN = "match_geometries"


def _is_index(x):
    return isinstance(x, numbers.Integral) and not isinstance(x, bool)


def _plain(result):
    out = []
    for e in result:
        try:
            out.append([None if x is None else (int(x) if _is_index(x) else (float(x) if isinstance(x, numbers.Real) else repr(x)))
                        for x in e])
        except TypeError:
            out.append(repr(e))
    return out


def run_case(case):
    if case.get("space") == "large":
        return run_large(case)
    if case.get("space") == "crowded":
        return run_crowded(case)
    out = Out(case)
    pool, b = case["pool"], case["buf"]
    src, tgt = list(case["src"]), list(case["tgt"])
    n, m = len(src), len(tgt)
    gs = geoms(pool)
    S, T = [gs[i] for i in src], [gs[j] for j in tgt]
    shape = "empty" if n == 0 or m == 0 else ("square" if n == m else "rect")
    detail = {
        "source": [{"type": POOLS[pool][i][0], "coordinates": POOLS[pool][i][1]} for i in src],
        "target": [{"type": POOLS[pool][j][0], "coordinates": POOLS[pool][j][1]} for j in tgt],
        "buffers": BUFFERS[b] or "defaults",
    }

    # ---- model: affinity matrix and brute-force optimum
    cells = [[affinity(pool, b, i, j) for j in tgt] for i in src]
    matrix_ok = all(c[0] == "ok" for row in cells for c in row)
    A = [[c[1] for c in row] for row in cells] if matrix_ok else None
    opt = mm.optimum(A, n, m) if matrix_ok else None
    if A is not None:
        detail["affinity_matrix"] = A
    out.nontrivial = bool(A) and any(a > 0 for row in A for a in row)

    # ---- implementation
    out.transitions = 1
    out.validated = 1
    try:
        if BUFFERS[b] is None:
            result = list(match_geometries(S, T))
        else:
            result = list(match_geometries(S, T, time_buffer=BUFFERS[b][0], freq_buffer=BUFFERS[b][1]))
    except Exception as e:  # noqa  -- every enumerated input is in the domain: any exception is a violation
        kind = "reject" if is_rejection(e) else "crash"
        out.fail("covers_once", [kind, type(e).__name__, str(e)[:200]], "a list of matches covering every index once",
                 {"fn": FN, "kind": "raised", "exc": type(e).__name__}, detail)
        for o in ("indices_valid", "pair_requires_positive", "affinity_value", "optimal"):
            out.vac(o)
        out.klass = "raised:" + type(e).__name__
        return out
    obs = _plain(result)

    # ---- indices_valid: (source index | None, target index | None, affinity), never (None, None)
    bad = set()
    for e in result:
        if not (isinstance(e, tuple) and len(e) == 3):
            bad.add("not_a_triple")
            continue
        s, t, a = e
        if not (s is None or _is_index(s)):
            bad.add("bad_source_index")
        if not (t is None or _is_index(t)):
            bad.add("bad_target_index")
        if s is None and t is None:
            bad.add("both_none")
        if not (isinstance(a, numbers.Real) and not isinstance(a, bool) and math.isfinite(a)):
            bad.add("bad_affinity")
    if bad:
        for kind in sorted(bad):
            out.fail("indices_valid", obs, "triples (int|None, int|None, finite float), never (None, None)",
                     {"fn": FN, "kind": kind}, detail)
        # the entries cannot be interpreted: nothing else is judged on this case
        for o in ("covers_once", "pair_requires_positive", "affinity_value", "optimal"):
            out.vac(o)
        out.klass = "malformed"
        return out
    out.ok("indices_valid")

    # ---- covers_once: every source and every target index exactly once, no other index
    kinds = set()
    for side, size, col in (("source", n, 0), ("target", m, 1)):
        seen = [e[col] for e in result if e[col] is not None]
        if any(not 0 <= x < size for x in seen):
            kinds.add(side + "_out_of_range")
        inr = [int(x) for x in seen if 0 <= x < size]
        if len(set(inr)) < len(inr):
            kinds.add(side + "_duplicate")
        if set(inr) != set(range(size)):
            kinds.add(side + "_missing")
    if kinds:
        for kind in sorted(kinds):
            out.fail("covers_once", obs, {"source_indices": list(range(n)), "target_indices": list(range(m))},
                     {"fn": FN, "kind": kind, "shape": shape}, detail)
    else:
        out.ok("covers_once")

    # ---- pair_requires_positive / affinity_value (need the model matrix and in-range indices)
    n_pos = n_zero = 0
    if A is None:
        out.vac("pair_requires_positive")
        out.vac("affinity_value")
    else:
        zero_pairs, neg_pairs, mismatch, unpaired_nonzero = [], [], [], []
        n_pairs = n_judged = 0
        for s, t, a in result:
            if s is not None and t is not None:
                if not (0 <= s < n and 0 <= t < m):
                    continue  # reported by covers_once
                n_pairs += 1
                n_judged += 1
                true = A[int(s)][int(t)]
                if true > 0:
                    n_pos += 1
                elif true == 0:
                    n_zero += 1
                    zero_pairs.append([int(s), int(t)])
                else:
                    neg_pairs.append([int(s), int(t), true])
                if not float(a) == true:
                    mismatch.append({"entry": [int(s), int(t), float(a)], "affinity": true})
            else:
                n_judged += 1
                if not float(a) == 0.0:
                    unpaired_nonzero.append([None if s is None else int(s), None if t is None else int(t), float(a)])
        if n_pairs == 0:
            out.vac("pair_requires_positive")
        else:
            if zero_pairs:
                out.fail("pair_requires_positive", obs, "paired only if affinity > 0; zero-affinity pairs: %s" % zero_pairs,
                         {"fn": FN, "kind": "paired_with_zero_affinity"}, detail)
            if neg_pairs:
                out.fail("pair_requires_positive", obs, "paired only if affinity > 0; negative-affinity pairs: %s" % neg_pairs,
                         {"fn": FN, "kind": "paired_with_negative_affinity"}, detail)
            if not zero_pairs and not neg_pairs:
                out.ok("pair_requires_positive")
        if n_judged == 0:
            out.vac("affinity_value")
        else:
            if mismatch:
                out.fail("affinity_value", obs, mismatch, {"fn": FN, "kind": "paired_value_differs_from_affinity"}, detail)
            if unpaired_nonzero:
                out.fail("affinity_value", obs, "unpaired entries report 0.0; got %s" % unpaired_nonzero,
                         {"fn": FN, "kind": "unpaired_nonzero"}, detail)
            if not mismatch and not unpaired_nonzero:
                out.ok("affinity_value")

    # ---- optimal: sum of reported affinities == brute-force optimum (1e-12)
    if opt is None:
        out.vac("optimal")
    else:
        total = sum((Fraction(float(e[2])) for e in result), Fraction(0))
        diff = total - opt["best"]
        if abs(diff) <= TOL:
            out.ok("optimal")
        else:
            out.fail("optimal", {"sum": float(total), "matches": obs},
                     {"optimum": float(opt["best"]), "an_optimal_pairing": opt["pairing"], "pairings_enumerated": opt["n_pairings"]},
                     {"fn": FN, "kind": "sum_below_optimum" if diff < 0 else "sum_above_optimum"}, detail)

    if opt is None:
        out.klass = "model_matrix_unavailable"
    else:
        out.klass = "pos%d:zero%d:%s" % (n_pos, n_zero, "tie" if opt["n_best_pos"] > 1 else "uniq")
    return out


def replay_case(case):
    return run_case(case)
